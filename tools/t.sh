#!/bin/sh
# usage: tools/t.sh <neutral|seeded> <id> <props>  -- scratch copy with the patch, run the properties, remove
r=$(/verif/tools/scratch.sh $1 $2); cd /verif; /venv/bin/python -m sa.multi $r $3 | grep -v "^KNOWN" | cut -c1-${W:-300}; rm -rf $r
