#!/usr/bin/env python3-vt
"""Validate MANIFEST.json and every evidence file against the schemas
(run with python3-vt, which has jsonschema)."""
import glob
import json
import sys
import jsonschema
ok = True
man = json.load(open('/verif/MANIFEST.json'))
jsonschema.validate(man, json.load(open('/root/.vp/MANIFEST.schema.json')))
print('MANIFEST ok:', len(man['checks']), 'checks')
sch = json.load(open('/root/.vp/EVIDENCE.schema.json'))
for c in man['checks']:
    p = c['evidence_file']
    try:
        jsonschema.validate(json.load(open(p)), sch)
        print('evidence ok:', p)
    except Exception as e:
        ok = False
        print('evidence BAD:', p, str(e)[:200])
ids = {c['property_id'] for c in man['checks']} | {
    n['property_id'] for n in man.get('not_applicable', [])}
props = [json.loads(l)['id'] for l in open('/verif/properties.jsonl')]
missing = [p for p in props if p not in ids]
if missing:
    ok = False
    print('properties neither claimed nor not_applicable:', missing)
sys.exit(0 if ok else 1)
