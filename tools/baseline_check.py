#!/venv/bin/python
"""Run the pinned baseline test command of /repo and compare the result with
/root/.vp/BASELINE.json (the 1223 stable-pass tests). Not part of any check;
used by hand after each `fix:` commit in /repo.

usage: baseline_check.py [repo_dir]
"""
import json
import os
import subprocess
import sys
import tempfile
import xml.etree.ElementTree as ET

repo = sys.argv[1] if len(sys.argv) > 1 else '/repo'
base = json.load(open('/root/.vp/BASELINE.json'))
stable = set(base['stable_pass'])
fd, xml = tempfile.mkstemp(suffix='.xml')
os.close(fd)
cmd = ['/venv/bin/python', '-m', 'pytest', '-ra', '-q', '-p',
       'no:cacheprovider', '--timeout=900',
       '--continue-on-collection-errors', '--junitxml=' + xml]
env = dict(os.environ)
p = subprocess.run(cmd, cwd=repo, env=env, stdout=subprocess.PIPE,
                   stderr=subprocess.STDOUT, text=True)
passed = set()
for tc in ET.parse(xml).getroot().iter('testcase'):
    if not any(ch.tag in ('failure', 'error', 'skipped') for ch in tc):
        passed.add('{}::{}'.format(tc.get('classname'), tc.get('name')))
os.unlink(xml)
missing = sorted(stable - passed)
print('stable tests: {}  passed now: {}  stable-but-not-passing: {}'.format(
    len(stable), len(passed & stable), len(missing)))
for m in missing[:40]:
    print('  MISSING', m)
sys.exit(1 if missing else 0)
