#!/venv/bin/python
"""Generate /verif/MANIFEST.json from the table below (validated against the
schema). Run after adding or changing a check."""
import json
import os
import sys

VERIF = os.path.dirname(os.path.dirname(os.path.abspath(__file__)))
sys.path.insert(0, VERIF)
from sa.claims import CLAIMS, NOT_APPLICABLE  # noqa: E402

PY = '/venv/bin/python'


def main():
    checks = []
    for pid in sorted(CLAIMS):
        c = CLAIMS[pid]
        checks.append({
            'property_id': pid,
            'quick_cmd': '{} -m sa.run --property {} --tier quick'.format(
                PY, pid),
            'thorough_cmd': '{} -m sa.run --property {} --tier thorough'
                            .format(PY, pid),
            'evidence_file': '/verif/evidence/{}.json'.format(pid),
            'replay_cmd_template': PY + ' -m sa.replay {path}',
            'engine': 'sa',
            'level_claimed': {
                'category': 'other',
                'text': c['text'],
                'design_ref': 'DESIGN.md section 4, ' + pid,
            },
            'level_note': c['note'],
            'technique': c['technique'],
        })
    man = {
        'version': 1,
        'setup_cmd': PY + ' -c "import ast, re._parser, json; '
                     'import sa.run"',
        'hooks': {
            'guard': 'BFG9000_VERIF',
            'enable': 'none: static analysis needs no instrumentation of '
                      '/repo; the guard variable is unused',
            'baseline_off_cmd': 'cd /repo && /venv/bin/python -m pytest -ra '
                                '-q -p no:cacheprovider --timeout=900 '
                                '--continue-on-collection-errors',
            'source_commits': [],
            'add_only': True,
        },
        'engines': [{
            'name': 'sa',
            'path': '/verif/sa',
            'serves_properties': sorted(CLAIMS),
            'kind_free_text': 'repository-specific static analysis over the '
                              'Python AST (stdlib ast, re._parser): name/'
                              'class resolution, registries, call graph, '
                              'statement CFG with dominators, def-use, '
                              'constant folding, regex structure analysis; '
                              'reader-side lexical tables as oracle',
        }],
        'checks': checks,
        'notes': 'Every check decides named structural necessary clauses of '
                 'its property from the source of /repo (working tree) and '
                 'never runs bfg9000. Exit 2 + ANALYSIS-ERROR means the '
                 'checker lost its anchors, not that the property is '
                 'violated. Known findings: /verif/KNOWN_FINDINGS.txt.',
        'not_applicable': [
            {'property_id': p, 'reason': r}
            for p, r in sorted(NOT_APPLICABLE.items()) if p not in CLAIMS],
    }
    out = os.path.join(VERIF, 'MANIFEST.json')
    with open(out, 'w') as f:
        json.dump(man, f, indent=1)
        f.write('\n')
    try:
        import jsonschema
        jsonschema.validate(man, json.load(
            open('/root/.vp/MANIFEST.schema.json')))
        print('MANIFEST.json valid ({} checks, {} not applicable)'.format(
            len(checks), len(man['not_applicable'])))
    except ImportError:
        print('MANIFEST.json written (jsonschema not available here)')


if __name__ == '__main__':
    main()
