#!/venv/bin/python
"""Confirm a seeded breakage produced by a sub-agent and import it.

usage: import_seed.py <property> <src dir with patch.diff, demo.*, README.md> <seed id>

Confirmation happens in a fresh scratch git worktree of /repo (under /tmp,
removed afterwards): the demo must exit 0 on the clean tree; with the patch
applied the 1223-test baseline must stay green and the demo must exit non-zero.
Only then is the seed copied to /verif/seeded/<id>/ with a meta.json recording
what was run.
"""
import json
import os
import shutil
import subprocess
import sys
import tempfile

VERIF = os.path.dirname(os.path.dirname(os.path.abspath(__file__)))
PY = '/venv/bin/python'


def sh(cmd, **kw):
    return subprocess.run(cmd, stdout=subprocess.PIPE, stderr=subprocess.STDOUT,
                          text=True, **kw)


def run_demo(demo, root):
    env = dict(os.environ, PYTHONPATH=root)
    if demo.endswith('.py'):
        cmd = [PY, demo, root]
    else:
        cmd = ['/bin/sh', demo, root]
    try:
        p = subprocess.run(cmd, stdout=subprocess.PIPE,
                           stderr=subprocess.STDOUT, text=True, env=env,
                           timeout=300)
        return p.returncode, p.stdout[-1500:]
    except subprocess.TimeoutExpired:
        return 124, 'timeout'


def main():
    prop, src, sid = sys.argv[1:4]
    patch = os.path.join(src, 'patch.diff')
    demos = [f for f in os.listdir(src) if f.startswith('demo.')]
    if not os.path.exists(patch) or not demos:
        print('missing patch.diff or demo in', src)
        return 2
    demo = os.path.join(src, demos[0])
    wt = tempfile.mkdtemp(prefix='bfg_seedwt_')
    os.rmdir(wt)
    r = sh(['git', '-C', '/repo', 'worktree', 'add', '--detach', wt, 'HEAD'])
    if r.returncode:
        print(r.stdout)
        return 2
    try:
        files = sh(['git', '-C', wt, 'apply', '--numstat', patch]).stdout
        touched = [l.split('\t')[-1] for l in files.splitlines() if l.strip()]
        if not touched or not all(t.startswith('bfg9000/') for t in touched):
            print('REJECT: patch touches files outside bfg9000/:', touched)
            return 1
        rc0, out0 = run_demo(demo, wt)
        if rc0 != 0:
            print('REJECT: demo fails on the clean tree (rc={})\n{}'.format(
                rc0, out0))
            return 1
        r = sh(['git', '-C', wt, 'apply', patch])
        if r.returncode:
            print('REJECT: patch does not apply\n' + r.stdout)
            return 1
        r = sh([PY, '-m', 'compileall', '-q', os.path.join(wt, 'bfg9000')])
        if r.returncode:
            print('REJECT: does not compile\n' + r.stdout[-800:])
            return 1
        rc1, out1 = run_demo(demo, wt)
        if rc1 == 0:
            print('REJECT: demo passes with the patch applied')
            return 1
        b = sh([PY, os.path.join(VERIF, 'tools', 'baseline_check.py'), wt])
        if b.returncode != 0:
            print('REJECT: baseline not green with the patch\n' +
                  b.stdout[-1500:])
            return 1
        sh(['git', '-C', wt, 'checkout', '--', '.'])
        rc2, out2 = run_demo(demo, wt)
        if rc2 != 0:
            print('REJECT: demo fails after reverting (rc={})'.format(rc2))
            return 1
    finally:
        sh(['git', '-C', '/repo', 'worktree', 'remove', '--force', wt])
        shutil.rmtree(wt, ignore_errors=True)
    dst = os.path.join(VERIF, 'seeded', sid)
    os.makedirs(dst, exist_ok=True)
    shutil.copy(patch, os.path.join(dst, 'patch.diff'))
    shutil.copy(demo, os.path.join(dst, os.path.basename(demo)))
    readme = os.path.join(src, 'README.md')
    needs = ''
    if os.path.exists(readme):
        shutil.copy(readme, os.path.join(dst, 'README.md'))
        needs = open(readme).read()[:1200]
    meta = {
        'id': sid, 'property': prop, 'files': touched,
        'origin': 'independent sub-agent given only the property text and a '
                  'scratch worktree',
        'needs_to_manifest': needs,
        'confirmed': {
            'base_commit': sh(['git', '-C', '/repo', 'rev-parse', '--short',
                               'HEAD']).stdout.strip(),
            'demo_clean_tree_rc': rc0, 'demo_with_patch_rc': rc1,
            'demo_after_revert_rc': rc2,
            'demo_with_patch_output_tail': out1[-400:],
            'baseline_with_patch': b.stdout.strip().splitlines()[-1],
            'commands': [
                'git -C /repo worktree add --detach <tmp> HEAD',
                '{} {} <tmp>   (clean: rc 0)'.format(
                    'python' if demo.endswith('.py') else 'sh',
                    os.path.basename(demo)),
                'git -C <tmp> apply patch.diff',
                '/venv/bin/python -m pytest (1223 stable tests, '
                'PYTHONPATH=<tmp>)',
                'demo again (rc != 0), git checkout -- ., demo again (rc 0)',
                'git -C /repo worktree remove --force <tmp>'],
        },
    }
    with open(os.path.join(dst, 'meta.json'), 'w') as f:
        json.dump(meta, f, indent=1)
        f.write('\n')
    print('IMPORTED', sid, '->', dst)
    return 0


if __name__ == '__main__':
    sys.exit(main())
