#!/bin/sh
# usage: tools/scratch.sh <neutral|seeded> <id>  -> prints scratch root with patch applied (remove it yourself)
kind=$1; id=$2
root=$(mktemp -d /tmp/bfg_scr_XXXXXX)
cp -r /repo/bfg9000 $root/bfg9000
find $root -name __pycache__ -prune -exec rm -rf {} + 2>/dev/null
(cd $root && patch -p1 -s -i /verif/$kind/$id/patch.diff) || { echo "patch failed" >&2; }
echo $root
