#!/bin/sh
# import every seed under /tmp/seed_out/<prop>/<k>/ that is not imported yet
# (4 in parallel); usage: import_all_seeds.sh [prop ...]
cd /verif
props="$@"
[ -z "$props" ] && props=$(ls /tmp/seed_out)
for p in $props; do
  for k in $(ls /tmp/seed_out/$p 2>/dev/null); do
    d=/tmp/seed_out/$p/$k
    [ -f $d/patch.diff ] || continue
    id="${p}-s${k}"
    [ -f /verif/seeded/$id/meta.json ] && continue
    echo "$p $d $id"
  done
done | xargs -P 4 -L 1 sh -c '/venv/bin/python tools/import_seed.py $0 $1 $2 2>&1 | tail -3'
