#!/bin/sh
# import every seed under $SEED_SRC/<prop>/<k>/ (default /tmp/seed_out) that is
# not imported yet (4 in parallel); ids are <prop>-<tag><k> (tag default "s").
# usage: [SEED_SRC=dir] [SEED_TAG=r2-] import_all_seeds.sh [prop ...]
cd /verif
SRC=${SEED_SRC:-/tmp/seed_out}
TAG=${SEED_TAG:-s}
props="$@"
[ -z "$props" ] && props=$(ls $SRC)
for p in $props; do
  for k in $(ls $SRC/$p 2>/dev/null); do
    d=$SRC/$p/$k
    [ -f $d/patch.diff ] || continue
    id="${p}-${TAG}${k}"
    [ -f /verif/seeded/$id/meta.json ] && continue
    echo "$p $d $id"
  done
done | xargs -P 4 -L 1 sh -c '/venv/bin/python tools/import_seed.py $0 $1 $2 2>&1 | tail -3'
