#!/venv/bin/python
"""Run the quick checks against seeded breakages.

For every /verif/seeded/<id>/patch.diff (or the ids given on the command
line): copy /repo's bfg9000 package into a scratch directory outside /repo and
/verif, apply the patch there, run the quick check of the property the seed
targets (with --all: of every property; with --props=C01,C02: of those) with
--repo <scratch>, remove the scratch directory, and print which checks report a
violation. Nothing in /repo is modified. (`--in-place` instead applies the
patch to /repo itself, runs the checks, and undoes it with git checkout.)
With --all and no ids, /verif/seeded/RESULTS.md is rewritten.

usage: run_seeded.py [--all] [--props=..] [--in-place] [id ...]
"""
import json
import os
import shutil
import subprocess
import sys
import tempfile
from multiprocessing import Pool

VERIF = os.path.dirname(os.path.dirname(os.path.abspath(__file__)))
SEEDED = os.path.join(VERIF, 'seeded')
PY = '/venv/bin/python'
ALL = ['C%02d' % i for i in range(1, 21)]


def run_check(prop, root):
    p = subprocess.run([PY, '-m', 'sa.run', '--property', prop, '--tier',
                        'quick', '--repo', root], cwd=VERIF,
                       stdout=subprocess.PIPE, stderr=subprocess.STDOUT,
                       text=True, env=dict(os.environ,
                                           VERIF_NO_EVIDENCE='1'))
    viol = [l.strip() for l in p.stdout.splitlines()
            if l.strip().startswith('violated:')]
    err = [l for l in p.stdout.splitlines() if 'ANALYSIS-ERROR' in l]
    return p.returncode, viol, err


def one(arg):
    sid, props_mode, in_place = arg
    d = os.path.join(SEEDED, sid)
    meta = json.load(open(os.path.join(d, 'meta.json')))
    target = meta['property']
    props = ALL if props_mode == 'all' else (
        props_mode if isinstance(props_mode, list) else [target])
    if in_place:
        root = '/repo'
        subprocess.run(['git', '-C', '/repo', 'apply',
                        os.path.join(d, 'patch.diff')], check=True)
    else:
        root = tempfile.mkdtemp(prefix='bfg_seed_')
        shutil.copytree('/repo/bfg9000', os.path.join(root, 'bfg9000'),
                        ignore=shutil.ignore_patterns('__pycache__'))
        r = subprocess.run(['git', 'apply', '--unsafe-paths',
                            '--directory=' + root,
                            os.path.join(d, 'patch.diff')],
                           cwd=root, stdout=subprocess.PIPE,
                           stderr=subprocess.STDOUT, text=True)
        if r.returncode != 0:
            r = subprocess.run(['patch', '-p1', '-s', '-i',
                                os.path.join(d, 'patch.diff')], cwd=root,
                               stdout=subprocess.PIPE,
                               stderr=subprocess.STDOUT, text=True)
        if r.returncode != 0:
            shutil.rmtree(root, ignore_errors=True)
            return (sid, target, 'STALE-PATCH', [])
    try:
        hits = []
        c = subprocess.run([PY, '-m', 'sa.multi', root, ','.join(props)],
                           cwd=VERIF, stdout=subprocess.PIPE,
                           stderr=subprocess.STDOUT, text=True,
                           env=dict(os.environ, VERIF_NO_EVIDENCE='1'))
        cur = None
        for l in c.stdout.splitlines():
            if l.startswith('## '):
                p, rc = l[3:].split(' rc=')
                cur = None
                if rc == '1':
                    cur = (p, [])
                    hits.append(cur)
                elif rc == '2':
                    cur = (p + '(analysis-error)', [])
                    hits.append(cur)
            elif cur is not None:
                cur[1].append(l.strip())
        if c.returncode != 0:
            hits.append(('multi(analysis-error)',
                         c.stdout.splitlines()[-3:]))
    finally:
        if in_place:
            subprocess.run(['git', '-C', '/repo', 'checkout', '--', '.'],
                           check=True)
        else:
            shutil.rmtree(root, ignore_errors=True)
    detected = any(h[0] == target for h in hits)
    verdict = 'DETECTED' if detected else (
        'other-property' if any('analysis-error' not in h[0] for h in hits)
        else 'MISSED')
    return (sid, target, verdict, hits)


def main():
    args = sys.argv[1:]
    every = '--all' in args
    in_place = '--in-place' in args
    mode = 'all' if every else 'target'
    for a in args:
        if a.startswith('--props='):
            mode = a.split('=', 1)[1].split(',')
    ids = [a for a in args if not a.startswith('--')]
    explicit = bool(ids)
    if not ids:
        ids = sorted(d for d in os.listdir(SEEDED)
                     if os.path.isfile(os.path.join(SEEDED, d, 'patch.diff')))
    if isinstance(mode, list) and not explicit:
        ids = [i for i in ids if i.split('-')[0] in mode]
    jobs = [(sid, mode, in_place) for sid in ids]
    if in_place:
        summary = [one(j) for j in jobs]
    else:
        with Pool(12) as pool:
            summary = pool.map(one, jobs)
    for sid, target, verdict, hits in summary:
        print('{:28s} target={} -> {}'.format(sid, target, verdict))
        for p, lines in hits:
            for l in lines[:3]:
                print('     {}: {}'.format(p, l[:200]))
    if every and not explicit:
        with open(os.path.join(SEEDED, 'RESULTS.md'), 'w') as f:
            f.write('# Seeded breakages vs. quick checks\n\n'
                    'Generated by `tools/run_seeded.py --all` (each patch '
                    'applied to a scratch copy of /repo\'s package; every '
                    'property\'s quick check run with `--repo <scratch>`). '
                    'Seeds `Cxx-sN` are round 1 (the checks were '
                    'strengthened with these in view), `Cxx-r2-N` / `Cxx-r3-N` '
                    'are the held-out rounds 2 and 3.\n\n| seed | target | verdict | '
                    'reported by (rule instances) |\n|---|---|---|---|\n')
            for sid, target, verdict, hits in summary:
                cell = []
                for p_, lines in hits:
                    rules = sorted({l.split('rule=')[1].split(' ')[0]
                                    for l in lines if 'rule=' in l})
                    cell.append('{}: {}'.format(p_, ', '.join(rules) or
                                                'analysis-error'))
                f.write('| {} | {} | {} | {} |\n'.format(
                    sid, target, verdict, '; '.join(cell)))
            for tag, name in (('-s', 'round 1'), ('-r2-', 'round 2 '
                                                  '(held out)'),
                              ('-r3-', 'round 3 (held out)')):
                part = [s_ for s_ in summary if tag in s_[0]]
                f.write('\n{}: {} seeds, {} reported by their target '
                        'property, {} only by another property, {} missed, '
                        '{} stale.\n'.format(
                            name, len(part),
                            sum(1 for s_ in part if s_[2] == 'DETECTED'),
                            sum(1 for s_ in part
                                if s_[2] == 'other-property'),
                            sum(1 for s_ in part if s_[2] == 'MISSED'),
                            sum(1 for s_ in part if s_[2] == 'STALE-PATCH')))
    if every and not explicit:
        exp = {}
        for sid, target, verdict, hits in summary:
            exp[sid] = sorted(p_ for p_, lines in hits if '(' not in p_)
        with open(os.path.join(SEEDED, 'EXPECTED.json'), 'w') as f:
            json.dump(exp, f, indent=0, sort_keys=True)
            f.write('\n')
    n = len(summary)
    print('\n{} seeds, {} detected by their target property, {} only by '
          'another property, {} missed, {} stale'.format(
              n, sum(1 for s in summary if s[2] == 'DETECTED'),
              sum(1 for s in summary if s[2] == 'other-property'),
              sum(1 for s in summary if s[2] == 'MISSED'),
              sum(1 for s in summary if s[2] == 'STALE-PATCH')))


if __name__ == '__main__':
    main()
