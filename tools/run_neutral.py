#!/venv/bin/python
"""False-alarm regression: run every quick check against behaviour-preserving
refactorings (/verif/neutral/<id>/patch.diff). Each patch is applied to a
scratch copy of /repo's package; any exit status other than 0 (VIOLATION or
ANALYSIS-ERROR) of any property is a false alarm of the checker.

usage: run_neutral.py [--import SRC_DIR PROP TAG] [id ...]
  --import: confirm (compiles + 1223-test baseline green in a scratch
            worktree) and copy SRC_DIR/<k>/patch.diff to
            /verif/neutral/<PROP>-<TAG><k>/
"""
import json
import os
import shutil
import subprocess
import sys
import tempfile

VERIF = os.path.dirname(os.path.dirname(os.path.abspath(__file__)))
NEUTRAL = os.path.join(VERIF, 'neutral')
PY = '/venv/bin/python'
ALL = ['C%02d' % i for i in range(1, 21)]


def sh(cmd, **kw):
    return subprocess.run(cmd, stdout=subprocess.PIPE,
                          stderr=subprocess.STDOUT, text=True, **kw)


def do_import(src, prop, tag):
    for k in sorted(os.listdir(src)):
        patch = os.path.join(src, k, 'patch.diff')
        if not os.path.isfile(patch):
            continue
        sid = '{}-{}{}'.format(prop, tag, k)
        dst = os.path.join(NEUTRAL, sid)
        if os.path.exists(os.path.join(dst, 'meta.json')):
            continue
        wt = tempfile.mkdtemp(prefix='bfg_neutralwt_')
        os.rmdir(wt)
        sh(['git', '-C', '/repo', 'worktree', 'add', '--detach', wt, 'HEAD'])
        try:
            r = sh(['git', '-C', wt, 'apply', patch])
            if r.returncode:
                print(sid, 'REJECT: does not apply', r.stdout[-200:])
                continue
            r = sh([PY, '-m', 'compileall', '-q',
                    os.path.join(wt, 'bfg9000')])
            if r.returncode:
                print(sid, 'REJECT: does not compile')
                continue
            b = sh([PY, '/tmp/seedkit/check_baseline.py', wt])
            if b.returncode:
                print(sid, 'REJECT: baseline not green',
                      b.stdout.strip().splitlines()[-3:])
                continue
        finally:
            sh(['git', '-C', '/repo', 'worktree', 'remove', '--force', wt])
            shutil.rmtree(wt, ignore_errors=True)
        os.makedirs(dst, exist_ok=True)
        shutil.copy(patch, os.path.join(dst, 'patch.diff'))
        rd = os.path.join(src, k, 'README.md')
        if os.path.exists(rd):
            shutil.copy(rd, os.path.join(dst, 'README.md'))
        json.dump({'id': sid, 'property': prop, 'kind': 'neutral refactoring',
                   'origin': 'independent sub-agent (property text + scratch '
                             'worktree only)',
                   'confirmed': {'baseline_with_patch':
                                 b.stdout.strip().splitlines()[-1]}},
                  open(os.path.join(dst, 'meta.json'), 'w'), indent=1)
        print('IMPORTED', sid)


def main():
    args = sys.argv[1:]
    if args and args[0] == '--import':
        do_import(args[1], args[2], args[3])
        return 0
    ids = args or sorted(d for d in os.listdir(NEUTRAL) if os.path.isfile(
        os.path.join(NEUTRAL, d, 'patch.diff')))
    alarms = 0
    for sid in ids:
        d = os.path.join(NEUTRAL, sid)
        root = tempfile.mkdtemp(prefix='bfg_neutral_')
        shutil.copytree('/repo/bfg9000', os.path.join(root, 'bfg9000'),
                        ignore=shutil.ignore_patterns('__pycache__'))
        r = sh(['git', 'apply', '--unsafe-paths', '--directory=' + root,
                os.path.join(d, 'patch.diff')], cwd=root)
        if r.returncode:
            r = sh(['patch', '-p1', '-s', '-i',
                    os.path.join(d, 'patch.diff')], cwd=root)
        if r.returncode:
            print(sid, 'patch does not apply (stale)')
            shutil.rmtree(root, ignore_errors=True)
            continue
        bad = []
        for p in ALL:
            c = sh([PY, '-m', 'sa.run', '--property', p, '--tier', 'quick',
                    '--repo', root], cwd=VERIF)
            if c.returncode != 0:
                lines = [l.strip() for l in c.stdout.splitlines()
                         if 'violated:' in l or 'ANALYSIS-ERROR' in l]
                bad.append((p, c.returncode, lines[:3]))
        shutil.rmtree(root, ignore_errors=True)
        if bad:
            alarms += 1
            print('{:22s} FALSE ALARM'.format(sid))
            for p, rc, lines in bad:
                for l in lines:
                    print('     {} rc={}: {}'.format(p, rc, l[:220]))
        else:
            print('{:22s} silent'.format(sid))
    print('\n{} neutral refactorings, {} raise a false alarm'.format(
        len(ids), alarms))
    return 1 if alarms else 0


if __name__ == '__main__':
    sys.exit(main())
