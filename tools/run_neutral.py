#!/venv/bin/python
"""False-alarm regression: run every quick check against behaviour-preserving
refactorings (/verif/neutral/<id>/patch.diff). Each patch is applied to a
scratch copy of /repo's package; any exit status other than 0 (VIOLATION or
ANALYSIS-ERROR) of any property is a false alarm of the checker.

usage: run_neutral.py [--import SRC_DIR PROP TAG] [id ...]
  --import: confirm (compiles + 1223-test baseline green in a scratch
            worktree) and copy SRC_DIR/<k>/patch.diff to
            /verif/neutral/<PROP>-<TAG><k>/
"""
import json
import os
import shutil
import subprocess
import sys
import tempfile

VERIF = os.path.dirname(os.path.dirname(os.path.abspath(__file__)))
NEUTRAL = os.path.join(VERIF, 'neutral')
PY = '/venv/bin/python'
ALL = ['C%02d' % i for i in range(1, 21)]


def sh(cmd, **kw):
    return subprocess.run(cmd, stdout=subprocess.PIPE,
                          stderr=subprocess.STDOUT, text=True, **kw)


def do_import(src, prop, tag):
    for k in sorted(os.listdir(src)):
        patch = os.path.join(src, k, 'patch.diff')
        if not os.path.isfile(patch):
            continue
        sid = '{}-{}{}'.format(prop, tag, k)
        dst = os.path.join(NEUTRAL, sid)
        if os.path.exists(os.path.join(dst, 'meta.json')):
            continue
        wt = tempfile.mkdtemp(prefix='bfg_neutralwt_')
        os.rmdir(wt)
        sh(['git', '-C', '/repo', 'worktree', 'add', '--detach', wt, 'HEAD'])
        try:
            r = sh(['git', '-C', wt, 'apply', patch])
            if r.returncode:
                print(sid, 'REJECT: does not apply', r.stdout[-200:])
                continue
            r = sh([PY, '-m', 'compileall', '-q',
                    os.path.join(wt, 'bfg9000')])
            if r.returncode:
                print(sid, 'REJECT: does not compile')
                continue
            b = sh([PY, os.path.join(VERIF, 'tools', 'baseline_check.py'), wt])
            if b.returncode:
                print(sid, 'REJECT: baseline not green',
                      b.stdout.strip().splitlines()[-3:])
                continue
        finally:
            sh(['git', '-C', '/repo', 'worktree', 'remove', '--force', wt])
            shutil.rmtree(wt, ignore_errors=True)
        os.makedirs(dst, exist_ok=True)
        shutil.copy(patch, os.path.join(dst, 'patch.diff'))
        rd = os.path.join(src, k, 'README.md')
        if os.path.exists(rd):
            shutil.copy(rd, os.path.join(dst, 'README.md'))
        json.dump({'id': sid, 'property': prop, 'kind': 'neutral refactoring',
                   'origin': 'independent sub-agent (property text + scratch '
                             'worktree only)',
                   'confirmed': {'baseline_with_patch':
                                 b.stdout.strip().splitlines()[-1]}},
                  open(os.path.join(dst, 'meta.json'), 'w'), indent=1)
        print('IMPORTED', sid)


def main():
    args = sys.argv[1:]
    if args and args[0] == '--import':
        do_import(args[1], args[2], args[3])
        return 0
    props = ALL
    for a in list(args):
        if a.startswith('--props='):
            props = a.split('=', 1)[1].split(',')
            args.remove(a)
    ids = args or sorted(d for d in os.listdir(NEUTRAL) if os.path.isfile(
        os.path.join(NEUTRAL, d, 'patch.diff')))
    from multiprocessing import Pool
    with Pool(12) as pool:
        results = pool.map(_one, [(sid, props) for sid in ids])
    alarms = 0
    for sid, bad in results:
        if bad is None:
            print(sid, 'patch does not apply (stale)')
        elif bad:
            alarms += 1
            print('{:22s} FALSE ALARM'.format(sid))
            for p, rc, lines in bad:
                for l in lines:
                    print('     {} rc={}: {}'.format(p, rc, l[:220]))
        else:
            print('{:22s} silent'.format(sid))
    print('\n{} neutral refactorings, {} raise a false alarm ({})'.format(
        len(ids), alarms, ','.join(props) if props is not ALL else 'all '
        'properties'))
    return 1 if alarms else 0


def _one(arg):
    sid, props = arg
    d = os.path.join(NEUTRAL, sid)
    root = tempfile.mkdtemp(prefix='bfg_neutral_')
    try:
        shutil.copytree('/repo/bfg9000', os.path.join(root, 'bfg9000'),
                        ignore=shutil.ignore_patterns('__pycache__'))
        r = sh(['git', 'apply', '--unsafe-paths', '--directory=' + root,
                os.path.join(d, 'patch.diff')], cwd=root)
        if r.returncode:
            r = sh(['patch', '-p1', '-s', '-i',
                    os.path.join(d, 'patch.diff')], cwd=root)
        if r.returncode:
            return sid, None
        bad = []
        c = sh([PY, '-m', 'sa.multi', root, ','.join(props)], cwd=VERIF,
               env=dict(os.environ, VERIF_NO_EVIDENCE='1'))
        cur = None
        for l in c.stdout.splitlines():
            if l.startswith('## '):
                p, rc = l[3:].split(' rc=')
                cur = None
                if rc != '0':
                    cur = (p, int(rc), [])
                    bad.append(cur)
            elif cur is not None and len(cur[2]) < 4:
                cur[2].append(l.strip())
        if c.returncode != 0:
            bad.append(('multi', c.returncode, c.stdout.splitlines()[-3:]))
        return sid, bad
    finally:
        shutil.rmtree(root, ignore_errors=True)


if __name__ == '__main__':
    sys.exit(main())
