#!/bin/sh
# usage: tools/gate.sh C06[,C07...]  -- clean-tree check first; corpora only if it is clean
props=$1
for p in $(echo $props | tr ',' ' '); do
  out=$(VERIF_NO_EVIDENCE=1 timeout 300 /venv/bin/python -m sa.run --property $p --tier quick 2>&1); rc=$?
  echo "$out" | grep -v "^KNOWN" | cut -c1-330
  if [ $rc -ne 0 ]; then echo "CLEAN TREE NOT GREEN for $p (rc=$rc)"; exit 1; fi
done
/venv/bin/python tools/run_neutral.py --props=$props 2>&1 | grep -v silent | cut -c1-400 | head -30
/venv/bin/python tools/run_seeded.py --props=$props 2>&1 | grep -v "^     " | grep -v DETECTED | tail -12
for p in $(echo $props | tr ',' ' '); do /venv/bin/python -m sa.selftest $p 2>&1 | tail -6; done
