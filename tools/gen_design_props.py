#!/venv/bin/python
"""Regenerate the **D** blocks of DESIGN.md section 4 from the rule
descriptions and instance counts the checks register on /repo (the N and
known-findings paragraphs are kept as written).

usage: tools/gen_design_props.py   (rewrites /verif/DESIGN.md in place)
"""
import importlib
import os
import re
import sys

VERIF = os.path.dirname(os.path.dirname(os.path.abspath(__file__)))
sys.path.insert(0, VERIF)
os.environ['VERIF_NO_EVIDENCE'] = '1'

from sa.index import Repo            # noqa
from sa.report import Ctx            # noqa


def block(prop, repo):
    ctx = Ctx(prop, 'quick', repo, 0)
    importlib.import_module('sa.props.' + prop.lower()).check(ctx)
    counts = {}
    order = []
    for o in ctx.obligations:
        if o.rule not in counts:
            order.append(o.rule)
        counts[o.rule] = counts.get(o.rule, 0) + 1
    lines = ['**D** (decided; {} rule instances on the current tree):'.format(
        len(ctx.obligations)), '']
    for r in order:
        lines.append('* `{}` ({}) — {}'.format(
            r, counts[r], ' '.join(ctx.rules.get(r, '').split())))
    return '\n'.join(lines)


def main():
    p = os.path.join(VERIF, 'DESIGN.md')
    s = open(p).read()
    repo = Repo('/repo')
    for i in range(1, 21):
        prop = 'C%02d' % i
        m = re.search(r'(### %s — [^\n]*\n\n)(\*\*D\*\* \(decided;.*?)(\n\n\*\*N\*\*)'
                      % prop, s, re.S)
        if not m:
            print('section not found for', prop)
            continue
        s = s[:m.start(2)] + block(prop, repo) + s[m.end(2):]
    open(p, 'w').write(s)
    print('DESIGN.md section 4 regenerated')


if __name__ == '__main__':
    main()
