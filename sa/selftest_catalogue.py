"""Catalogue of checker self-test variants.

kind 'mutant': one rule instance broken; every property in `props` must report
it (a violation whose rule or key contains `expect`).
kind 'twin':   behaviour-preserving edit; every property in `props` must stay
silent (no violation, no ANALYSIS-ERROR).
Edits are exact text replacements in one file of a scratch copy.
"""

MK = 'bfg9000/backends/make/syntax.py'
NJ = 'bfg9000/backends/ninja/syntax.py'
PC = 'bfg9000/shell/syntax.py'
POSIX = 'bfg9000/shell/posix.py'

CATALOGUE = []


def mutant(id, props, file, old, new, expect=None, **kw):
    CATALOGUE.append(dict(id=id, props=props, kind='mutant', file=file,
                          old=old, new=new, expect=expect, **kw))


def twin(id, props, file, old, new, **kw):
    CATALOGUE.append(dict(id=id, props=props, kind='twin', file=file,
                          old=old, new=new, **kw))


# ---------------------------------------------------------------- escaping
mutant('mk-no-dollar', ['C01', 'C04'], MK,
       "result = string.replace('$', '$$')", "result = string", 'ESC-MAKE')
mutant('mk-target-no-percent', ['C04'], MK,
       r"__escape_chars = r'?*\[\]\s#%' + __extra_escapes",
       r"__escape_chars = r'?*\[\]\s#' + __extra_escapes", 'ESC-MAKE')
mutant('mk-dep-no-pipe', ['C04'], MK,
       "__dep_ex = re.compile(r'(\\\\*)(^~|[|' + __escape_chars + '])')",
       "__dep_ex = re.compile(r'(\\\\*)(^~|[' + __escape_chars + '])')",
       'ESC-MAKE')
mutant('mk-no-tilde', ['C04'], MK,
       "__target_ex = re.compile(r'(\\\\*)(^~|[' + __escape_chars + '])')",
       "__target_ex = re.compile(r'(\\\\*)([' + __escape_chars + '])')",
       'ESC-MAKE')
mutant('mk-func-no-comma', ['C01'], MK,
       "return result.replace(',', '$,')", "return result", 'ESC-MAKE')
mutant('mk-deps-as-target', ['C04'], MK,
       "out.write_each(rule.deps, Syntax.dependency, prefix=lit(' '))",
       "out.write_each(rule.deps, Syntax.target, prefix=lit(' '))",
       'MK_PREREQ')
mutant('mk-shelly-drops-function', ['C01'], MK,
       "shelly = syntax in [Syntax.function, Syntax.shell]",
       "shelly = syntax in [Syntax.shell]", 'shelly-set')
mutant('mk-str-not-quoted', ['C01'], MK,
       "            if shelly and shell_quote:\n"
       "                thing, escaped = shell_quote(thing)\n"
       "            self.write_literal(self.escape_str(thing, syntax))\n"
       "        elif isinstance(thing, syntax_string):",
       "            self.write_literal(self.escape_str(thing, syntax))\n"
       "        elif isinstance(thing, syntax_string):",
       'str-quoted-when-shelly')
mutant('mk-shell-literal-raw', ['C01'], MK,
       "self.write_literal(self.escape_str(thing.string, syntax))",
       "self.write_literal(thing.string)", 'WRITE-FLOW')
mutant('mk-path-not-wrapped', ['C01', 'C04'], MK,
       "            if shelly and escaped:\n"
       "                thing = pshell.wrap_quotes(thing)\n"
       "            self.write_literal(thing)\n"
       "        else:",
       "            self.write_literal(thing)\n"
       "        else:", 'path-wrapped-as-unit')
mutant('mk-path-full-quote', ['C04'], MK,
       "escaped = out.write(thing, syntax, pshell.inner_quote_info)",
       "escaped = out.write(thing, syntax, pshell.quote_info)",
       'path-inner-quote')
mutant('mk-jbos-escaped-lost', ['C01'], MK,
       "escaped |= self.write(i, syntax, shell_quote)",
       "escaped = self.write(i, syntax, shell_quote)", 'jbos-recursion')
mutant('mk-literal-from-name', ['C01'], MK,
       "out.write_literal(name.name + ' := ')",
       "out.write_literal(str(value) + ' := ')", 'LIT-SITES')
mutant('mk-variable-unsanitised', ['C01'], MK,
       "super().__init__(re.sub(r'[\\s:#=]', '_', name))",
       "super().__init__(re.sub(r'[\\s:=]', '_', name))", 'sanitiser')
mutant('mk-comma-var-missing', ['C01'], MK,
       "        self._write_variable(out, Variable(','), ',')\n", "",
       'comma-variable-defined')
mutant('mk-path-section-shell', ['C01'], MK,
       "syntax = Syntax.clean if section == Section.path else Syntax.shell",
       "syntax = Syntax.target if section == Section.path else Syntax.shell",
       'SYNTAX-POSITION')
twin('mk-twin-reorder-branches', ['C01', 'C04'], MK,
     "        if syntax == Syntax.target:\n"
     "            return cls.__target_ex.sub(repl, result)\n"
     "        elif syntax == Syntax.dependency:\n"
     "            return cls.__dep_ex.sub(repl, result)\n",
     "        if syntax == Syntax.dependency:\n"
     "            return cls.__dep_ex.sub(repl, result)\n"
     "        elif syntax == Syntax.target:\n"
     "            return cls.__target_ex.sub(repl, result)\n")
twin('mk-twin-rename-local', ['C01', 'C04'], MK,
     "        result = string.replace('$', '$$')\n",
     "        res0 = string.replace('$', '$$')\n        result = res0\n")
twin('mk-twin-class-spelled-out', ['C04'], MK,
     r"__escape_chars = r'?*\[\]\s#%' + __extra_escapes",
     r"__escape_chars = r'%#?*\[\]\s' + __extra_escapes")

mutant('nj-no-colon', ['C04'], NJ,
       "return re.sub(r'([:$ ])', r'$\\1', string)",
       "return re.sub(r'([$ ])', r'$\\1', string)", 'ESC-NINJA')
mutant('nj-no-dollar-shell', ['C02'], NJ,
       "return string.replace('$', '$$')", "return string", 'ESC-NINJA')
mutant('nj-identity-repl', ['C04'], NJ,
       "return re.sub(r'([:$ ])', r'$\\1', string)",
       "return re.sub(r'([:$ ])', r'\\1', string)", 'ESC-NINJA')
mutant('nj-inputs-as-shell', ['C04'], NJ,
       "out.write_each(build.inputs, Syntax.input, prefix=lit(' '))",
       "out.write_each(build.inputs, Syntax.shell, prefix=lit(' '))",
       'NJ_PATH')
mutant('nj-rule-name-unchecked', ['C02'], NJ,
       "        if re.search(r'\\W', name):\n"
       "            raise ValueError('rule name contains invalid characters')\n",
       "", 'LIT-SITES')
mutant('nj-cmd-direct', ['C02'], 'bfg9000/backends/ninja/writer.py',
       "buildfile.rule(name=rule_name, command=shell.shell_list([var('cmd')]),",
       "buildfile.rule(name=rule_name, command=command,", 'CMD-INDIRECTION')
twin('nj-twin-class-order', ['C02', 'C04'], NJ,
     "return re.sub(r'([:$ ])', r'$\\1', string)",
     "return re.sub(r'([ $:])', r'$\\1', string)")

mutant('sh-tilde-safe', ['C01', 'C02'], POSIX,
       "_bad_chars = re.compile(r'[^\\w@%+=:,./-]')",
       "_bad_chars = re.compile(r'[^\\w@%+=:,./~-]')", 'SH-SAFE')
mutant('sh-star-safe', ['C01', 'C02'], POSIX,
       "_bad_chars = re.compile(r'[^\\w@%+=:,./-]')",
       "_bad_chars = re.compile(r'[^\\w@%+=:,./*-]')", 'SH-SAFE')
mutant('sh-bad-quote-repl', ['C01', 'C02'], POSIX,
       "return s.replace(\"'\", r\"'\\''\"), True",
       "return s.replace(\"'\", r\"\\'\"), True", 'quote-replacement')
mutant('sh-empty-unquoted', ['C01', 'C02'], POSIX,
       "            return '', True\n", "            return '', False\n",
       'empty-string-quoted')
mutant('sh-eq-as-str-literal', ['C01', 'C02'], POSIX,
       "def local_env(env, line):\n    if env:\n        eq = shell_literal('=')",
       "def local_env(env, line):\n    if env:\n        eq = shell_literal(';')",
       'raw-token')
mutant('tests-collapse-unquoted', ['C01', 'C02'], 'bfg9000/builtins/tests.py',
       "            if len(subcmd) > 1:\n                s = out.quote(s)\n",
       "", 'LITERAL-ORIGIN')
mutant('literal-from-user', ['C01', 'C02', 'C17'],
       'bfg9000/builtins/command.py',
       "        self.env = environment or {}\n",
       "        self.env = environment or {}\n"
       "        self.tag = shell.posix.shell_literal(name)\n"
       if False else
       "        self.env = environment or {}\n"
       "        from ..safe_str import shell_literal as _sl\n"
       "        self.tag = _sl(name)\n", 'LITERAL-ORIGIN',
       analysis_error_ok=False)
twin('sh-twin-class-order', ['C01', 'C02'], POSIX,
     "_bad_chars = re.compile(r'[^\\w@%+=:,./-]')",
     "_bad_chars = re.compile(r'[^\\w./,:=+%@-]')")

# --------------------------------------------------------------------- pc
mutant('pc-cflags-variable-syntax', ['C17'], 'bfg9000/builtins/pkg_config.py',
       "self._write_field(out, 'Cflags', cflags, Syntax.shell)",
       "self._write_field(out, 'Cflags', cflags)", 'PC-FIELD-SYNTAX')
mutant('pc-desc-shell-syntax', ['C17'], 'bfg9000/builtins/pkg_config.py',
       "self._write_field(out, 'Description', data['desc'])",
       "self._write_field(out, 'Description', data['desc'], Syntax.shell)",
       'PC-FIELD-SYNTAX')
mutant('pc-op-eq-unmapped', ['C17'], 'bfg9000/builtins/pkg_config.py',
       "        if op == '==':\n            op = '='\n", "", 'PC-OPS')
mutant('pc-requires-multi', ['C17'], 'bfg9000/builtins/pkg_config.py',
       "'requires': requires.split(single=True),",
       "'requires': requires.split(),", 'PC-REQ-SINGLE')
mutant('pc-unsorted-specs', ['C17', 'C13'], 'bfg9000/builtins/pkg_config.py',
       "                for i in sorted(specs, key=str)]",
       "                for i in specs]", 'UNORDERED-ITER')
mutant('pc-sorted-by-operator-only', ['C17', 'C13'],
       'bfg9000/builtins/pkg_config.py',
       "                for i in sorted(specs, key=str)]",
       "                for i in sorted(specs, key=lambda s: s.operator)]"
       if False else
       "                for i in list(specs)]", 'UNORDERED-ITER')
mutant('pc-no-srcdir-var', ['C17'], 'bfg9000/builtins/pkg_config.py',
       "            self._write_variable(out, 'srcdir', env.srcdir)\n", "",
       'PC-VARS')
mutant('pc-str-unquoted', ['C17'], PC,
       "            if shelly and shell_quote:\n"
       "                thing, escaped = shell_quote(thing)\n"
       "            self.write_literal(thing)\n",
       "            self.write_literal(thing)\n", 'str-quoted-when-shelly')
twin('pc-twin-field-order', ['C17'], 'bfg9000/builtins/pkg_config.py',
     "        self._write_field(out, 'Cflags', cflags, Syntax.shell)\n"
     "        self._write_field(out, 'Libs', ldflags, Syntax.shell)\n",
     "        self._write_field(out, 'Libs', ldflags, Syntax.shell)\n"
     "        self._write_field(out, 'Cflags', cflags, Syntax.shell)\n")

# -------------------------------------------------------------------- C05
mutant('c05-unescaped-dots', ['C05'], 'bfg9000/builtins/path.py',
       r"re.sub(r'(^|/)\.\.(?=/|$)', r'\1PAR', suffix)",
       r"re.sub(r'(^|/)..(?=/|$)', r'\1PAR', suffix)", 'PARREF-REGEX')
mutant('c05-one-dot', ['C05'], 'bfg9000/builtins/path.py',
       r"re.sub(r'(^|/)\.\.(?=/|$)', r'\1PAR', suffix)",
       r"re.sub(r'(^|/)\.\.?(?=/|$)', r'\1PAR', suffix)", 'PARREF-REGEX')
mutant('c05-copy-no-reroot', ['C05'], 'bfg9000/builtins/copy_file.py',
       "                path = file.path.reroot()\n"
       "                if directory:",
       "                path = file.path\n"
       "                if directory:", 'OUTPUT-ROOT')
mutant('c05-object-in-srcdir', ['C05'], 'bfg9000/tools/cc/compiler.py',
       "return ObjectFile(Path(name + '.o'), self.builder.object_format,",
       "return ObjectFile(Path(name + '.o', Root.srcdir), "
       "self.builder.object_format,", 'OUTPUT-ROOT')
mutant('c05-dup-guard-after-add', ['C05', 'C03'], MK,
       "            if self.has_rule(target):\n"
       "                raise ValueError('rule for {!r} already exists'.format(target))\n"
       "            self._targets.add(target)\n",
       "            self._targets.add(target)\n", 'RULE-OWNER')
mutant('c05-dup-first-target-only', ['C05', 'C03'], NJ,
       "        for i in outputs:\n            out = self._output_str(i)",
       "        for i in outputs[:1]:\n            out = self._output_str(i)",
       'RULE-OWNER')
mutant('c05-envfile-in-srcdir', ['C05'], 'bfg9000/driver.py',
       "        env.save(args.builddir.string())\n\n"
       "        build_inputs = build.configure_build(env)",
       "        env.save(args.srcdir.string())\n\n"
       "        build_inputs = build.configure_build(env)", 'WRITE-ROOT')
mutant('c05-directory-nonstrict', ['C05'], 'bfg9000/builtins/compile.py',
       "convert_one(kwargs, 'directory', lambda x: buildpath(context, x, True))",
       "convert_one(kwargs, 'directory', lambda x: buildpath(context, x))",
       'OUTPUT-ROOT')
twin('c05-twin-regex-class-dots', ['C05'], 'bfg9000/builtins/path.py',
     r"re.sub(r'(^|/)\.\.(?=/|$)', r'\1PAR', suffix)",
     r"re.sub(r'(^|/)[.][.](?=/|$)', r'\1PAR', suffix)")
twin('c05-twin-has-rule-inline', ['C05', 'C03'], MK,
     "            if self.has_rule(target):\n",
     "            if target in self._targets:\n")

# -------------------------------------------------------------------- C13
mutant('c13-uniques-via-set', ['C13'], 'bfg9000/builtins/link.py',
       "        formats = uniques(i.format for i in chain(self.files, self.libs,\n"
       "                                                  self.packages))",
       "        formats = list(set(i.format for i in chain(self.files, self.libs,\n"
       "                                                   self.packages)))",
       'UNORDERED-ITER')
mutant('c13-edges-set', ['C13'], 'bfg9000/build_inputs.py',
       "        self._extra_targets = []\n",
       "        self._extra_targets = set()\n", 'UNORDERED-ITER',
       )
mutant('c13-time-in-header', ['C13'], MK,
       "        out.write_literal(_comment_tmpl.format(self._bfgfile) + '\\n\\n')\n",
       "        import time\n"
       "        out.write_literal(_comment_tmpl.format(self._bfgfile) + '\\n\\n')\n"
       "        out.write_literal('# generated at %d\\n' % time.time())\n",
       'NONDET-API')
mutant('c13-raw-path-arg', ['C13'], 'bfg9000/driver.py',
       "    confinto_p.add_argument('builddir', type=argparse.Directory(),\n",
       "    confinto_p.add_argument('builddir', type=str,\n", 'CLI-ABSPATH')
twin('c13-twin-sorted-set', ['C13'], 'bfg9000/builtins/link.py',
     "        formats = uniques(i.format for i in chain(self.files, self.libs,\n"
     "                                                  self.packages))",
     "        formats = sorted(set(i.format for i in chain(self.files, self.libs,\n"
     "                                                     self.packages)))")

# -------------------------------------------------------------------- C16
mutant('c16-osize', ['C16'], 'bfg9000/tools/cc/flags.py',
       "'-Os'", "'-Osize'", 'FLAG-GRAMMAR')
mutant('c16-missing-enum-entry', ['C16'], 'bfg9000/tools/cc/flags.py',
       "    opts.OptimizeValue.linktime: '-flto',\n", "", 'OPTION-EXHAUSTIVE')
mutant('c16-sanitize-unhandled', ['C16'], 'bfg9000/tools/cc/compiler.py',
       "            elif isinstance(i, opts.sanitize):\n"
       "                flags.append('-fsanitize=address')\n", "",
       'OPTION-EXHAUSTIVE')
mutant('c16-linker-debug-dropped', ['C16'], 'bfg9000/tools/cc/linker.py',
       "            elif isinstance(i, opts.debug):\n"
       "                flags.append('-g')\n", "", 'OPTION-EXHAUSTIVE')
mutant('c16-pic-typo', ['C16'], 'bfg9000/tools/cc/compiler.py',
       "flags.append('-fPIC')", "flags.append('-fpic-code')", 'FLAG-GRAMMAR')
mutant('c16-target-flags-replace-global', ['C16'],
       'bfg9000/builtins/compile.py',
       "variables[cflags] = [global_cflags] + flags",
       "variables[cflags] = flags", 'FLAG-MERGE')
mutant('c16-new-option-unhandled', ['C16'], 'bfg9000/options.py',
       "pthread = option('pthread')\n",
       "pthread = option('pthread')\nfast_math = option('fast_math')\n",
       'OPTION-EXHAUSTIVE')
twin('c16-twin-branch-order', ['C16'], 'bfg9000/tools/cc/compiler.py',
     "            elif isinstance(i, opts.pthread):\n"
     "                flags.append('-pthread')\n"
     "            elif isinstance(i, opts.pic):\n"
     "                flags.append('-fPIC')\n",
     "            elif isinstance(i, opts.pic):\n"
     "                flags.append('-fPIC')\n"
     "            elif isinstance(i, opts.pthread):\n"
     "                flags.append('-pthread')\n")

# ---------------------------------------------------------------- C03 / C06
CP = 'bfg9000/builtins/compile.py'
LK = 'bfg9000/builtins/link.py'
CMD = 'bfg9000/builtins/command.py'
CPF = 'bfg9000/builtins/copy_file.py'

mutant('c03-make-compile-no-pch', ['C03', 'C06'], CP,
       "    if getattr(rule, 'pch', None):\n        deps.append(rule.pch)\n",
       "", {'C03': 'rule.pch', 'C06': 'dep-roots'})
mutant('c03-ninja-compile-no-include-deps', ['C03', 'C06'], CP,
       "    implicit_deps.extend(getattr(rule, 'include_deps', []))\n", "",
       {'C03': 'include_deps', 'C06': 'dep-roots'})
mutant('c03-make-link-no-libs', ['C03', 'C06'], LK,
       "        deps=(rule.files + rule.libs + package_build_deps + module_defs +\n"
       "              manifest + rule.extra_deps),",
       "        deps=(rule.files + package_build_deps + module_defs +\n"
       "              manifest + rule.extra_deps),", {'C03': 'rule.libs', 'C06': 'dep-roots'})
mutant('c03-ninja-link-no-extra-deps', ['C03', 'C06'], LK,
       "        implicit=(rule.libs + package_build_deps + module_defs + manifest +\n"
       "                  rule.extra_deps),",
       "        implicit=(rule.libs + package_build_deps + module_defs + manifest),",
       {'C03': 'extra_deps', 'C06': 'dep-roots'})
mutant('c03-ninja-command-no-files', ['C03', 'C06'], CMD,
       "        inputs=rule.files,\n        implicit=rule.extra_deps,\n"
       "        command=shell.global_env(rule.env, rule.cmds),",
       "        implicit=rule.extra_deps,\n"
       "        command=shell.global_env(rule.env, rule.cmds),", {'C03': 'rule.files', 'C06': 'dep-roots'})
mutant('c03-copy-no-dir-dep', ['C03'], CPF,
       "        order_only=make.directory_deps(rule.output),\n"
       "        recipe=make.Call(recipename, *args)",
       "        recipe=make.Call(recipename, *args)", 'order-only')
mutant('c03-compressfile-unhandled', ['C03', 'C06'], CPF,
       "@ninja.rule_handler(CopyFile, CompressFile)",
       "@ninja.rule_handler(CopyFile)", 'CompressFile')
mutant('c03-link-deps-order-only', ['C03'], LK,
       "        order_only=make.directory_deps(rule.output),\n"
       "        recipe=make.Call(recipename, files, *output_params),",
       "        order_only=make.directory_deps(rule.output) + rule.libs,\n"
       "        recipe=make.Call(recipename, files, *output_params),",
       None, )
mutant('c03-multitarget-drops-deps', ['C03'],
       'bfg9000/backends/make/writer.py',
       "    buildfile.rule(primary, deps, order_only, recipe, variables, phony)",
       "    buildfile.rule(primary, None, order_only, recipe, variables, phony)",
       'PASS-THROUGH')
mutant('c03-edge-init-skipped', ['C03'], CPF,
       "        self.file = file\n"
       "        super().__init__(context.build, output, None, extra_deps, description)\n\n"
       "    @staticmethod\n    def convert_args(context, file, kwargs):",
       "        self.file = file\n"
       "        if extra_deps is None:\n            return\n"
       "        super().__init__(context.build, output, None, extra_deps, description)\n\n"
       "    @staticmethod\n    def convert_args(context, file, kwargs):",
       'EDGE-INIT')
mutant('c03-all-from-fallback', ['C03'], 'bfg9000/builtins/default.py',
       "        deps=build_inputs['defaults'].outputs,",
       "        deps=build_inputs['defaults'].fallback_defaults,", 'DEFAULTS')
mutant('c03-test-keeps-default', ['C03'], 'bfg9000/builtins/tests.py',
       "            context.build['defaults'].remove(primary)\n",
       "            pass\n", 'DEFAULTS')
mutant('c03-command-nodes-not-deps', ['C03'], CMD,
       "        super().__init__(context.build, outputs, extra_deps=implicit,",
       "        super().__init__(context.build, outputs, extra_deps=extra_deps,",
       'PASS-THROUGH')
mutant('c03-new-edge-class', ['C03'], 'bfg9000/builtins/alias.py',
       "@builtin.function()\ndef alias(context, *args, **kwargs):",
       "class Group(Edge):\n    def __init__(self, context, name, deps=None):\n"
       "        super().__init__(context.build, Phony(name), extra_deps=deps)\n\n\n"
       "@builtin.function()\ndef group(context, *args, **kwargs):\n"
       "    return Group(context, *args, **kwargs).public_output\n\n\n"
       "@builtin.function()\ndef alias(context, *args, **kwargs):",
       'HANDLERS')
twin('c03-twin-deps-via-chain', ['C03', 'C06'], LK,
     "        deps=(rule.files + rule.libs + package_build_deps + module_defs +\n"
     "              manifest + rule.extra_deps),",
     "        deps=list(chain(rule.files, rule.libs, package_build_deps,\n"
     "                        module_defs, manifest, rule.extra_deps)),")
twin('c03-twin-local-rename', ['C03', 'C06'], CP,
     "    deps = []\n    if getattr(rule, 'pch_source', None):\n"
     "        deps.append(rule.pch_source)\n    deps.append(rule.file)\n"
     "    if getattr(rule, 'pch', None):\n        deps.append(rule.pch)\n"
     "    deps.extend(getattr(rule, 'include_deps', []))\n"
     "    if getattr(rule, 'libs', None):\n        deps.extend(rule.libs)\n"
     "    deps.extend(flatten(i.deps for i in getattr(rule, 'packages', [])))\n",
     "    prereqs = []\n    if getattr(rule, 'pch_source', None):\n"
     "        prereqs.append(rule.pch_source)\n    prereqs.append(rule.file)\n"
     "    if getattr(rule, 'pch', None):\n        prereqs.append(rule.pch)\n"
     "    prereqs.extend(getattr(rule, 'include_deps', []))\n"
     "    if getattr(rule, 'libs', None):\n        prereqs.extend(rule.libs)\n"
     "    prereqs.extend(flatten(i.deps for i in getattr(rule, 'packages', [])))\n"
     "    deps = prereqs\n")

mutant('c06-compdb-no-global-flags', ['C06'], CP,
       "        cmd_kwargs['flags'] = (compiler.global_flags +\n"
       "                               compiler.flags(gopts, mode='global') +\n"
       "                               rule.flags(gopts))",
       "        cmd_kwargs['flags'] = (compiler.flags(gopts, mode='global') +\n"
       "                               rule.flags(gopts))", 'flag-component')
mutant('c06-compdb-link-no-libs', ['C06'], LK,
       "    if hasattr(linker, 'libs_var'):\n"
       "        cmd_kwargs['libs'] = (linker.global_libs +\n"
       "                              linker.lib_flags(gopts, mode='global') +\n"
       "                              rule.lib_flags(gopts))\n"
       "    if hasattr(rule, 'manifest'):\n"
       "        cmd_kwargs['manifest'] = rule.manifest\n\n"
       "    file = rule.files[0]",
       "    if hasattr(rule, 'manifest'):\n"
       "        cmd_kwargs['manifest'] = rule.manifest\n\n"
       "    file = rule.files[0]", 'SIBLING')
mutant('c06-ninja-own-flags', ['C06'], LK,
       "    variables, cmd_kwargs = _get_flags(ninja, rule, build_inputs, buildfile)\n"
       "    if rule.description:",
       "    variables, cmd_kwargs = _get_flags(make, rule, build_inputs, buildfile)\n"
       "    if rule.description:", 'shared-_get_flags')
mutant('c06-compdb-no-transform', ['C06'], LK,
       "    in_files = rule.files\n"
       "    if hasattr(linker, 'transform_input'):\n"
       "        in_files = linker.transform_input(in_files)\n",
       "    in_files = rule.files\n", 'transform_input')
mutant('c06-ninja-command-env-dropped', ['C06'], CMD,
       "        command=shell.global_env(rule.env, rule.cmds),\n"
       "        console=rule.console,",
       "        command=shell.global_env({}, rule.cmds),\n"
       "        console=rule.console,", 'command-env')
mutant('c06-compdb-flag-order', ['C06'], CP,
       "        cmd_kwargs['flags'] = (compiler.global_flags +\n"
       "                               compiler.flags(gopts, mode='global') +\n"
       "                               rule.flags(gopts))",
       "        cmd_kwargs['flags'] = (rule.flags(gopts) +\n"
       "                               compiler.global_flags +\n"
       "                               compiler.flags(gopts, mode='global'))",
       'flag-order')
