"""Catalogue of checker self-test variants.

kind 'mutant': one rule instance broken; every property in `props` must report
it (a violation whose rule or key contains `expect`).
kind 'twin':   behaviour-preserving edit; every property in `props` must stay
silent (no violation, no ANALYSIS-ERROR).
Edits are exact text replacements in one file of a scratch copy.
"""

MK = 'bfg9000/backends/make/syntax.py'
NJ = 'bfg9000/backends/ninja/syntax.py'
PC = 'bfg9000/shell/syntax.py'
POSIX = 'bfg9000/shell/posix.py'

CATALOGUE = []


def mutant(id, props, file, old, new, expect=None, **kw):
    CATALOGUE.append(dict(id=id, props=props, kind='mutant', file=file,
                          old=old, new=new, expect=expect, **kw))


def twin(id, props, file, old, new, **kw):
    CATALOGUE.append(dict(id=id, props=props, kind='twin', file=file,
                          old=old, new=new, **kw))


# ---------------------------------------------------------------- escaping
mutant('mk-no-dollar', ['C01', 'C04'], MK,
       "result = string.replace('$', '$$')", "result = string", 'ESC-MAKE')
mutant('mk-target-no-percent', ['C04'], MK,
       r"__escape_chars = r'?*\[\]\s#%' + __extra_escapes",
       r"__escape_chars = r'?*\[\]\s#' + __extra_escapes", 'ESC-MAKE')
mutant('mk-dep-no-pipe', ['C04'], MK,
       "__dep_ex = re.compile(r'(\\\\*)(^~|[|' + __escape_chars + '])')",
       "__dep_ex = re.compile(r'(\\\\*)(^~|[' + __escape_chars + '])')",
       'ESC-MAKE')
mutant('mk-no-tilde', ['C04'], MK,
       "__target_ex = re.compile(r'(\\\\*)(^~|[' + __escape_chars + '])')",
       "__target_ex = re.compile(r'(\\\\*)([' + __escape_chars + '])')",
       'ESC-MAKE')
mutant('mk-func-no-comma', ['C01'], MK,
       "return result.replace(',', '$,')", "return result", 'ESC-MAKE')
mutant('mk-deps-as-target', ['C04'], MK,
       "out.write_each(rule.deps, Syntax.dependency, prefix=lit(' '))",
       "out.write_each(rule.deps, Syntax.target, prefix=lit(' '))",
       'rule prerequisites')
mutant('mk-shelly-drops-function', ['C01'], MK,
       "shelly = syntax in [Syntax.function, Syntax.shell]",
       "shelly = syntax in [Syntax.shell]", 'shelly-set')
mutant('mk-str-not-quoted', ['C01'], MK,
       "            if shelly and shell_quote:\n"
       "                thing, escaped = shell_quote(thing)\n"
       "            self.write_literal(self.escape_str(thing, syntax))\n"
       "        elif isinstance(thing, syntax_string):",
       "            self.write_literal(self.escape_str(thing, syntax))\n"
       "        elif isinstance(thing, syntax_string):",
       'str-quoted-when-shelly')
mutant('mk-shell-literal-raw', ['C01'], MK,
       "self.write_literal(self.escape_str(thing.string, syntax))",
       "self.write_literal(thing.string)", 'WRITE-FLOW')
mutant('mk-path-not-wrapped', ['C01', 'C04'], MK,
       "            if shelly and escaped:\n"
       "                thing = pshell.wrap_quotes(thing)\n"
       "            self.write_literal(thing)\n"
       "        else:",
       "            self.write_literal(thing)\n"
       "        else:", 'path-wrapped-as-unit')
mutant('mk-path-full-quote', ['C04'], MK,
       "escaped = out.write(thing, syntax, pshell.inner_quote_info)",
       "escaped = out.write(thing, syntax, pshell.quote_info)",
       'path-inner-quote')
mutant('mk-jbos-escaped-lost', ['C01'], MK,
       "escaped |= self.write(i, syntax, shell_quote)",
       "escaped = self.write(i, syntax, shell_quote)", 'jbos-recursion')
mutant('mk-literal-from-name', ['C01'], MK,
       "out.write_literal(name.name + ' := ')",
       "out.write_literal(str(value) + ' := ')", 'LIT-SITES')
mutant('mk-variable-unsanitised', ['C01'], MK,
       "super().__init__(re.sub(r'[\\s:#=]', '_', name))",
       "super().__init__(re.sub(r'[\\s:=]', '_', name))", 'sanitiser')
mutant('mk-comma-var-missing', ['C01'], MK,
       "        self._write_variable(out, Variable(','), ',')\n", "",
       'comma-variable-defined')
mutant('mk-path-section-shell', ['C01'], MK,
       "syntax = Syntax.clean if section == Section.path else Syntax.shell",
       "syntax = Syntax.target if section == Section.path else Syntax.shell",
       'SYNTAX-POSITION')
twin('mk-twin-reorder-branches', ['C01', 'C04'], MK,
     "        if syntax == Syntax.target:\n"
     "            return cls.__target_ex.sub(repl, result)\n"
     "        elif syntax == Syntax.dependency:\n"
     "            return cls.__dep_ex.sub(repl, result)\n",
     "        if syntax == Syntax.dependency:\n"
     "            return cls.__dep_ex.sub(repl, result)\n"
     "        elif syntax == Syntax.target:\n"
     "            return cls.__target_ex.sub(repl, result)\n")
twin('mk-twin-rename-local', ['C01', 'C04'], MK,
     "        result = string.replace('$', '$$')\n",
     "        res0 = string.replace('$', '$$')\n        result = res0\n")
twin('mk-twin-class-spelled-out', ['C04'], MK,
     r"__escape_chars = r'?*\[\]\s#%' + __extra_escapes",
     r"__escape_chars = r'%#?*\[\]\s' + __extra_escapes")

mutant('nj-no-colon', ['C04'], NJ,
       "return re.sub(r'([:$ ])', r'$\\1', string)",
       "return re.sub(r'([$ ])', r'$\\1', string)", 'ESC-NINJA')
mutant('nj-no-dollar-shell', ['C02'], NJ,
       "return string.replace('$', '$$')", "return string", 'ESC-NINJA')
mutant('nj-identity-repl', ['C04'], NJ,
       "return re.sub(r'([:$ ])', r'$\\1', string)",
       "return re.sub(r'([:$ ])', r'\\1', string)", 'ESC-NINJA')
mutant('nj-inputs-as-shell', ['C04'], NJ,
       "out.write_each(build.inputs, Syntax.input, prefix=lit(' '))",
       "out.write_each(build.inputs, Syntax.shell, prefix=lit(' '))",
       'build inputs')
mutant('nj-rule-name-unchecked', ['C02'], NJ,
       "        if re.search(r'\\W', name):\n"
       "            raise ValueError('rule name contains invalid characters')\n",
       "", 'LIT-SITES')
mutant('nj-cmd-direct', ['C02'], 'bfg9000/backends/ninja/writer.py',
       "buildfile.rule(name=rule_name, command=shell.shell_list([var('cmd')]),",
       "buildfile.rule(name=rule_name, command=command,", 'CMD-INDIRECTION')
twin('nj-twin-class-order', ['C02', 'C04'], NJ,
     "return re.sub(r'([:$ ])', r'$\\1', string)",
     "return re.sub(r'([ $:])', r'$\\1', string)")

mutant('sh-tilde-safe', ['C01', 'C02'], POSIX,
       "_bad_chars = re.compile(r'[^\\w@%+=:,./-]')",
       "_bad_chars = re.compile(r'[^\\w@%+=:,./~-]')", 'SH-SAFE')
mutant('sh-star-safe', ['C01', 'C02'], POSIX,
       "_bad_chars = re.compile(r'[^\\w@%+=:,./-]')",
       "_bad_chars = re.compile(r'[^\\w@%+=:,./*-]')", 'SH-SAFE')
mutant('sh-bad-quote-repl', ['C01', 'C02'], POSIX,
       "return s.replace(\"'\", r\"'\\''\"), True",
       "return s.replace(\"'\", r\"\\'\"), True", 'quote-replacement')
mutant('sh-empty-unquoted', ['C01', 'C02'], POSIX,
       "            return '', True\n", "            return '', False\n",
       'empty-string-quoted')
mutant('sh-eq-as-str-literal', ['C01', 'C02'], POSIX,
       "def local_env(env, line):\n    if env:\n        eq = shell_literal('=')",
       "def local_env(env, line):\n    if env:\n        eq = shell_literal(';')",
       'raw-token')
mutant('tests-collapse-unquoted', ['C01', 'C02'], 'bfg9000/builtins/tests.py',
       "            if len(subcmd) > 1:\n                s = out.quote(s)\n",
       "", 'LITERAL-ORIGIN')
mutant('literal-from-user', ['C01', 'C02', 'C17'],
       'bfg9000/builtins/command.py',
       "        self.env = environment or {}\n",
       "        self.env = environment or {}\n"
       "        self.tag = shell.posix.shell_literal(name)\n"
       if False else
       "        self.env = environment or {}\n"
       "        from ..safe_str import shell_literal as _sl\n"
       "        self.tag = _sl(name)\n", 'LITERAL-ORIGIN',
       analysis_error_ok=False)
twin('sh-twin-class-order', ['C01', 'C02'], POSIX,
     "_bad_chars = re.compile(r'[^\\w@%+=:,./-]')",
     "_bad_chars = re.compile(r'[^\\w./,:=+%@-]')")

# --------------------------------------------------------------------- pc
mutant('pc-cflags-variable-syntax', ['C17'], 'bfg9000/builtins/pkg_config.py',
       "self._write_field(out, 'Cflags', cflags, Syntax.shell)",
       "self._write_field(out, 'Cflags', cflags)", 'PC-FIELD-SYNTAX')
mutant('pc-desc-shell-syntax', ['C17'], 'bfg9000/builtins/pkg_config.py',
       "self._write_field(out, 'Description', data['desc'])",
       "self._write_field(out, 'Description', data['desc'], Syntax.shell)",
       'PC-FIELD-SYNTAX')
mutant('pc-op-eq-unmapped', ['C17'], 'bfg9000/builtins/pkg_config.py',
       "        if op == '==':\n            op = '='\n", "", 'PC-OPS')
mutant('pc-requires-multi', ['C17'], 'bfg9000/builtins/pkg_config.py',
       "'requires': requires.split(single=True),",
       "'requires': requires.split(),", 'PC-REQ-SINGLE')
mutant('pc-unsorted-specs', ['C17', 'C13'], 'bfg9000/builtins/pkg_config.py',
       "                for i in sorted(specs, key=str)]",
       "                for i in specs]", 'UNORDERED-ITER')
mutant('pc-sorted-by-operator-only', ['C17', 'C13'],
       'bfg9000/builtins/pkg_config.py',
       "                for i in sorted(specs, key=str)]",
       "                for i in sorted(specs, key=lambda s: s.operator)]"
       if False else
       "                for i in list(specs)]", 'UNORDERED-ITER')
mutant('pc-no-srcdir-var', ['C17'], 'bfg9000/builtins/pkg_config.py',
       "            self._write_variable(out, 'srcdir', env.srcdir)\n", "",
       'PC-VARS')
mutant('pc-str-unquoted', ['C17'], PC,
       "            if shelly and shell_quote:\n"
       "                thing, escaped = shell_quote(thing)\n"
       "            self.write_literal(thing)\n",
       "            self.write_literal(thing)\n", 'str-quoted-when-shelly')
twin('pc-twin-field-order', ['C17'], 'bfg9000/builtins/pkg_config.py',
     "        self._write_field(out, 'Cflags', cflags, Syntax.shell)\n"
     "        self._write_field(out, 'Libs', ldflags, Syntax.shell)\n",
     "        self._write_field(out, 'Libs', ldflags, Syntax.shell)\n"
     "        self._write_field(out, 'Cflags', cflags, Syntax.shell)\n")

# -------------------------------------------------------------------- C05
mutant('c05-unescaped-dots', ['C05'], 'bfg9000/builtins/path.py',
       r"re.sub(r'(^|/)\.\.(?=/|$)', r'\1PAR', suffix)",
       r"re.sub(r'(^|/)..(?=/|$)', r'\1PAR', suffix)", 'PARREF-REGEX')
mutant('c05-one-dot', ['C05'], 'bfg9000/builtins/path.py',
       r"re.sub(r'(^|/)\.\.(?=/|$)', r'\1PAR', suffix)",
       r"re.sub(r'(^|/)\.\.?(?=/|$)', r'\1PAR', suffix)", 'PARREF-REGEX')
mutant('c05-copy-no-reroot', ['C05'], 'bfg9000/builtins/copy_file.py',
       "                path = file.path.reroot()\n"
       "                if directory:",
       "                path = file.path\n"
       "                if directory:", 'OUTPUT-ROOT')
mutant('c05-object-in-srcdir', ['C05'], 'bfg9000/tools/cc/compiler.py',
       "return ObjectFile(Path(name + '.o'), self.builder.object_format,",
       "return ObjectFile(Path(name + '.o', Root.srcdir), "
       "self.builder.object_format,", 'OUTPUT-ROOT')
mutant('c05-dup-guard-after-add', ['C05', 'C03'], MK,
       "            if self.has_rule(target):\n"
       "                raise ValueError('rule for {!r} already exists'.format(target))\n"
       "            self._targets.add(target)\n",
       "            self._targets.add(target)\n", 'RULE-OWNER')
mutant('c05-dup-first-target-only', ['C05', 'C03'], NJ,
       "        for i in outputs:\n            out = self._output_str(i)",
       "        for i in outputs[:1]:\n            out = self._output_str(i)",
       'RULE-OWNER')
mutant('c05-envfile-in-srcdir', ['C05'], 'bfg9000/driver.py',
       "        env.save(args.builddir.string())\n\n"
       "        build_inputs = build.configure_build(env)",
       "        env.save(args.srcdir.string())\n\n"
       "        build_inputs = build.configure_build(env)", 'WRITE-ROOT')
mutant('c05-directory-nonstrict', ['C05'], 'bfg9000/builtins/compile.py',
       "convert_one(kwargs, 'directory', lambda x: buildpath(context, x, True))",
       "convert_one(kwargs, 'directory', lambda x: buildpath(context, x))",
       'OUTPUT-ROOT')
twin('c05-twin-regex-class-dots', ['C05'], 'bfg9000/builtins/path.py',
     r"re.sub(r'(^|/)\.\.(?=/|$)', r'\1PAR', suffix)",
     r"re.sub(r'(^|/)[.][.](?=/|$)', r'\1PAR', suffix)")
twin('c05-twin-has-rule-inline', ['C05', 'C03'], MK,
     "            if self.has_rule(target):\n",
     "            if target in self._targets:\n")

# -------------------------------------------------------------------- C13
mutant('c13-uniques-via-set', ['C13'], 'bfg9000/builtins/link.py',
       "        formats = uniques(i.format for i in chain(self.files, self.libs,\n"
       "                                                  self.packages))",
       "        formats = list(set(i.format for i in chain(self.files, self.libs,\n"
       "                                                   self.packages)))",
       'UNORDERED-ITER')
mutant('c13-edges-set', ['C13'], 'bfg9000/build_inputs.py',
       "        self._extra_targets = []\n",
       "        self._extra_targets = set()\n", 'UNORDERED-ITER',
       )
mutant('c13-time-in-header', ['C13'], MK,
       "        out.write_literal(_comment_tmpl.format(self._bfgfile) + '\\n\\n')\n",
       "        import time\n"
       "        out.write_literal(_comment_tmpl.format(self._bfgfile) + '\\n\\n')\n"
       "        out.write_literal('# generated at %d\\n' % time.time())\n",
       'NONDET-API')
mutant('c13-raw-path-arg', ['C13'], 'bfg9000/driver.py',
       "    confinto_p.add_argument('builddir', type=argparse.Directory(),\n",
       "    confinto_p.add_argument('builddir', type=str,\n", 'CLI-ABSPATH')
twin('c13-twin-sorted-set', ['C13'], 'bfg9000/builtins/link.py',
     "        formats = uniques(i.format for i in chain(self.files, self.libs,\n"
     "                                                  self.packages))",
     "        formats = sorted(set(i.format for i in chain(self.files, self.libs,\n"
     "                                                     self.packages)))")

# -------------------------------------------------------------------- C16
mutant('c16-osize', ['C16'], 'bfg9000/tools/cc/flags.py',
       "'-Os'", "'-Osize'", 'FLAG-GRAMMAR')
mutant('c16-missing-enum-entry', ['C16'], 'bfg9000/tools/cc/flags.py',
       "    opts.OptimizeValue.linktime: '-flto',\n", "", 'OPTION-EXHAUSTIVE')
mutant('c16-sanitize-unhandled', ['C16'], 'bfg9000/tools/cc/compiler.py',
       "            elif isinstance(i, opts.sanitize):\n"
       "                flags.append('-fsanitize=address')\n", "",
       'OPTION-EXHAUSTIVE')
mutant('c16-linker-debug-dropped', ['C16'], 'bfg9000/tools/cc/linker.py',
       "            elif isinstance(i, opts.debug):\n"
       "                flags.append('-g')\n", "", 'OPTION-EXHAUSTIVE')
mutant('c16-pic-typo', ['C16'], 'bfg9000/tools/cc/compiler.py',
       "flags.append('-fPIC')", "flags.append('-fpic-code')", 'FLAG-GRAMMAR')
mutant('c16-target-flags-replace-global', ['C16'],
       'bfg9000/builtins/compile.py',
       "variables[cflags] = [global_cflags] + flags",
       "variables[cflags] = flags", 'FLAG-MERGE')
mutant('c16-new-option-unhandled', ['C16'], 'bfg9000/options.py',
       "pthread = option('pthread')\n",
       "pthread = option('pthread')\nfast_math = option('fast_math')\n",
       'OPTION-EXHAUSTIVE')
twin('c16-twin-branch-order', ['C16'], 'bfg9000/tools/cc/compiler.py',
     "            elif isinstance(i, opts.pthread):\n"
     "                flags.append('-pthread')\n"
     "            elif isinstance(i, opts.pic):\n"
     "                flags.append('-fPIC')\n",
     "            elif isinstance(i, opts.pic):\n"
     "                flags.append('-fPIC')\n"
     "            elif isinstance(i, opts.pthread):\n"
     "                flags.append('-pthread')\n")

# ---------------------------------------------------------------- C03 / C06
CP = 'bfg9000/builtins/compile.py'
LK = 'bfg9000/builtins/link.py'
CMD = 'bfg9000/builtins/command.py'
CPF = 'bfg9000/builtins/copy_file.py'

mutant('c03-make-compile-no-pch', ['C03', 'C06'], CP,
       "    if getattr(rule, 'pch', None):\n        deps.append(rule.pch)\n",
       "", {'C03': 'rule.pch', 'C06': 'dep-roots'})
mutant('c03-ninja-compile-no-include-deps', ['C03', 'C06'], CP,
       "    implicit_deps.extend(getattr(rule, 'include_deps', []))\n", "",
       {'C03': 'include_deps', 'C06': 'dep-roots'})
mutant('c03-make-link-no-libs', ['C03', 'C06'], LK,
       "        deps=(rule.files + rule.libs + package_build_deps + module_defs +\n"
       "              manifest + rule.extra_deps),",
       "        deps=(rule.files + package_build_deps + module_defs +\n"
       "              manifest + rule.extra_deps),", {'C03': 'rule.libs', 'C06': 'dep-roots'})
mutant('c03-ninja-link-no-extra-deps', ['C03', 'C06'], LK,
       "        implicit=(rule.libs + package_build_deps + module_defs + manifest +\n"
       "                  rule.extra_deps),",
       "        implicit=(rule.libs + package_build_deps + module_defs + manifest),",
       {'C03': 'extra_deps', 'C06': 'dep-roots'})
mutant('c03-ninja-command-no-files', ['C03', 'C06'], CMD,
       "        inputs=rule.files,\n        implicit=rule.extra_deps,\n"
       "        command=shell.global_env(rule.env, rule.cmds),",
       "        implicit=rule.extra_deps,\n"
       "        command=shell.global_env(rule.env, rule.cmds),", {'C03': 'rule.files', 'C06': 'dep-roots'})
mutant('c03-copy-no-dir-dep', ['C03'], CPF,
       "        order_only=make.directory_deps(rule.output),\n"
       "        recipe=make.Call(recipename, *args)",
       "        recipe=make.Call(recipename, *args)", 'order-only')
mutant('c03-compressfile-unhandled', ['C03', 'C06'], CPF,
       "@ninja.rule_handler(CopyFile, CompressFile)",
       "@ninja.rule_handler(CopyFile)", 'CompressFile')
mutant('c03-link-deps-order-only', ['C03'], LK,
       "        order_only=make.directory_deps(rule.output),\n"
       "        recipe=make.Call(recipename, files, *output_params),",
       "        order_only=make.directory_deps(rule.output) + rule.libs,\n"
       "        recipe=make.Call(recipename, files, *output_params),",
       None, )
mutant('c03-multitarget-drops-deps', ['C03'],
       'bfg9000/backends/make/writer.py',
       "    buildfile.rule(primary, deps, order_only, recipe, variables, phony)",
       "    buildfile.rule(primary, None, order_only, recipe, variables, phony)",
       'PASS-THROUGH')
mutant('c03-edge-init-skipped', ['C03'], CPF,
       "        self.file = file\n"
       "        super().__init__(context.build, output, None, extra_deps, description)\n\n"
       "    @staticmethod\n    def convert_args(context, file, kwargs):",
       "        self.file = file\n"
       "        if extra_deps is None:\n            return\n"
       "        super().__init__(context.build, output, None, extra_deps, description)\n\n"
       "    @staticmethod\n    def convert_args(context, file, kwargs):",
       'EDGE-INIT')
mutant('c03-all-from-fallback', ['C03'], 'bfg9000/builtins/default.py',
       "        deps=build_inputs['defaults'].outputs,",
       "        deps=build_inputs['defaults'].fallback_defaults,", 'DEFAULTS')
mutant('c03-test-keeps-default', ['C03'], 'bfg9000/builtins/tests.py',
       "            context.build['defaults'].remove(primary)\n",
       "            pass\n", 'DEFAULTS')
mutant('c03-command-nodes-not-deps', ['C03'], CMD,
       "        super().__init__(context.build, outputs, extra_deps=implicit,",
       "        super().__init__(context.build, outputs, extra_deps=extra_deps,",
       'PASS-THROUGH')
mutant('c03-new-edge-class', ['C03'], 'bfg9000/builtins/alias.py',
       "@builtin.function()\ndef alias(context, *args, **kwargs):",
       "class Group(Edge):\n    def __init__(self, context, name, deps=None):\n"
       "        super().__init__(context.build, Phony(name), extra_deps=deps)\n\n\n"
       "@builtin.function()\ndef group(context, *args, **kwargs):\n"
       "    return Group(context, *args, **kwargs).public_output\n\n\n"
       "@builtin.function()\ndef alias(context, *args, **kwargs):",
       'HANDLERS')
twin('c03-twin-deps-via-chain', ['C03', 'C06'], LK,
     "        deps=(rule.files + rule.libs + package_build_deps + module_defs +\n"
     "              manifest + rule.extra_deps),",
     "        deps=list(chain(rule.files, rule.libs, package_build_deps,\n"
     "                        module_defs, manifest, rule.extra_deps)),")
twin('c03-twin-local-rename', ['C03', 'C06'], CP,
     "    deps = []\n    if getattr(rule, 'pch_source', None):\n"
     "        deps.append(rule.pch_source)\n    deps.append(rule.file)\n"
     "    if getattr(rule, 'pch', None):\n        deps.append(rule.pch)\n"
     "    deps.extend(getattr(rule, 'include_deps', []))\n"
     "    if getattr(rule, 'libs', None):\n        deps.extend(rule.libs)\n"
     "    deps.extend(flatten(i.deps for i in getattr(rule, 'packages', [])))\n",
     "    prereqs = []\n    if getattr(rule, 'pch_source', None):\n"
     "        prereqs.append(rule.pch_source)\n    prereqs.append(rule.file)\n"
     "    if getattr(rule, 'pch', None):\n        prereqs.append(rule.pch)\n"
     "    prereqs.extend(getattr(rule, 'include_deps', []))\n"
     "    if getattr(rule, 'libs', None):\n        prereqs.extend(rule.libs)\n"
     "    prereqs.extend(flatten(i.deps for i in getattr(rule, 'packages', [])))\n"
     "    deps = prereqs\n")

mutant('c06-compdb-no-global-flags', ['C06'], CP,
       "        cmd_kwargs['flags'] = (compiler.global_flags +\n"
       "                               compiler.flags(gopts, mode='global') +\n"
       "                               rule.flags(gopts))",
       "        cmd_kwargs['flags'] = (compiler.flags(gopts, mode='global') +\n"
       "                               rule.flags(gopts))", 'flag-component')
mutant('c06-compdb-link-no-libs', ['C06'], LK,
       "    if hasattr(linker, 'libs_var'):\n"
       "        cmd_kwargs['libs'] = (linker.global_libs +\n"
       "                              linker.lib_flags(gopts, mode='global') +\n"
       "                              rule.lib_flags(gopts))\n"
       "    if hasattr(rule, 'manifest'):\n"
       "        cmd_kwargs['manifest'] = rule.manifest\n\n"
       "    file = rule.files[0]",
       "    if hasattr(rule, 'manifest'):\n"
       "        cmd_kwargs['manifest'] = rule.manifest\n\n"
       "    file = rule.files[0]", 'SIBLING')
mutant('c06-ninja-own-flags', ['C06'], LK,
       "    variables, cmd_kwargs = _get_flags(ninja, rule, build_inputs, buildfile)\n"
       "    if rule.description:",
       "    variables, cmd_kwargs = _get_flags(make, rule, build_inputs, buildfile)\n"
       "    if rule.description:", 'shared-_get_flags')
mutant('c06-compdb-no-transform', ['C06'], LK,
       "    in_files = rule.files\n"
       "    if hasattr(linker, 'transform_input'):\n"
       "        in_files = linker.transform_input(in_files)\n",
       "    in_files = rule.files\n", 'transform_input')
mutant('c06-ninja-command-env-dropped', ['C06'], CMD,
       "        command=shell.global_env(rule.env, rule.cmds),\n"
       "        console=rule.console,",
       "        command=shell.global_env({}, rule.cmds),\n"
       "        console=rule.console,", 'command-env')
mutant('c06-compdb-flag-order', ['C06'], CP,
       "        cmd_kwargs['flags'] = (compiler.global_flags +\n"
       "                               compiler.flags(gopts, mode='global') +\n"
       "                               rule.flags(gopts))",
       "        cmd_kwargs['flags'] = (rule.flags(gopts) +\n"
       "                               compiler.global_flags +\n"
       "                               compiler.flags(gopts, mode='global'))",
       'flag-order')

# -------------------------------------------------------------------- C09
ENVF = 'bfg9000/environment.py'
mutant('c09-field-not-saved', ['C09'], ENVF,
       "                    'compdb': self.compdb,\n", "", 'ENV-FIELDS')
mutant('c09-field-not-loaded', ['C09'], ENVF,
       "        env.compdb = data['compdb']\n", "        env.compdb = True\n",
       'ENV-FIELDS')
mutant('c09-new-attr-unsaved', ['C09'], ENVF,
       "        self.compdb = compdb\n",
       "        self.compdb = compdb\n        self.strict_mode = False\n",
       'ENV-FIELDS')
mutant('c09-upgrade-gap', ['C09'], ENVF,
       "        if version < 16:\n            data['compdb'] = True\n", "",
       'UPGRADE-CHAIN')
mutant('c09-version-bumped-no-step', ['C09'], ENVF,
       "    version = 17\n", "    version = 18\n", 'UPGRADE-CHAIN')
mutant('c09-ior-removed', ['C09'], ENVF,
       "    def __ior__(self, rhs):\n        self.update(rhs)\n"
       "        return self\n", "", 'MUTATORS')
mutant('c09-pop-untracked', ['C09'], ENVF,
       "        if key in self:\n            self.changes[key] = None\n"
       "        return super().pop(key, *args, **kwargs)",
       "        return super().pop(key, *args, **kwargs)", 'MUTATORS')
mutant('c09-update-bypasses', ['C09'], ENVF,
       "        for k, v in dict(*args, **kwargs).items():\n"
       "            self[k] = v\n",
       "        super().update(*args, **kwargs)\n", 'MUTATORS')
mutant('c09-which-ambient', ['C09'], 'bfg9000/builtins/toolchain.py',
       "shell.which(names, context.env.variables,\n"
       "                                    resolve=resolve, kind=kind)",
       "shell.which(names, resolve=resolve,\n"
       "                                    kind=kind)", 'AMBIENT')
mutant('c09-ar-ambient', ['C09'], 'bfg9000/tools/cc/__init__.py',
       "        ar_which = check_which(env.getvar(arinfo.var('linker'), 'ar'),\n"
       "                               env.variables, kind='static linker')",
       "        ar_which = check_which(env.getvar(arinfo.var('linker'), 'ar'),\n"
       "                               kind='static linker')", 'AMBIENT')
mutant('c09-getenv-in-tool', ['C09'], 'bfg9000/tools/cc/__init__.py',
       "            shell.split(env.getvar('CPPFLAGS', '')) +",
       "            shell.split(__import__('os').environ.get('CPPFLAGS', '')) +"
       if False else
       "            shell.split(os.environ.get('CPPFLAGS', '')) +", 'AMBIENT')
mutant('c09-ninja-clean-ambient', ['C09'], 'bfg9000/builtins/clean.py',
       "ninja.executable(env.variables)", "ninja.executable()", 'AMBIENT')
mutant('c09-version-str-none', ['C09'], ENVF,
       "'backend_version': try_to_str(self.backend_version),",
       "'backend_version': str(self.backend_version),", 'NULLABLE-ROUNDTRIP')
mutant('c09-regenerate-fresh-env', ['C09'], 'bfg9000/driver.py',
       "        env = Environment.load(args.builddir.string())\n"
       "        if env.toolchain.path:",
       "        env = Environment.load(args.builddir.string())\n"
       "        env.variables = type(env.variables)(dict(os.environ))\n"
       "        if env.toolchain.path:", 'AMBIENT')
mutant('c09-no-reload', ['C09'], 'bfg9000/build.py',
       "    if regenerating:\n        env.reload()\n    else:\n"
       "        env.toolchain.path = path\n",
       "    if not regenerating:\n        env.toolchain.path = path\n",
       'LOAD-ONLY')
mutant('c09-install-dirs-on-regen', ['C09'], 'bfg9000/builtins/toolchain.py',
       "    if context.regenerating:\n        return\n    env = context.env\n",
       "    env = context.env\n", 'LOAD-ONLY')
mutant('c09-filefilter-from-json-partial', ['C09'], 'bfg9000/builtins/find.py',
       "        f.exclude = tuple(NameGlob.from_json(i) for i in data['exclude'])\n",
       "", 'from_json')
mutant('c09-toolchain-path-from-args', ['C09'], 'bfg9000/driver.py',
       "            build.load_toolchain(env, env.toolchain.path, args.regenerating)",
       "            build.load_toolchain(env, env.toolchain.path)", 'LOAD-ONLY')
twin('c09-twin-field-order', ['C09'], ENVF,
     "                    'library_mode': self.library_mode,\n"
     "                    'compdb': self.compdb,\n",
     "                    'compdb': self.compdb,\n"
     "                    'library_mode': self.library_mode,\n")
twin('c09-twin-load-order', ['C09'], ENVF,
     "        env.library_mode = LibraryMode(*data['library_mode'])\n"
     "        env.compdb = data['compdb']\n",
     "        env.compdb = data['compdb']\n"
     "        env.library_mode = LibraryMode(*data['library_mode'])\n")
twin('c09-twin-display-env-read', ['C09'], 'bfg9000/log.py',
     "def _clicolor(environ):\n",
     "def _clicolor(environ):\n    import os\n"
     "    if os.environ.get('NO_COLOR'):\n        return 'never'\n")

# -------------------------------------------------------------------- C10
DRV = 'bfg9000/driver.py'
mutant('c10-handler-returns-none', ['C10'], DRV,
       "    except Exception as e:\n        logger.exception(e)\n"
       "        return e.code if isinstance(e, build.ScriptExitError) else 1\n\n\n"
       "def regenerate(",
       "    except Exception as e:\n        logger.exception(e)\n\n\n"
       "def regenerate(", 'EXIT-STATUS')
mutant('c10-reload-exception-zero', ['C10'], DRV,
       "    return e.code if isinstance(e, build.ScriptExitError) else 1\n\n\n"
       "def environment_from_args",
       "    return e.code if isinstance(e, build.ScriptExitError) else 0\n\n\n"
       "def environment_from_args", 'EXIT-STATUS')
mutant('c10-swallow-oserror', ['C10'], DRV,
       "    except AbortConfigure:\n        pass\n    except Exception as e:\n"
       "        return handle_reload_exception(e, suggest_rerun=True)",
       "    except (AbortConfigure, OSError):\n        pass\n    except Exception as e:\n"
       "        return handle_reload_exception(e, suggest_rerun=True)",
       'EXIT-STATUS')
mutant('c10-write-before-script', ['C10'], DRV,
       "        backend = list_backends()[env.backend]\n"
       "        build_inputs = build.configure_build(env, args.regenerating)\n"
       "        backend.write(env, build_inputs)\n",
       "        backend = list_backends()[env.backend]\n"
       "        try:\n"
       "            build_inputs = build.configure_build(env, args.regenerating)\n"
       "        except ImportError:\n"
       "            build_inputs = None\n"
       "        backend.write(env, build_inputs)\n", 'WRITE-ORDER')
mutant('c10-hooks-inside-open', ['C10'], 'bfg9000/backends/make/writer.py',
       "    post_rules_hook.run(build_inputs, buildfile, env)\n\n"
       "    # Render the whole file",
       "    pass\n\n    # Render the whole file",
       'WRITE-ORDER',
       edits=[("    post_rules_hook.run(build_inputs, buildfile, env)\n\n"
               "    # Render the whole file",
               "    # Render the whole file"),
              ("    with open(filepath.string(env.base_dirs), 'w') as out:\n"
               "        out.write(contents.getvalue())",
               "    with open(filepath.string(env.base_dirs), 'w') as out:\n"
               "        post_rules_hook.run(build_inputs, buildfile, env)\n"
               "        out.write(contents.getvalue())")])
mutant('c10-render-into-open-file', ['C10'], 'bfg9000/backends/ninja/writer.py',
       "    contents = StringIO()\n    buildfile.write(contents)\n"
       "    with open(filepath.string(env.base_dirs), 'w') as out:\n"
       "        out.write(contents.getvalue())",
       "    with open(filepath.string(env.base_dirs), 'w') as out:\n"
       "        buildfile.write(out)", 'WRITE-ORDER')
mutant('c10-abort-without-touch', ['C10'], 'bfg9000/builtins/find.py',
       "        for i in regen_files.outputs:\n"
       "            if _path.exists(i, context.env.base_dirs):\n"
       "                _path.touch(i, context.env.base_dirs)\n"
       "        raise AbortConfigure()",
       "        raise AbortConfigure()", 'EXIT-STATUS')
mutant('c10-second-abort-site', ['C10'], 'bfg9000/builtins/regenerate.py',
       "    if context.regenerating:\n        log.info('regenerating build files')\n",
       "    if context.regenerating:\n        log.info('regenerating build files')\n"
       "    if context.regenerating and not context.env.compdb:\n"
       "        from ..exceptions import AbortConfigure\n"
       "        raise AbortConfigure()\n", 'EXIT-STATUS')
mutant('c10-exit-code-zero-raises', ['C10'], 'bfg9000/build.py',
       "            if e.code:\n                raise ScriptExitError(filename, e.code)",
       "            raise ScriptExitError(filename, e.code)", 'EXIT-STATUS')
mutant('c10-skip-ignores-extra', ['C10'], 'bfg9000/builtins/find.py',
       "        regenerate = regenerate or results[0] != found or results[1] != extra",
       "        regenerate = regenerate or results[0] != found", 'EXIT-STATUS')
mutant('c10-new-cache-writer-hook', ['C10'], 'bfg9000/builtins/clean.py',
       "@make.post_rules_hook\ndef make_clean_rule(build_inputs, buildfile, env):\n",
       "@make.post_rules_hook\ndef make_clean_rule(build_inputs, buildfile, env):\n"
       "    from .find import FindCacheFile\n"
       "    from . import regenerate as _regen\n"
       "    FindCacheFile(_regen.RegenerateFiles.make(build_inputs, env),\n"
       "                  build_inputs['find_cache']).save(env.builddir.string())\n",
       'make_clean_rule')
twin('c10-twin-logging', ['C10'], DRV,
     "    except Exception as e:\n        logger.exception(e)\n"
     "        return e.code if isinstance(e, build.ScriptExitError) else 1\n\n\n"
     "def regenerate(",
     "    except Exception as e:\n        logger.exception(e)\n"
     "        logger.info('configuration failed')\n"
     "        return e.code if isinstance(e, build.ScriptExitError) else 1\n\n\n"
     "def regenerate(")
twin('c10-twin-const-status', ['C10'], DRV,
     "        print('shtab not found; install via `pip install shtab`')\n        return 1",
     "        print('shtab not found; install via `pip install shtab`')\n        return 2")

# ------------------------------------------------------------ C08 C11 C18
FND = 'bfg9000/builtins/find.py'
mutant('c08-extra-not-replayed', ['C08', 'C11', 'C18'], FND,
       "            for i in cached.extra:\n"
       "                extra_types[_path_type(i)](i, dist=dist)\n", "",
       'CACHE-REPLAY')
mutant('c08-hit-path-ignores-dist', ['C08', 'C11', 'C18'], FND,
       "            return [types[_path_type(i)](i, dist=dist) for i in cached.found]",
       "            return [types[_path_type(i)](i) for i in cached.found]",
       'CACHE-REPLAY')
mutant('c08-exec-outside-push-path', ['C08', 'C18'], 'bfg9000/build.py',
       "    with pushd(path.parent().string(context.env.base_dirs)), \\\n"
       "         context.push_path(path) as p:\n",
       "    with pushd(path.parent().string(context.env.base_dirs)), \\\n"
       "         context.push_path(context.path if run_hooks is None else path) as p:\n",
       'REGEN-INPUTS')
mutant('c08-submodules-not-bootstrap', ['C08', 'C18'], 'bfg9000/build.py',
       "    for i in chain(context.seen_paths[1:], opts_paths):",
       "    for i in opts_paths:", 'REGEN-INPUTS')
mutant('c08-no-toolchain-input', ['C08'], 'bfg9000/builtins/regenerate.py',
       "    return build_inputs.bootstrap_paths + listify(env.toolchain.path) + extra",
       "    return build_inputs.bootstrap_paths + extra", 'REGEN-INPUTS')
mutant('c08-immediate-not-output', ['C08'], 'bfg9000/builtins/file_types.py',
       "    context.build['regenerate'].outputs.append(file)\n", "",
       'REGEN-INPUTS')
mutant('c08-seen-dirs-dropped', ['C08'], FND,
       "        context.build['find_cache'].add(file_filter, found, extra)\n"
       "        context.build['find_dirs'].update(seen_dirs)\n    return results",
       "        context.build['find_cache'].add(file_filter, found, extra)\n"
       "    return results", 'FIND-DIRS')
mutant('c08-depfile-not-requested', ['C08'], FND,
       "        context.build['regenerate'].depfile = depfile_name\n", "        pass\n",
       'FIND-DIRS')
mutant('c08-make-no-include', ['C08'], FND,
       "        buildfile.include(depfile_name)\n", "", 'FIND-DIRS')
mutant('c08-only-top-dir-recorded', ['C08'], FND,
       "            if seen_dirs is not None:\n                seen_dirs.append(base)\n",
       "            if seen_dirs is not None and base == p:\n"
       "                seen_dirs.append(base)\n", 'FIND-DIRS')
mutant('c11-prune-on-exclude', ['C11'], FND,
       "                if m == FindResult.exclude_recursive:",
       "                if m >= FindResult.exclude if False else m in (FindResult.exclude, FindResult.exclude_recursive):",
       'RESULT-LATTICE')
mutant('c11-and-is-min', ['C11'], FND,
       "        return type(self)(max(self.value, rhs.value))",
       "        return type(self)(min(self.value, rhs.value))", 'RESULT-LATTICE',
       count=1)
mutant('c11-not-now-in-results', ['C11'], FND,
       "        elif matched == FindResult.not_now:\n            if cache:\n"
       "                extra.append(path)\n"
       "            extra_types[_path_type(path)](path, dist=dist)",
       "        elif matched == FindResult.not_now:\n            if cache:\n"
       "                extra.append(path)\n"
       "            results.append(extra_types[_path_type(path)](path, dist=dist))",
       'RESULT-LATTICE')
mutant('c11-extra-before-exclude', ['C11'], FND,
       "        if any(i.match(path) for i in self.exclude):\n"
       "            return FindResult.exclude_recursive\n\n"
       "        skip_base",
       "        if any(i.match(path) for i in self.extra):\n"
       "            return FindResult.not_now\n\n"
       "        if any(i.match(path) for i in self.exclude):\n"
       "            return FindResult.exclude_recursive\n\n"
       "        skip_base", 'RESULT-LATTICE')
mutant('c18-static-file-ignores-dist', ['C18'], 'bfg9000/builtins/file_types.py',
       "    if dist and path.root == Root.srcdir:", "    if path.root == Root.srcdir:",
       'SOURCE-REGISTRATION')
mutant('c18-header-no-dist-forward', ['C18'], 'bfg9000/builtins/file_types.py',
       "    return static_file(context, HeaderFile, path, dist, [('lang', lang)])",
       "    return static_file(context, HeaderFile, path, True, [('lang', lang)])",
       'SOURCE-REGISTRATION')
mutant('c18-dist-skips-bootstrap', ['C18'], 'bfg9000/build_inputs.py',
       "        return chain((File(i) for i in self.bootstrap_paths),\n"
       "                     self._sources.values())",
       "        return chain(self._sources.values())", 'SOURCE-REGISTRATION')
mutant('c18-extra-deps-unregistered', ['C18'], 'bfg9000/build_inputs.py',
       "            if f.path.root == Root.srcdir:\n"
       "                return build.add_source(f)\n            return f",
       "            return f", 'add_source')
twin('c08-twin-hit-path-shape', ['C08', 'C11', 'C18'], FND,
     "            for i in cached.extra:\n"
     "                extra_types[_path_type(i)](i, dist=dist)\n"
     "            return [types[_path_type(i)](i, dist=dist) for i in cached.found]",
     "            results = [types[_path_type(i)](i, dist=dist)\n"
     "                       for i in cached.found]\n"
     "            for j in cached.extra:\n"
     "                extra_types[_path_type(j)](j, dist=dist)\n"
     "            return results")

# -------------------------------------------------------------------- C12
BPF = 'bfg9000/platforms/basepath.py'
mutant('c12-escape-check-after-assign', ['C12'], BPF,
       "        if ( normpath == posixpath.pardir or\n"
       "             normpath.startswith(posixpath.pardir + posixpath.sep) ):\n"
       "            raise ValueError(\"too many '..': path cannot escape root\")\n\n"
       "        self.suffix = drive + normpath\n",
       "        self.suffix = drive + normpath\n"
       "        if destdir and ( normpath == posixpath.pardir or\n"
       "             normpath.startswith(posixpath.pardir + posixpath.sep) ):\n"
       "            raise ValueError(\"too many '..': path cannot escape root\")\n\n",
       'PATH-CTOR')
mutant('c12-escape-check-weakened', ['C12'], BPF,
       "        if ( normpath == posixpath.pardir or\n"
       "             normpath.startswith(posixpath.pardir + posixpath.sep) ):",
       "        if normpath == posixpath.pardir:", 'PATH-CTOR')
mutant('c12-no-backslash-normalise', ['C12'], BPF,
       "        path = path.replace('\\\\', '/')\n        isdir = posixpath.basename",
       "        isdir = posixpath.basename", 'PATH-CTOR')
mutant('c12-addext-bypasses-ctor', ['C12'], BPF,
       "        return type(self)(self.suffix + ext, self.root, self.destdir,\n"
       "                          self.directory)",
       "        import copy\n        result = copy.copy(self)\n"
       "        result.suffix = self.suffix + ext\n        return result",
       'PATH-CTOR')
mutant('c12-parent-drops-destdir', ['C12'], BPF,
       "        return type(self)(posixpath.dirname(self.suffix), self.root,\n"
       "                          self.destdir, directory=True)",
       "        return type(self)(posixpath.dirname(self.suffix), self.root,\n"
       "                          directory=True)", 'PATH-CTOR')
mutant('c12-hash-includes-directory', ['C12'], BPF,
       "        return hash(self.suffix)", "        return hash((self.suffix, self.directory))",
       'HASH-EQ')
mutant('c12-eq-ignores-root', ['C12'], BPF,
       "        return (self.root == rhs.root and self.suffix == rhs.suffix and\n"
       "                self.destdir == rhs.destdir)",
       "        return (self.suffix == rhs.suffix and\n"
       "                self.destdir == rhs.destdir)", 'HASH-EQ')
mutant('c12-json-order', ['C12', 'C09'], BPF,
       "        return cls(data[0], base, data[2])",
       "        return cls(data[0], base)", 'from_json')
mutant('c12-filefilter-hash-extra', ['C12'], 'bfg9000/builtins/find.py',
       "        return (self.include == rhs.include and self.extra == rhs.extra and\n"
       "                self.exclude == rhs.exclude and\n"
       "                self.filter_fn == rhs.filter_fn)",
       "        return (self.include == rhs.include and\n"
       "                self.exclude == rhs.exclude and\n"
       "                self.filter_fn == rhs.filter_fn)", 'HASH-EQ')
twin('c12-twin-eq-order', ['C12'], BPF,
     "        return (self.root == rhs.root and self.suffix == rhs.suffix and\n"
     "                self.destdir == rhs.destdir)",
     "        return (self.suffix == rhs.suffix and self.root == rhs.root and\n"
     "                self.destdir == rhs.destdir)")

# ----------------------------------------------------- C07 C14 C15 C19 C20
mutant('c07-no-depfixer', ['C07'], CP,
       "            recipe_extra = [make.Silent(depfixer(deps))]\n", "",
       'DEPFILE-WIRING')
mutant('c07-include-not-optional', ['C07'], CP,
       "        buildfile.include(depfile, optional=True)",
       "        buildfile.include(depfile)", 'DEPFILE-WIRING')
mutant('c07-depfile-not-target', ['C07'], CP,
       "        build_inputs.add_target(File(depfile))\n", "",
       'DEPFILE-WIRING')
mutant('c07-suffix-mismatch', ['C07'], CP,
       "        depfile = rule.output[0].path.addext('.d')\n"
       "        build_inputs.add_target",
       "        depfile = rule.output[0].path.addext('.dep')\n"
       "        build_inputs.add_target", 'suffix')
mutant('c07-ninja-no-deps-gcc', ['C07'], CP,
       "            deps = 'gcc'\n            cmd_kwargs['deps'] = depfile = ninja.var('out') + '.d'",
       "            cmd_kwargs['deps'] = depfile = ninja.var('out') + '.d'",
       'DEPFILE-WIRING')
mutant('c07-no-mmd', ['C07'], 'bfg9000/tools/cc/compiler.py',
       "            result.extend(['-MMD', '-MF', deps])",
       "            result.extend(['-MF', deps])", 'DEPFILE-WIRING')
mutant('c07-depfixer-last-dep-unterminated', ['C07'], 'bfg9000/depfixer.py',
       "            elif tok == Token.newline:\n"
       "                outstream.write(':\\n')\n"
       "                state = State.target",
       "            elif tok == Token.newline:\n"
       "                state = State.target", 'DEPFIX-TABLE')
mutant('c07-depfixer-echoes-target', ['C07'], 'bfg9000/depfixer.py',
       "            if tok == Token.space:\n                state = State.between_targets\n",
       "            if tok == Token.char:\n                outstream.write(value)\n"
       "            elif tok == Token.space:\n                state = State.between_targets\n",
       'DEPFIX-TABLE')
mutant('c07-clean-skips-extra', ['C07'], 'bfg9000/build_inputs.py',
       "        return chain(\n            chain.from_iterable(i.output for i in self._edges),\n"
       "            self._extra_targets\n        )",
       "        return chain.from_iterable(i.output for i in self._edges)",
       'DEPFILE-WIRING')
twin('c07-twin-depfixer-branch-order', ['C07'], 'bfg9000/depfixer.py',
     "            if tok == Token.char:\n                outstream.write(value)\n"
     "            elif tok == Token.space:\n                outstream.write(':\\n')\n"
     "                state = State.between_deps\n",
     "            if tok == Token.space:\n                outstream.write(':\\n')\n"
     "                state = State.between_deps\n"
     "            elif tok == Token.char:\n                outstream.write(value)\n")

mutant('c14-libs-order-reversed', ['C14'], LK,
       "        self.libs = self.user_libs + forward_opts.libs",
       "        self.libs = forward_opts.libs + self.user_libs", 'FORWARD-FIELDS')
mutant('c14-no-recursion', ['C14'], 'bfg9000/options.py',
       "                    result.update(forward_opts)\n"
       "                    do_recurse(result, forward_opts.libs)",
       "                    result.update(forward_opts)", 'FORWARD-FIELDS')
mutant('c14-packages-not-forwarded', ['C14'], LK,
       "            link_options=self.user_options,\n            libs=self.user_libs,\n"
       "            packages=self.user_packages,",
       "            link_options=self.user_options,\n            libs=self.user_libs,",
       'FORWARD-FIELDS')
mutant('c14-absolute-rpath', ['C14'], 'bfg9000/tools/patchelf.py',
       "            rpath = rpath.relpath(output.path.parent(), prefix='$ORIGIN')",
       "            rpath = rpath", 'RPATH-ORIGIN')
mutant('c14-no-soname', ['C14'], 'bfg9000/tools/cc/linker.py',
       "        if output:\n            flags.extend(self._soname(first(output)))\n",
       "", 'RPATH-ORIGIN')
mutant('c14-forwarded-link-options-dropped', ['C14'], LK,
       "        self._internal_options.collect(extra_options,\n"
       "                                       forward_opts.link_options)",
       "        self._internal_options.collect(extra_options)", 'FORWARD-FIELDS')

INS = 'bfg9000/builtins/install.py'
mutant('c15-uninstall-explicit-only', ['C15'], INS,
       "            uninstall_line(*i) for i in install_outputs.host.items()\n        ))]",
       "            uninstall_line(i, install_outputs.host[i])\n"
       "            for i in install_outputs.explicit\n        ))]", 'INSTALL-SYMMETRY')
mutant('c15-no-destdir', ['C15'], INS,
       "        return cls(f.install_suffix, install_root, destdir=not cross)",
       "        return cls(f.install_suffix, install_root)", 'INSTALL-SYMMETRY')
mutant('c15-deps-not-installed', ['C15'], INS,
       "            for dep in src.install_deps:\n"
       "                self._add_implicit(dep, directory)\n", "", 'INSTALL-SYMMETRY')
mutant('c15-header-dir-flattened', ['C15'], INS,
       "                src_paths = [i.path.relpath(src.path) for i in src.files]",
       "                src_paths = [i.path.basename() for i in src.files]",
       'INSTALL-SYMMETRY')
mutant('c15-manpage-root', ['C15'], 'bfg9000/file_types.py',
       "class ManPage(File):\n    install_root = _path.InstallRoot.mandir",
       "class ManPage(File):\n    install_root = _path.InstallRoot.datadir",
       'install_root')
mutant('c15-ninja-install-no-mopack', ['C15'], INS,
       "    install_commands = install_files + _install_mopack(env)\n\n"
       "    if install_commands:\n        ninja.command_build(",
       "    install_commands = install_files\n\n"
       "    if install_commands:\n        ninja.command_build(", 'sibling')

mutant('c19-shared-globals', ['C19'], 'bfg9000/build.py',
       "            exec(code, {\n                '__file__': os.path.relpath(filename),\n"
       "                '__builtins__': context.builtins,\n            })",
       "            context._globals = getattr(context, '_globals', {})\n"
       "            context._globals.update({\n"
       "                '__file__': os.path.relpath(filename),\n"
       "                '__builtins__': context.builtins,\n            })\n"
       "            exec(code, context._globals)", 'EXEC-SCOPE')
mutant('c19-no-pop-on-error', ['C19'], 'bfg9000/builtins/builtin.py',
       "        try:\n            yield self.path_stack[-1]\n        finally:\n"
       "            self.path_stack.pop()",
       "        yield self.path_stack[-1]\n        self.path_stack.pop()",
       'PUSH-PATH')
mutant('c19-relpath-root', ['C19'], 'bfg9000/builtins/path.py',
       "    return _path.Path.ensure(path, context.path.parent(), strict=strict)",
       "    return _path.Path.ensure(path, _path.Root.srcdir, strict=strict)",
       'REL-RESOLVE')
mutant('c19-buildpath-no-reroot', ['C19'], 'bfg9000/builtins/path.py',
       "    base = context.path.parent().reroot()", "    base = context.path.parent()",
       'REL-RESOLVE')
mutant('c19-x-alias-first-only', ['C19'], 'bfg9000/arguments/parser.py',
       "        names += tuple('--x-' + i[2:] for i in names)",
       "        names += ('--x-' + names[0][2:],)", 'X-ALIAS')
mutant('c19-toggle-loses-x', ['C19'], 'bfg9000/arguments/parser.py',
       "        return _re.sub('(^--(x-)?)', r'\\1' + prefix, s)",
       "        return _re.sub('(^--)', r'\\1' + prefix, s)", 'X-ALIAS')
mutant('c19-export-to-root', ['C19'], 'bfg9000/builtins/builtin.py',
       "        return self.path_stack[-1].exports",
       "        return self.path_stack[0].exports", 'PUSH-PATH')
mutant('c19-extra-exec', ['C19'], 'bfg9000/builtins/core.py',
       "@builtin.function(context=('build', 'options'))\ndef export(context, **kwargs):",
       "@builtin.function(context=('build', 'options'))\ndef evaluate(context, text):\n"
       "    return eval(text)\n\n\n"
       "@builtin.function(context=('build', 'options'))\ndef export(context, **kwargs):",
       'EXEC-SCOPE')

SLN = 'bfg9000/backends/msbuild/solution.py'
mutant('c20-always-new-guid', ['C20'], SLN,
       "        if key in self._map:\n            return self._map[key]\n        else:\n"
       "            u = uuid.uuid4()\n            self._map[key] = u\n            return u",
       "        u = uuid.uuid4()\n        self._map[key] = u\n        return u",
       'UUID-PERSIST')
mutant('c20-new-guid-not-stored', ['C20'], SLN,
       "            u = uuid.uuid4()\n            self._map[key] = u\n            return u",
       "            u = uuid.uuid4()\n            return u", 'UUID-PERSIST')
mutant('c20-save-skipped', ['C20'], 'bfg9000/backends/msbuild/writer.py',
       "            p.write(out)\n    uuids.save()", "            p.write(out)",
       'UUID-PERSIST')
mutant('c20-seen-not-marked', ['C20'], SLN,
       "        self._seen.add(key)\n        if key in self._map:",
       "        if key in self._map:", 'UUID-PERSIST')
mutant('c20-unknown-dep-skipped', ['C20'], SLN,
       "            if dep_output not in self:\n"
       "                raise RuntimeError('unknown dependency for {!r}'.format(dep))\n"
       "            dependencies.append(self[dep_output])",
       "            if dep_output not in self:\n                continue\n"
       "            dependencies.append(self[dep_output])", 'SLN-DEPS')
mutant('c20-tab-not-bad', ['C20'], 'bfg9000/shell/windows.py',
       "_bad_chars = re.compile(r'(\\s|[\"&<>|]|\\\\$)')",
       "_bad_chars = re.compile(r'( |[\"&<>|]|\\\\$)')", 'WIN-QUOTE-TABLE')
mutant('c20-no-backslash-doubling', ['C20'], 'bfg9000/shell/windows.py',
       "            return m.group(1) * 2 + quote", "            return m.group(1) + quote",
       'WIN-QUOTE-TABLE')

# ------------------------------------------- variants for round-1-seed rules
twin('c03-twin-presence-guard', ['C03', 'C06'], CP,
     "    deps.extend(getattr(rule, 'include_deps', []))\n",
     "    if getattr(rule, 'include_deps', None):\n"
     "        deps.extend(rule.include_deps)\n")
twin('c02-twin-env-local', ['C02', 'C06'], CMD,
     "        command=shell.global_env(rule.env, rule.cmds),\n"
     "        console=rule.console,",
     "        command=exported,\n        console=rule.console,",
     edits=[("def ninja_command(rule, build_inputs, buildfile, env):\n",
             "def ninja_command(rule, build_inputs, buildfile, env):\n"
             "    exported = shell.global_env(rule.env, rule.cmds)\n"),
            ("        command=shell.global_env(rule.env, rule.cmds),\n"
             "        console=rule.console,",
             "        command=exported,\n        console=rule.console,")])
mutant('c03-conditional-include-deps', ['C03', 'C06'], CP,
       "    implicit_deps.extend(getattr(rule, 'include_deps', []))\n",
       "    if compiler.deps_flavor is None:\n"
       "        implicit_deps.extend(getattr(rule, 'include_deps', []))\n",
       {'C03': 'unconditional', 'C06': 'dep-roots'})
mutant('c12-startswith-suffix', ['C12', 'C05', 'C11'], 'bfg9000/path.py',
       "    def ischild(a, b):\n        for i, j in zip(a, b):\n"
       "            if i != j:\n                return False\n        return True\n",
       "    def ischild(a, b):\n        return b.suffix.startswith(a.suffix)\n",
       'PATH-COMPONENTWISE')
mutant('c09-reset-early-return', ['C09'], ENVF,
       "    def reset(self):\n        super().clear()",
       "    def reset(self):\n        if not self._changes:\n            return\n"
       "        super().clear()", 'MUTATORS')
mutant('c15-realize-early-root', ['C15'], BPF,
       "        if self.destdir and DestDir.destdir in variables:\n"
       "            destdir = variables[DestDir.destdir]\n"
       "            root = destdir if root is None else destdir + root\n"
       "        if root is None:",
       "        if root is not None and not self.suffix:\n"
       "            return self.__localize(root, localize)\n"
       "        if self.destdir and DestDir.destdir in variables:\n"
       "            destdir = variables[DestDir.destdir]\n"
       "            root = destdir if root is None else destdir + root\n"
       "        if root is None:", 'destdir-before')
mutant('c17-tiebreak-flipped', ['C17'], 'bfg9000/versioning.py',
       "        return (s.version, 1 if s.operator in ['>=', '<'] else 2)",
       "        return (s.version, 1 if s.operator in ['>=', '<='] else 2)",
       'PC-BOUND-TIEBREAK')
mutant('c20-tokenize-no-halving', ['C20'], 'bfg9000/shell/windows.py',
       "            for i in range(escapes // 2):", "            for i in range(escapes):",
       'WIN-TOKENIZE-PARITY')
twin('c09-twin-reset-order', ['C09'], ENVF,
     "        super().clear()\n        super().update(self.initial)\n        self._changes = {}",
     "        self._changes = {}\n        super().clear()\n        super().update(self.initial)")

# ---------------------------------------------------------------- round 8/9
# one mutant per clause added from the breakages of rounds 8 and 9
mutant('r8-overescape-hash', ['C01'], MK,
       "        elif syntax in [Syntax.shell, Syntax.clean]:\n"
       "            return result",
       "        elif syntax in [Syntax.shell, Syntax.clean]:\n"
       "            return result.replace('#', '\\\\#')", 'over-escaped')
mutant('r8-hash-via-to_json', ['C12'], BPF,
       "        return hash(self.suffix)",
       "        return hash(tuple(self.to_json()))", 'HASH-EQ')
mutant('r8-pc-split-no-escapes', ['C17'], 'bfg9000/tools/pkg_config.py',
       "escapes=True", "escapes=False", 'PC-READBACK')
mutant('r8-libdir-in-prefix', ['C15'], 'bfg9000/platforms/posix.py',
       "PosixPath('lib/', IRoot.exec_prefix)",
       "PosixPath('lib/', IRoot.prefix)", 'install_dirs')
mutant('r8-link-to-real-file', ['C14'], 'bfg9000/tools/cc/linker.py',
       "CopyFile(context, output.link, output.soname, mode='symlink')",
       "CopyFile(context, output.link, output, mode='symlink')",
       'link->soname')
mutant('r8-lib-re-unanchored', ['C16'], 'bfg9000/tools/cc/linker.py',
       "'(?:' + '|'.join(lib_formats) + ')$'",
       "'|'.join(lib_formats) + '$'", 'whole-name-anchored')
mutant('r8-dotdot-substring', ['C18'], 'bfg9000/builtins/file_types.py',
       "    if dist and path.root == Root.srcdir:",
       "    if dist and path.root == Root.srcdir and '..' not in "
       "path.suffix:", 'PATH-COMPONENTWISE')
mutant('r8-no-reset-when-lazy', ['C09'], 'bfg9000/build.py',
       "    if regenerating:\n        env.reload()",
       "    if regenerating is Regenerating.true:\n        env.reload()",
       'reload-for-every')
mutant('r9-global-flags-order', ['C16', 'C06'], CP,
       "compiler.global_flags + compiler.flags(gopts, mode='global')",
       "compiler.flags(gopts, mode='global') + compiler.global_flags",
       'global-flags-order')
mutant('r8-oldest-output-max', ['C08'], FND,
       "         min(_path.getmtime_ns(i, context.env.base_dirs, strict=False)",
       "         max(_path.getmtime_ns(i, context.env.base_dirs, strict=False)",
       'newest-input-vs-oldest-output')
