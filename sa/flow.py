"""Value-flow facts that survive refactoring.

`Flow.atoms(expr, fn)` answers: which *access paths* can flow into the value
of `expr`?  An access path is an attribute/subscript chain rooted at a
parameter (`param:x`, `x.a.b`), a global, or an opaque call
(`env.tool('rm')(~)`: constant arguments spelled out, others `~`), or a
constant (`const:'x'`). Element access and iteration are transparent: the
elements of `x.files` are `x.files`. Locals never appear: `d = o.host;
d.path` is `o.host.path`. The closure follows

  * local definitions (assignment, tuple unpacking with positions, augmented
    assignment, for/comprehension targets, `with ... as`, in-place mutation
    `x.append/extend/insert/add/update`, `x[k] = v`);
  * containers and transparent helpers (list/tuple/dict displays, `+`, `or`,
    conditional expressions, comprehensions, `list`, `tuple`, `sorted`,
    `chain`, `iterate`, `listify`, `flatten`, `uniques`, `filter`, `first` ...);
  * calls to functions/methods/nested functions of the repository: the
    atoms of their return (or yield) expressions with parameters bound to the
    caller's argument atoms (depth-bounded);
  * module-level constants.

It is an over-approximation ("may flow"), used for rules of the form "A
reaches B". Because it looks through temporaries, loops vs comprehensions,
`a + b` vs `chain(a, b)` and extracted helpers, renaming a local, splitting an
expression, or moving a block into a private helper does not change the
answer.

`must_call` / `find_calls` give the matching control facts: "every path
through f performs a call matching P (directly or inside a helper it always
calls)" and "where (in f or its helpers) is a call matching P".
"""
import ast

from .cfg import EXIT, build as build_cfg
from .index import unparse, walk_no_nested
from . import query as Q

TRANSPARENT = {
    'list', 'tuple', 'set', 'frozenset', 'sorted', 'reversed', 'iter', 'next',
    'chain', 'chain.from_iterable', 'itertools.chain',
    'itertools.chain.from_iterable', 'iterate', 'iterate_each', 'listify',
    'flatten', 'uniques', 'first', 'unlistify', 'filter', 'map', 'enumerate',
    'zip', 'iterutils.iterate', 'iterutils.listify', 'iterutils.uniques',
    'iterutils.tween', 'tween', 'iterutils.flatten', 'iterutils.first',
    'dict', 'copy.copy', 'deepcopy', 'copy.deepcopy',
    'shell_list', 'shell.shell_list', 'option_list', 'opts.option_list',
    'safe_str.safe_str', 'safe_str', 'jbos', 'safe_str.jbos',
    'functools.partial', 'partial',
}
TRANSPARENT_METHODS = {'copy', 'items', 'values', 'keys', 'get', 'pop',
                       'setdefault', 'format', 'join', 'split', 'strip',
                       'lstrip', 'rstrip', 'lower', 'upper', 'as_directory'}
MUTATORS_ELEM = {'append', 'add', 'insert'}
MUTATORS_SEQ = {'extend', 'update', 'collect'}


class _Rec(dict):
    """Result of Flow.record(); `nested` holds the entries stored as
    d[k1][k2] = v: {k1: [(k2, value expr, fn, bind)]}."""
    def __init__(self):
        dict.__init__(self)
        self.nested = {}


class Flow:
    def __init__(self, repo, max_depth=3):
        self.repo = repo
        self.max_depth = max_depth
        self._defs = {}
        self._memo = {}
        self._cmemo = {}
        self._nested = {}
        self._modfunc = {}
        self._rcache = {}
        self._lscope = {}
        self._tables = {}
        self._partial = {}
        self._allocs = {}

    # -- definitions of locals -------------------------------------------
    def defs(self, fn_node):
        """name -> list of (kind, expr, index). Collected over the whole
        function including nested functions/lambdas/comprehensions."""
        key = id(fn_node)
        if key in self._defs:
            return self._defs[key]
        d = {}

        def add(name, kind, expr, idx=None):
            d.setdefault(name, []).append((kind, expr, idx))

        def bind_target(t, kind, expr, idx=None):
            if isinstance(t, ast.Name):
                add(t.id, kind, expr, idx)
            elif isinstance(t, (ast.Tuple, ast.List)):
                for i, e in enumerate(t.elts):
                    k2 = 'index' if kind == 'value' else 'elemindex'
                    bind_target(e, k2, expr, i)
            elif isinstance(t, ast.Starred):
                bind_target(t.value, kind, expr, idx)
            elif isinstance(t, ast.Subscript) and isinstance(
                    t.value, ast.Name):
                add(t.value.id, 'item', expr, t.slice)
            elif isinstance(t, ast.Attribute):
                pass

        for n in walk_no_nested(fn_node):
            if isinstance(n, ast.Assign):
                # a = b[k] = <fresh container>: b[k] holds the object `a`
                # names (later stores through `a` are stores into b[k])
                alias = None
                if len(n.targets) > 1 and isinstance(
                        n.value, (ast.Dict, ast.List, ast.Set, ast.Call)):
                    names = [t for t in n.targets if isinstance(t, ast.Name)]
                    if len(names) == 1:
                        alias = names[0]
                for t in n.targets:
                    if alias is not None and isinstance(t, ast.Subscript):
                        bind_target(t, 'value', alias)
                    else:
                        bind_target(t, 'value', n.value)
            elif isinstance(n, ast.AnnAssign) and n.value is not None:
                bind_target(n.target, 'value', n.value)
            elif isinstance(n, ast.AugAssign):
                bind_target(n.target, 'value', n.value)
            elif isinstance(n, ast.NamedExpr):
                bind_target(n.target, 'value', n.value)
            elif isinstance(n, (ast.For, ast.AsyncFor, ast.comprehension)):
                bind_target(n.target, 'elem', n.iter)
            elif isinstance(n, ast.withitem) and n.optional_vars is not None:
                bind_target(n.optional_vars, 'value', n.context_expr)
            elif isinstance(n, ast.Call) and isinstance(
                    n.func, ast.Attribute) and isinstance(
                        n.func.value, ast.Name):
                m = n.func.attr
                if m in MUTATORS_ELEM and n.args:
                    add(n.func.value.id, 'value', n.args[-1])
                elif m in MUTATORS_SEQ:
                    for a in n.args:
                        add(n.func.value.id, 'seq', a)
        self._defs[key] = d
        return d

    def _scope_chain(self, fn):
        """fn and its lexically enclosing functions (for closures)."""
        out = [fn]
        node = fn.node
        while True:
            p = getattr(node, '_parent', None)
            while p is not None and not isinstance(
                    p, (ast.FunctionDef, ast.AsyncFunctionDef)):
                p = getattr(p, '_parent', None)
            if p is None:
                break
            out.append(p._func)
            node = p
        return out

    # -- canonical text ----------------------------------------------------
    def canon(self, e, fn, _depth=0):
        """Source text of `e` with single-definition local aliases of
        attribute/subscript/call chains substituted at the root."""
        if fn is None or _depth > 5:
            return unparse(e)
        root = e
        while isinstance(root, (ast.Attribute, ast.Subscript, ast.Call)):
            root = root.value if not isinstance(root, ast.Call) else root.func
        if isinstance(root, ast.Name):
            for sc in self._scope_chain(fn):
                ds = self.defs(sc.node).get(root.id)
                if ds:
                    if len(ds) == 1 and ds[0][0] == 'value' and isinstance(
                            ds[0][1], (ast.Attribute, ast.Subscript, ast.Name,
                                       ast.Call)) and root.id not in \
                            Q.params(sc.node):
                        base = self.canon(ds[0][1], sc, _depth + 1)
                        txt = unparse(e)
                        if txt == root.id:
                            return base
                        if txt.startswith(root.id):
                            return base + txt[len(root.id):]
                    break
        return unparse(e)

    # -- atoms ---------------------------------------------------------------
    def atoms(self, e, fn, bind=None, depth=0, _seen=None):
        """_seen is the stack of expressions under evaluation (cycle guard);
        results of binding-free evaluations are memoised."""
        _seen = _seen if _seen is not None else set()
        if e is None:
            return set()
        key = (id(e), fn.fq if fn else None)
        if key in _seen:
            return set()
        mkey = None
        if bind is None:
            mkey = (id(e), fn.fq if fn else None, depth)
            if mkey in self._memo and not _seen:
                return set(self._memo[mkey])
        _seen.add(key)
        try:
            out = self._atoms(e, fn, bind, depth, _seen)
        finally:
            _seen.discard(key)
        if mkey is not None and not _seen and not self._partial:
            self._memo[mkey] = frozenset(out)
        return out

    def _atoms(self, e, fn, bind, depth, _seen):
        out = set()
        A = lambda x: self.atoms(x, fn, bind, depth, _seen)  # noqa

        if isinstance(e, ast.Constant):
            return {'const:' + repr(e.value)}
        if isinstance(e, ast.Name):
            if bind and ('=' + e.id) in bind:
                # loop variable specialised to one row of a constant table
                return set(bind['=' + e.id])
            c = self._comp_binding(e, fn)
            if c is not None:
                it, idx = c
                return self.iter_atoms(it, idx, fn, bind, depth, _seen)
            return self._name_atoms(e.id, fn, bind, depth, _seen, e)
        if isinstance(e, ast.Subscript) and not isinstance(
                e.slice, (ast.Constant, ast.Slice)) and fn is not None:
            # T[k] with T a table of constants and k a run-time key: one of
            # the cells (the key selects, its text does not flow)
            cv = self._const_table_cells(e.value, fn)
            if cv is not None:
                return cv | {a for a in A(e.value)
                             if not a.startswith(('const:', 'key:'))}
        if isinstance(e, ast.Attribute) and fn is not None and depth <= \
                self.max_depth:
            nt = self._nt_field(e.value, e.attr, fn, bind, depth, _seen, 0)
            if nt is not None:
                return nt
        if isinstance(e, ast.Subscript) and isinstance(
                e.value, ast.Name) and isinstance(
                    e.slice, (ast.Attribute, ast.Constant)) and \
                fn is not None:
            # d[K] for a local bound once to a dict display that spells the
            # key K (an enum member or a constant): that cell
            ds = self.defs(fn.node).get(e.value.id) or []
            if len(ds) == 1 and ds[0][0] == 'value' and isinstance(
                    ds[0][1], ast.Dict) and e.value.id not in Q.params(
                        fn.node):
                kt = unparse(e.slice)
                for k, v in zip(ds[0][1].keys, ds[0][1].values):
                    if k is not None and unparse(k) == kt:
                        return A(v)
        if isinstance(e, (ast.Attribute, ast.Subscript)):
            if isinstance(e, ast.Subscript) and isinstance(
                    e.slice, ast.Constant) and isinstance(
                        e.slice.value, int) and e.slice.value >= 0 and \
                    isinstance(e.value, ast.Name) and fn is not None:
                # entry[1] for `for entry in zip(a, b, c)` / a table of rows
                c = self._comp_binding(e.value, fn)
                if c is not None and c[1] is None and isinstance(
                        c[0], ast.Call) and unparse(c[0].func) in (
                            'zip', 'enumerate'):
                    return self.iter_atoms(c[0], e.slice.value, fn, bind,
                                           depth, _seen)
            if isinstance(e, ast.Subscript) and isinstance(
                    e.slice, ast.Constant) and isinstance(
                        e.slice.value, int) and self._selectable(
                            e.value, fn, depth):
                el = self.elem_atoms(e.value, e.slice.value, fn, bind, depth,
                                     _seen)
                if el:
                    return el
            return self._chain_atoms(e, fn, bind, depth, _seen)
        if isinstance(e, ast.Call):
            return self._call_atoms(e, fn, bind, depth, _seen)
        if isinstance(e, ast.Slice):
            return A(e.lower) | A(e.upper) | A(e.step)
        if isinstance(e, (ast.List, ast.Tuple, ast.Set)):
            for x in e.elts:
                out |= A(x)
            if not e.elts and not isinstance(e, ast.Tuple):
                out.add(self._alloc(e, fn))
            return out
        if isinstance(e, ast.Dict):
            if not e.keys:
                out.add(self._alloc(e, fn))
            for k, v in zip(e.keys, e.values):
                out |= A(v)
                if k is not None and isinstance(k, ast.Constant):
                    out.add('key:' + repr(k.value))
            return out
        if isinstance(e, ast.BinOp):
            out = A(e.left) | A(e.right)
            # arithmetic with a small integer constant is kept as a marker
            # (x * 2 -> mul2(), x // 2 -> floordiv2(), x % 2 -> mod2())
            for c in (e.left, e.right):
                if isinstance(c, ast.Constant) and isinstance(
                        c.value, int) and not isinstance(c.value, bool):
                    nm = {ast.Mult: 'mul', ast.FloorDiv: 'floordiv',
                          ast.Mod: 'mod', ast.Add: 'add', ast.Sub: 'sub',
                          ast.RShift: 'rshift', ast.BitAnd: 'bitand'}.get(
                              type(e.op))
                    if nm and nm not in ('add', 'sub'):
                        out.add('{}{}()'.format(nm, c.value))
            return out
        if isinstance(e, ast.BoolOp):
            for v in e.values:
                out |= A(v)
            return out
        if isinstance(e, ast.IfExp):
            return A(e.body) | A(e.orelse)
        if isinstance(e, ast.UnaryOp):
            return A(e.operand)
        if isinstance(e, ast.Starred):
            return A(e.value)
        if isinstance(e, (ast.ListComp, ast.GeneratorExp, ast.SetComp)):
            out = A(e.elt)
            if any(g.ifs for g in e.generators):
                out.add('if()')     # some elements are filtered out
            if isinstance(e, (ast.ListComp, ast.SetComp)):
                out.add(self._alloc(e, fn))   # a fresh container
            return out
        if isinstance(e, ast.DictComp):
            out = A(e.value) | A(e.key)
            if any(g.ifs for g in e.generators):
                out.add('if()')
            return out
        if isinstance(e, ast.JoinedStr):
            for v in e.values:
                out |= A(v)
            return out
        if isinstance(e, ast.FormattedValue):
            return A(e.value)
        if isinstance(e, ast.Lambda):
            return A(e.body)
        if isinstance(e, ast.Await):
            return A(e.value)
        if isinstance(e, ast.Compare):
            out |= A(e.left)
            for c in e.comparators:
                out |= A(c)
            return out
        if isinstance(e, ast.NamedExpr):
            return A(e.value)
        return {unparse(e)}

    def _nt_fields(self, func, fn):
        """Field names when `func` names a module-level namedtuple class
        (`N = namedtuple('N', ['a', 'b'])`)."""
        if not isinstance(func, ast.Name):
            return None
        try:
            r = self.repo.resolve_symbol(fn.module.name, func.id)
        except Exception:
            return None
        if r is None or r[0] != 'value' or not isinstance(r[3], ast.Call):
            return None
        c = r[3]
        nm = c.func.attr if isinstance(c.func, ast.Attribute) else (
            c.func.id if isinstance(c.func, ast.Name) else '')
        if nm != 'namedtuple' or len(c.args) != 2:
            return None
        f = c.args[1]
        if isinstance(f, (ast.List, ast.Tuple)) and all(
                isinstance(x, ast.Constant) and isinstance(x.value, str)
                for x in f.elts):
            return [x.value for x in f.elts]
        if isinstance(f, ast.Constant) and isinstance(f.value, str):
            return f.value.replace(',', ' ').split()
        return None

    def _nt_field(self, x, attr, fn, bind, depth, _seen, _d):
        """Atoms of `x.attr` when x is a namedtuple record built by a
        constructor call here or in a helper (one return): the argument
        given for that field."""
        if _d > 3:
            return None
        if isinstance(x, ast.Name):
            if x.id in Q.params(fn.node):
                return None
            ds = self.defs(fn.node).get(x.id) or []
            if len(ds) != 1 or ds[0][0] != 'value':
                return None
            return self._nt_field(ds[0][1], attr, fn, bind, depth, _seen,
                                  _d + 1)
        if not isinstance(x, ast.Call):
            return None
        fields = self._nt_fields(x.func, fn)
        if fields is not None:
            if attr not in fields:
                return None
            arg = Q.kwarg(x, attr)
            i = fields.index(attr)
            if arg is None and i < len(x.args) and not any(
                    isinstance(a, ast.Starred) for a in x.args[:i + 1]):
                arg = x.args[i]
            if arg is None:
                return None
            return self.atoms(arg, fn, bind, depth, _seen)
        callee = self.resolve_call(x, fn)
        if callee is None or callee is fn:
            return None
        rets = self._returns(callee)
        if len(rets) != 1:
            return None
        b = self._bind_args(x, callee, fn, bind, depth, set())
        return self._nt_field(rets[0], attr, callee, b, depth + 1, _seen,
                              _d + 1)

    def _const_table_cells(self, t, fn):
        """{'const:..'} for every cell of a module-level or class-level
        literal dict / tuple / list whose cells are all constants (`t` names
        it as NAME, self.NAME or cls.NAME); None otherwise."""
        v = None
        try:
            if isinstance(t, ast.Attribute) and isinstance(
                    t.value, ast.Name) and t.value.id in ('self', 'cls'):
                ci = fn.cls
                if ci is None:
                    for sc in self._scope_chain(fn):
                        if sc.cls is not None:
                            ci = sc.cls
                            break
                if ci is not None:
                    owner, v = ci.find_attr(t.attr)
                    if v is not None and t.attr not in owner.attrs:
                        v = None
            elif isinstance(t, ast.Name) and not self._is_local(t.id, fn) \
                    and t.id not in Q.params(fn.node):
                r = self.repo.resolve_symbol(fn.module.name, t.id)
                if r is not None and r[0] == 'value':
                    v = r[3]
        except Exception:
            return None
        if isinstance(v, ast.Dict):
            cells = v.values
        elif isinstance(v, (ast.Tuple, ast.List)):
            cells = v.elts
        else:
            return None
        if not cells or not all(isinstance(c, ast.Constant) for c in cells):
            return None
        return {'const:' + repr(c.value) for c in cells}

    def _alloc(self, node, fn):
        """Identity of a fresh empty container (so that `x = []; f(x);
        g(x)` shows the same object reaching f and g). The ordinal is only
        meaningful within one run."""
        key = id(node)
        if key not in self._allocs:
            self._allocs[key] = 'alloc:{}#{}'.format(
                fn.qualname if fn else '<module>', len(self._allocs))
        return self._allocs[key]

    def _comp_binding(self, name_node, fn):
        """(iter expr, tuple index or None) when the name is the target of an
        enclosing comprehension (comprehension variables have their own
        scope; a loop variable of the same name elsewhere is unrelated)."""
        n = name_node
        stop = fn.node if fn is not None else None
        while True:
            p = getattr(n, '_parent', None)
            if p is None or p is stop:
                return None
            if isinstance(p, (ast.ListComp, ast.GeneratorExp, ast.SetComp,
                              ast.DictComp)):
                for g in p.generators:
                    if n is g.iter and g is p.generators[0]:
                        break
                    r = self._target_index(g.target, name_node.id)
                    if r is not None:
                        return g.iter, (None if r == () else r[0])
            if isinstance(p, (ast.For, ast.AsyncFor)) and any(
                    n is x for x in p.body):
                r = self._target_index(p.target, name_node.id)
                if r is not None and (not self._rebound_in(
                        p.body, name_node.id) or self._before_rebinding(
                            p.body, name_node)):
                    return p.iter, (None if r == () else r[0])
            if isinstance(p, (ast.FunctionDef, ast.AsyncFunctionDef,
                              ast.Lambda)):
                return None
            n = p

    def _before_rebinding(self, body, use):
        """The loop variable is re-assigned in the body, but this use comes
        first: it is lexically before the first re-assignment, or inside
        its right-hand side (`x = f(x)`), outside any nested loop."""
        stores = [x for st in body for x in ast.walk(st)
                  if isinstance(x, ast.Name) and x.id == use.id and
                  isinstance(x.ctx, (ast.Store, ast.Del))]
        if not stores:
            return True
        first = min(stores, key=lambda x: (x.lineno, x.col_offset))
        st = first
        while st is not None and not isinstance(st, ast.stmt):
            st = getattr(st, '_parent', None)
        n = use
        while n is not None and n not in body:
            n = getattr(n, '_parent', None)
            if isinstance(n, (ast.For, ast.While)) and n not in body and \
                    any(n is y for b_ in body for y in ast.walk(b_)):
                return False
        if st is None:
            return False
        if isinstance(st, (ast.Assign, ast.AnnAssign, ast.AugAssign)) and \
                st.value is not None and any(
                    x is use for x in ast.walk(st.value)):
            return not isinstance(st, ast.AugAssign)
        return (use.lineno, use.col_offset) < (st.lineno, st.col_offset)

    def _rebound_in(self, body, name):
        for st in body:
            for x in ast.walk(st):
                if isinstance(x, ast.Name) and x.id == name and isinstance(
                        x.ctx, (ast.Store, ast.Del)):
                    return True
        return False

    def _target_index(self, t, name):
        if isinstance(t, ast.Name):
            return () if t.id == name else None
        if isinstance(t, (ast.Tuple, ast.List)):
            for i, x in enumerate(t.elts):
                r = self._target_index(x, name)
                if r is not None:
                    return (i,) + r
        if isinstance(t, ast.Starred):
            return self._target_index(t.value, name)
        return None

    def _chain_atoms(self, e, fn, bind, depth, _seen):
        """Atoms of an attribute/subscript chain: the chain's suffix appended
        to every atom of its root (so `d = outs.host; d.path` and
        `outs.host.path` give the same atom), plus the root's own atoms (a
        flow through part of an object is a flow from the object)."""
        suffix = []
        multi = None
        root = e
        while isinstance(root, (ast.Attribute, ast.Subscript)):
            if isinstance(root, ast.Attribute):
                suffix.append('.' + root.attr)
            else:
                kt = self._key_text(root.slice, fn)
                if kt:
                    suffix.append('[' + kt + ']')
                else:
                    ks = self.const_keys(root.slice, fn, bind, _seen)
                    if ks is not None and len(ks) <= 8 and multi is None:
                        multi = (len(suffix), ks)
                        suffix.append(None)
                # other computed keys: element access is transparent
            root = root.value
        if multi is not None:
            pos, ks = multi
            sufs = []
            for kk in ks:
                s2 = list(suffix)
                s2[pos] = '[' + repr(kk) + ']'
                sufs.append(''.join(reversed(s2)))
        else:
            sufs = [''.join(reversed(suffix))]
        suf = sufs[0]
        out = set()
        # a value selected by a computed key depends on the key
        r_ = e
        while isinstance(r_, (ast.Attribute, ast.Subscript)):
            if isinstance(r_, ast.Subscript) and not isinstance(
                    r_.slice, ast.Constant):
                out |= {a if a.startswith('via:') else 'via:' + a
                        for a in self.atoms(r_.slice, fn, bind, depth,
                                            _seen)
                        if not a.startswith(('const:', 'key:'))}
            r_ = r_.value
        if isinstance(root, ast.Name) and fn is not None and not \
                self._is_local(root.id, fn):
            # global / imported name: canonical text as is
            for sf in sufs:
                out.add(root.id + sf)
            r = self.repo.resolve_expr(fn.module, e, self.repo.local_scope(
                fn)) if isinstance(e, ast.Attribute) else None
            if r is not None and r[0] == 'value' and r[3] is not None and \
                    depth < self.max_depth:
                out |= self.atoms(r[3], None, None, depth + 1, _seen)
            return out
        if isinstance(root, ast.Call):
            # attributes of a call result: of the call itself (opaque), of
            # what a repository callee returns, or of the arguments of a
            # transparent wrapper -- not of every argument flowing in
            fname = unparse(root.func)
            texts = self._call_texts(root, fn, bind, depth, _seen)
            if fname in TRANSPARENT or (
                    isinstance(root.func, ast.Attribute) and
                    root.func.attr in TRANSPARENT_METHODS and
                    self.resolve_call(root, fn) is None):
                roots = self.atoms(root, fn, bind, depth, _seen)
            elif self.resolve_call(root, fn) is not None:
                roots = self.atoms(root, fn, bind, depth, _seen) | texts
            else:
                roots = texts
        else:
            roots = None
            if isinstance(root, ast.Name) and fn is not None:
                # innermost accessor applied to the root
                first = e
                while isinstance(first.value, (ast.Attribute,
                                               ast.Subscript)):
                    first = first.value
                if isinstance(first, ast.Attribute) and root.id == 'self' \
                        and bind and ('.' + first.attr) in bind:
                    # a field of the instance the method is analysed for
                    # (set by its constructor from known arguments)
                    rest = self._suffix_after(e, first, fn, bind, _seen)
                    for a in bind['.' + first.attr]:
                        if a.startswith(('const:', 'key:')):
                            if not rest:
                                out.add(a)
                            continue
                        if a.startswith(('alloc:', 'via:')) or not rest:
                            out.add(a)
                        else:
                            out.add((a[6:] if a.startswith('param:')
                                     else a) + rest)
                    return out
                if isinstance(first, ast.Attribute) and root.id in (
                        'self', 'cls'):
                    prop = self._property(first.attr, fn)
                    if prop is not None and prop is not fn and \
                            depth < self.max_depth:
                        rest = self._suffix_after(e, first, fn, bind, _seen)
                        for r_ in self._returns(prop):
                            for a in self.atoms(r_, prop, None, depth + 1,
                                                _seen):
                                if a.startswith(('const:', 'key:')):
                                    continue
                                if a.startswith(('alloc:', 'via:')) or \
                                        not rest:
                                    out.add(a)
                                else:
                                    out.add((a[6:] if a.startswith('param:')
                                             else a) + rest)
                        return out
                if isinstance(first, ast.Attribute) and root.id in (
                        'self', 'cls') and depth < self.max_depth:
                    # a class-level table (X = {...} / dict(...) in the
                    # class body): what it holds, besides the path itself
                    ci = fn.cls
                    if ci is None:
                        for sc in self._scope_chain(fn):
                            if sc.cls is not None:
                                ci = sc.cls
                                break
                    if ci is not None:
                        owner, v = ci.find_attr(first.attr)
                        if v is not None and isinstance(
                                v, (ast.Dict, ast.Call, ast.List, ast.Tuple,
                                    ast.DictComp, ast.ListComp)) and \
                                first.attr in owner.attrs:
                            out |= {a if a.startswith(('via:', 'const:',
                                                       'key:', 'alloc:'))
                                    else 'via:' + a
                                    for a in self.atoms(v, None, None,
                                                        depth + 1, _seen)
                                    if not a.startswith(('const:', 'key:'))}
                if isinstance(first, ast.Subscript):
                    lf = self._local_field(root.id, first.slice, fn, bind,
                                           depth, _seen)
                    if lf is not None:
                        roots, stored = lf
                        # values stored under this key: the remaining
                        # accessors apply to them, the subscript itself
                        # does not
                        rest = self._suffix_after(e, first, fn, bind, _seen)
                        for r in stored:
                            if r.startswith(('const:', 'key:')):
                                continue
                            if r.startswith(('alloc:', 'via:')) or not rest:
                                out.add(r)
                            else:
                                out.add((r[6:] if r.startswith('param:')
                                         else r) + rest)
            if roots is None:
                roots = self.atoms(root, fn, bind, depth, _seen)
        for r in roots:
            if r.startswith(('const:', 'key:')):
                continue
            if r.startswith(('alloc:', 'via:')):
                out.add(r)
                continue
            base = r[6:] if r.startswith('param:') else r
            for sf in sufs:
                if sf and base.endswith(sf):
                    # x = x.attr / x = x.method(...) re-applied by the
                    # fixpoint: keep one application
                    out.add(base)
                else:
                    out.add(base + sf if sf else r)
        if not out:
            out.add(unparse(e))
        return out

    def _property(self, attr, fn):
        ci = fn.cls
        if ci is None:
            for sc in self._scope_chain(fn):
                if sc.cls is not None:
                    ci = sc.cls
                    break
        if ci is None:
            return None
        o, meth = ci.find_method(attr)
        if meth is None:
            return None
        for d in meth.decorator_list:
            if unparse(d) in ('property', 'functools.cached_property',
                              'cached_property'):
                return meth._func
        return None

    def _suffix_after(self, e, first, fn, bind, _seen):
        parts = []
        n = e
        while n is not first:
            if isinstance(n, ast.Attribute):
                parts.append('.' + n.attr)
            else:
                kt = self._key_text(n.slice, fn)
                if kt:
                    parts.append('[' + kt + ']')
            n = n.value
        return ''.join(reversed(parts))

    def _key_text(self, k, fn):
        if isinstance(k, ast.Constant):
            return repr(k.value)
        if isinstance(k, ast.UnaryOp) and isinstance(k.op, ast.USub) and \
                isinstance(k.operand, ast.Constant) and isinstance(
                    k.operand.value, int):
            return repr(-k.operand.value)
        if isinstance(k, ast.Attribute):
            r = k
            while isinstance(r, ast.Attribute):
                r = r.value
            if isinstance(r, ast.Name) and (fn is None or not
                                            self._is_local(r.id, fn)):
                return unparse(k)      # a named constant (enum member)
        return ''

    def _is_local(self, name, fn):
        for sc in self._scope_chain(fn):
            if name in Q.params(sc.node) or name in self.defs(sc.node):
                return True
        return False

    def _bkey(self, bind):
        if bind is None:
            return None
        return frozenset((k, frozenset(v)) for k, v in bind.items()
                         if not k.startswith('#'))

    def _locals_table(self, sc, bind, depth):
        """name -> atoms for every local of function `sc` (under a binding
        of its parameters), computed as a least fixpoint over its
        definitions, so mutually dependent locals (d[k] = f(d[j])) cost one
        table instead of an exponential recursion."""
        key = (sc.fq, self._bkey(bind), depth)
        t = self._tables.get(key)
        if t is not None:
            return t
        t = self._partial.get(key)
        if t is not None:
            return t                      # in progress: current estimate
        ds_all = self.defs(sc.node)
        table = {name: set() for name in ds_all}
        plain = {name: set() for name in ds_all}
        items = {name: {} for name in ds_all}
        table['#plain'] = plain
        table['#items'] = items
        self._partial[key] = table
        try:
            for _round in range(6):
                changed = False
                for name, ds in ds_all.items():
                    new = set()
                    for kind, expr, idx in ds:
                        sn = set()
                        if kind == 'item':
                            v = self.atoms(expr, sc, bind, depth, sn)
                            items[name].setdefault(id(idx), (idx, set()))[
                                1].update(v)
                            new |= v
                            continue
                        before = set(new)
                        if kind in ('value', 'seq'):
                            new |= self.atoms(expr, sc, bind, depth, sn)
                        elif kind == 'index':
                            new |= self.elem_atoms(expr, idx, sc, bind,
                                                   depth, sn)
                        elif kind == 'elem':
                            new |= self.iter_atoms(expr, None, sc, bind,
                                                   depth, sn)
                        elif kind == 'elemindex':
                            new |= self.iter_atoms(expr, idx, sc, bind,
                                                   depth, sn)
                    if not new <= table[name]:
                        add = new - table[name]
                        if _round and table[name]:
                            add = self._widen(table[name], add)
                        if add:
                            table[name] |= add
                            changed = True
                    pl = set()
                    for kind, expr, idx in ds:
                        if kind != 'item':
                            pl = None
                            break
                    if pl is None:
                        # atoms from non-item definitions
                        it_all = set()
                        for _i, (_k, vs) in items[name].items():
                            it_all |= vs
                        plain[name] = self._plain_atoms(
                            ds, sc, bind, depth)
                if not changed:
                    break
        finally:
            del self._partial[key]
        self._tables[key] = table
        return table

    @staticmethod
    def _widen(have, add):
        """Widening of the fixpoint: an access path that extends a path the
        variable already has by accessors that path already contains
        (`s.string.replace(..).string` over `s.string.replace(..)`) is a
        re-application of a self-referential definition (`s, q = f(s)`):
        it is dropped, which keeps the set of paths finite."""
        from .facts import components
        out = set()
        comps = {}
        for o in have:
            if o.startswith(('const:', 'key:', 'alloc:')):
                continue
            comps[o] = set(components(o)[1:])
        for n in add:
            drop = False
            if not n.startswith(('const:', 'key:', 'alloc:')):
                for o, cs in comps.items():
                    if cs and len(n) > len(o) and n.startswith(o) and \
                            n[len(o)] in '.[(':
                        rest = components('x' + n[len(o):])[1:]
                        if rest and all(r in cs for r in rest):
                            drop = True
                            break
            if not drop:
                out.add(n)
        return out

    def _plain_atoms(self, ds, sc, bind, depth):
        out = set()
        for kind, expr, idx in ds:
            sn = set()
            if kind in ('value', 'seq'):
                out |= self.atoms(expr, sc, bind, depth, sn)
            elif kind == 'index':
                out |= self.elem_atoms(expr, idx, sc, bind, depth, sn)
            elif kind == 'elem':
                out |= self.iter_atoms(expr, None, sc, bind, depth, sn)
            elif kind == 'elemindex':
                out |= self.iter_atoms(expr, idx, sc, bind, depth, sn)
        return out

    def _local_field(self, name, key_expr, fn, bind, depth, _seen):
        """For `name[key]` where name is a local filled by item stores:
        (atoms of the non-item definitions, atoms stored under a key that
        may equal `key`). None when name has no item stores."""
        for sc in self._scope_chain(fn):
            ds = self.defs(sc.node).get(name)
            if not ds:
                if name in Q.params(sc.node):
                    return None
                continue
            if not any(k == 'item' for k, e, i in ds):
                return None
            b = bind if sc is fn else None
            t = self._locals_table(sc, b, depth)
            want = self.const_keys(key_expr, fn, bind, _seen)
            stored = set()
            for _i, (kx, vs) in t['#items'].get(name, {}).items():
                have = self.const_keys(kx, sc, b, _seen)
                if want is None or have is None or set(want) & set(have):
                    stored |= vs
            pl = set(t['#plain'].get(name, set()))
            if name in Q.params(sc.node):
                if sc is fn and bind is not None and name in bind:
                    pl |= bind[name]
                else:
                    pl.add('param:' + name)
            return pl, stored
        return None

    def _func_value(self, name, fn):
        """FuncInfo when `name` denotes a function (nested def of an
        enclosing scope, or a module-level function of the repository)."""
        for sc in self._scope_chain(fn):
            if name in Q.params(sc.node) or name in self.defs(sc.node):
                return None
            nd = self._nested.get(id(sc.node))
            if nd is None:
                nd = {}
                for n in walk_no_nested(sc.node):
                    if isinstance(n, (ast.FunctionDef,
                                      ast.AsyncFunctionDef)) and getattr(
                                          n, '_func', None):
                        nd[n.name] = n._func
                self._nested[id(sc.node)] = nd
            if name in nd:
                return nd[name]
        key = (fn.module.name, name)
        if key not in self._modfunc:
            try:
                r = self.repo.resolve_symbol(fn.module.name, name)
            except Exception:
                r = None
            self._modfunc[key] = r[1] if r is not None and r[0] == 'func' \
                else None
        return self._modfunc[key]

    def _param_still_original(self, use, fn):
        """A parameter that is re-assigned later in the function still holds
        the caller's value at this use: every re-assignment comes lexically
        after it and no loop encloses both."""
        name = use.id
        cache = self.__dict__.setdefault('_pso', {})
        key = (id(fn.node), name)
        if key not in cache:
            stores, bad = [], False
            for x in walk_no_nested(fn.node):
                if isinstance(x, ast.Name) and x.id == name and isinstance(
                        x.ctx, (ast.Store, ast.Del)):
                    stores.append(x)
                elif isinstance(x, ast.Call) and isinstance(
                        x.func, ast.Attribute) and isinstance(
                            x.func.value, ast.Name) and \
                        x.func.value.id == name and \
                        x.func.attr in MUTATORS_ELEM | MUTATORS_SEQ:
                    bad = True
                elif isinstance(x, ast.Subscript) and isinstance(
                        x.ctx, ast.Store) and isinstance(
                            x.value, ast.Name) and x.value.id == name:
                    bad = True
            cache[key] = (stores, bad)
        stores, bad = cache[key]
        if not stores or bad:
            return False
        pos = (use.lineno, use.col_offset)
        for st in stores:
            stmt = st
            while stmt is not None and not isinstance(stmt, ast.stmt):
                stmt = getattr(stmt, '_parent', None)
            if stmt is None or (stmt.lineno, stmt.col_offset) <= pos:
                # in the right-hand side of the re-assignment itself
                if stmt is not None and isinstance(
                        stmt, (ast.Assign, ast.AnnAssign)) and \
                        stmt.value is not None and any(
                            x is use for x in ast.walk(stmt.value)):
                    continue
                return False
            n = stmt
            while n is not None and n is not fn.node:
                n = getattr(n, '_parent', None)
                if isinstance(n, (ast.For, ast.While, ast.AsyncFor)) and any(
                        x is use for x in ast.walk(n)):
                    return False
        return True

    def _name_atoms(self, name, fn, bind, depth, _seen, node=None):
        out = set()
        if fn is None:
            return {name}
        if node is not None and name in Q.params(fn.node) and self.defs(
                fn.node).get(name) and self._param_still_original(node, fn):
            if bind is not None and name in bind:
                return set(bind[name])
            return {'param:' + name}
        fv = self._func_value(name, fn)
        if fv is not None:
            # a function used as a value stands for what it returns (like a
            # lambda), plus its name
            out.add(fv.qualname)
            if depth < self.max_depth:
                for r in self._returns(fv):
                    out |= self.atoms(r, fv, None, depth + 1, _seen)
            return out
        for sc in self._scope_chain(fn):
            ds = self.defs(sc.node).get(name, [])
            is_param = name in Q.params(sc.node)
            if not ds and not is_param:
                continue
            b = bind if sc is fn else None
            if ds and sc is fn and node is not None and len(ds) >= 2 and \
                    not is_param:
                rd = self._reaching_values(name, ds, fn, node)
                if rd is not None:
                    for expr in rd:
                        out |= self.atoms(expr, fn, bind, depth, _seen)
                    return out
            if ds:
                out |= self._locals_table(sc, b, depth).get(name, set())
            if is_param:
                if sc is fn and bind is not None and name in bind:
                    out |= bind[name]
                else:
                    out.add('param:' + name)
            return out
        # not a local: module level
        mod = fn.module
        r = self.repo.resolve_symbol(mod.name, name)
        if r is not None and r[0] == 'value' and r[3] is not None and \
                depth < self.max_depth:
            sub = self.atoms(r[3], None, None, depth + 1, _seen)
            if not isinstance(r[3], ast.Constant):
                # a named constant computed from other constants
                # (`_reserved = _long + 'x-'`): its folded value
                try:
                    from .consteval import const_eval
                    v = const_eval(self.repo, r[1], r[3])
                except Exception:
                    v = None
                if isinstance(v, (str, int)) and not isinstance(v, bool):
                    sub = sub | {'const:' + repr(v)}
            return sub | {name}
        return {name}

    def _reaching_values(self, name, ds, fn, use):
        """For a local bound only by plain assignments `name = expr`: the
        value expressions of the assignments that can reach this use (a
        proper subset of all of them), else None (no refinement)."""
        if any(kind != 'value' for kind, expr, idx in ds):
            return None
        sts = []
        for kind, expr, idx in ds:
            st = getattr(expr, '_parent', None)
            if not isinstance(st, ast.Assign) or st.value is not expr or \
                    len(st.targets) != 1 or not isinstance(
                        st.targets[0], ast.Name):
                return None
            sts.append((st, expr))
        g = self._cfgs.get(fn.fq) if hasattr(self, '_cfgs') else None
        if not hasattr(self, '_cfgs'):
            self._cfgs = {}
        if g is None:
            try:
                g = self._cfgs[fn.fq] = build_cfg(fn.node)
            except Exception:
                self._cfgs[fn.fq] = False
                return None
        if g is False:
            return None
        try:
            u = g.stmt_of(use)
        except Exception:
            return None
        out = []
        allst = [st for st, e in sts]
        for st, expr in sts:
            if st is u:
                continue
            try:
                if g.reaches(st, u, avoiding=[x for x in allst
                                              if x is not st]):
                    out.append(expr)
            except Exception:
                return None
        if not out or len(out) == len(sts):
            return None
        return out

    def _selectable(self, e, fn, depth):
        """Can position idx of `e` be selected statically (a tuple/list
        display, possibly through one local or a repository callee)?"""
        if isinstance(e, (ast.Tuple, ast.List)):
            return True
        if isinstance(e, ast.Call) and fn is not None:
            return self.resolve_call(e, fn) is not None
        if isinstance(e, ast.Name) and fn is not None:
            for sc in self._scope_chain(fn):
                ds = self.defs(sc.node).get(e.id)
                if ds:
                    return all(k == 'value' and isinstance(
                        x, (ast.Tuple, ast.List, ast.Call))
                        for k, x, i in ds)
        return False

    def elem_atoms(self, e, idx, fn, bind, depth, _seen):
        """Atoms of element `idx` of a tuple-valued expression."""
        if isinstance(e, (ast.Tuple, ast.List)) and idx is not None and \
                idx < len(e.elts) and not any(
                    isinstance(x, ast.Starred) for x in e.elts):
            return self.atoms(e.elts[idx], fn, bind, depth, _seen)
        if isinstance(e, ast.Call):
            callee = self.resolve_call(e, fn)
            if callee is not None and depth < self.max_depth:
                out = set()
                b = self._bind_args(e, callee, fn, bind, depth, _seen)
                for r in self._returns(callee):
                    out |= self.elem_atoms(r, idx, callee, b, depth + 1,
                                           _seen)
                if out:
                    out.add(callee.qualname + '(' + self._arg_text(e) + ')')
                    return out
        if isinstance(e, ast.IfExp):
            return self.elem_atoms(e.body, idx, fn, bind, depth, _seen) | \
                self.elem_atoms(e.orelse, idx, fn, bind, depth, _seen)
        return self.atoms(e, fn, bind, depth, _seen)

    def iter_atoms(self, it, idx, fn, bind, depth, _seen):
        """Atoms of the elements (or of position idx of the elements) of an
        iterable expression."""
        if isinstance(it, (ast.Tuple, ast.List)):
            out = set()
            for row in it.elts:
                if idx is None:
                    out |= self.atoms(row, fn, bind, depth, _seen)
                else:
                    out |= self.elem_atoms(row, idx, fn, bind, depth, _seen)
            return out
        if isinstance(it, ast.Call):
            fname = unparse(it.func)
            if fname == 'enumerate' and it.args:
                if idx == 0:
                    return {'index'}
                return self.atoms(it.args[0], fn, bind, depth, _seen)
            if fname == 'zip' and idx is not None and idx < len(it.args):
                return self.atoms(it.args[idx], fn, bind, depth, _seen)
            if isinstance(it.func, ast.Attribute) and it.func.attr == \
                    'items':
                return self.atoms(it.func.value, fn, bind, depth, _seen)
        if isinstance(it, ast.Name) and fn is not None:
            # a local table of tuples
            for sc in self._scope_chain(fn):
                ds = self.defs(sc.node).get(it.id)
                if ds and idx is not None and all(
                        k == 'value' and isinstance(x, (ast.Tuple, ast.List))
                        for k, x, i in ds):
                    out = set()
                    for k, x, i in ds:
                        out |= self.iter_atoms(
                            x, idx, sc, bind if sc is fn else None, depth,
                            _seen)
                    return out
                if ds:
                    break
        return self.atoms(it, fn, bind, depth, _seen)

    # -- records (dict-shaped values) ---------------------------------------
    def const_keys(self, k, fn, bind=None, _seen=None, partial=False):
        """Constant values a key expression can take (a literal, or a loop
        variable over a literal tuple); None when unknown."""
        if isinstance(k, ast.Constant):
            return [k.value]
        if isinstance(k, ast.Attribute) and isinstance(k.value, ast.Name) \
                and k.attr in ('name', 'value') and fn is not None:
            return None
        if isinstance(k, ast.BinOp) and isinstance(k.op, ast.Add):
            l = self.const_keys(k.left, fn, bind, _seen, partial)
            r = self.const_keys(k.right, fn, bind, _seen, partial)
            if l is not None and r is not None and len(l) * len(r) <= 16 \
                    and all(isinstance(x, str) for x in l + r):
                return [a + b for a in l for b in r]
            return None
        if isinstance(k, ast.Name) and fn is not None and not (
                bind and ('=' + k.id) in bind):
            c = self._comp_binding(k, fn)
            if c is not None:
                rows = self.const_rows(c[0], fn, bind)
                if rows is None:
                    # a table with other cells too: this column only
                    tr = self.table_rows(c[0], fn, bind)
                    if tr is not None:
                        cells = []
                        for row in tr[0]:
                            cell = row
                            if c[1] is not None:
                                cell = row.elts[c[1]] if isinstance(
                                    row, (ast.Tuple, ast.List)) and c[1] < \
                                    len(row.elts) else None
                            if not isinstance(cell, ast.Constant):
                                if partial:
                                    continue   # only the named entries
                                cells = None
                                break
                            cells.append(cell.value)
                        if cells is not None:
                            rows = [(None,) * c[1] + (v,) if c[1] is not None
                                    else v for v in cells]
                if rows is not None:
                    try:
                        vals = [row if c[1] is None else row[c[1]]
                                for row in rows]
                    except (TypeError, IndexError):
                        vals = None
                    if vals is not None and all(isinstance(
                            v, (str, int)) for v in vals):
                        out = []
                        for v in vals:
                            if v not in out:
                                out.append(v)
                        return out
        if isinstance(k, ast.Name) and fn is not None:
            a = self.atoms(k, fn, bind, 0, _seen)
            if a and all(x.startswith('const:') for x in a):
                import ast as _a
                try:
                    return [_a.literal_eval(x[6:]) for x in sorted(a)]
                except Exception:
                    return None
        return None

    def const_rows(self, it, fn, bind=None, _d=0):
        """The rows of a constant table an iterable expression denotes: a
        tuple/list display of constants or of tuples of constants, reached
        directly, through a single-definition local, a module-level name, a
        list()/tuple() copy, or a comprehension that passes its rows
        through (possibly filtering them). None when it is not one."""
        if _d > 4 or it is None:
            return None
        if isinstance(it, (ast.Tuple, ast.List)):
            rows = []
            for x in it.elts:
                if isinstance(x, ast.Constant):
                    rows.append(x.value)
                elif isinstance(x, (ast.Tuple, ast.List)) and all(
                        isinstance(y, ast.Constant) for y in x.elts):
                    rows.append(tuple(y.value for y in x.elts))
                else:
                    return None
            return rows if 0 < len(rows) <= 24 else None
        if isinstance(it, ast.Call) and isinstance(it.func, ast.Name) and \
                it.func.id in ('list', 'tuple') and len(it.args) == 1 and \
                not it.keywords:
            return self.const_rows(it.args[0], fn, bind, _d + 1)
        if isinstance(it, (ast.ListComp, ast.GeneratorExp)) and len(
                it.generators) == 1:
            g = it.generators[0]
            if unparse(it.elt).replace('(', '').replace(')', '') == \
                    unparse(g.target).replace('(', '').replace(')', ''):
                return self.const_rows(g.iter, fn, bind, _d + 1)
            return None
        if isinstance(it, ast.Call) and fn is not None:
            # a helper that returns (a filtered copy of) a table
            callee = self.resolve_call(it, fn)
            if callee is not None:
                rets = self._returns(callee)
                if len(rets) == 1:
                    b = self._bind_args(it, callee, fn, bind, 0, set())
                    return self.const_rows(rets[0], callee, b, _d + 1)
            return None
        if isinstance(it, ast.Attribute) and isinstance(
                it.value, ast.Name) and it.value.id in ('self', 'cls') and \
                fn is not None:
            ci = fn.cls
            if ci is None:
                for sc in self._scope_chain(fn):
                    if sc.cls is not None:
                        ci = sc.cls
                        break
            if ci is not None:
                owner, v = ci.find_attr(it.attr)
                if v is not None and it.attr in owner.attrs:
                    return self.const_rows(v, None, None, _d + 1)
            return None
        if isinstance(it, ast.Name):
            if fn is not None and it.id in Q.params(fn.node) and \
                    not self.defs(fn.node).get(it.id):
                # a table handed in by the caller
                pe = self.param_expr(it.id, fn, bind)
                if pe is not None:
                    return self.const_rows(pe[0], pe[1], pe[2], _d + 1)
                return None
            if fn is not None and self._is_local(it.id, fn):
                for sc in self._scope_chain(fn):
                    ds = self.defs(sc.node).get(it.id)
                    if ds:
                        if len(ds) == 1 and ds[0][0] == 'value' and \
                                it.id not in Q.params(sc.node):
                            return self.const_rows(ds[0][1], sc, bind,
                                                   _d + 1)
                        return None
                return None
            mod = fn.module if fn is not None else None
            if mod is None:
                return None
            try:
                r = self.repo.resolve_symbol(mod.name, it.id)
            except Exception:
                r = None
            if r is not None and r[0] == 'value' and r[3] is not None:
                return self.const_rows(r[3], None, None, _d + 1)
        return None

    def table_rows(self, it, fn, bind=None, _d=0):
        """Like const_rows for tables whose cells need not be constants:
        ([row], scope fn, scope bind) with each row an AST element (or a
        tuple display of elements); None when `it` is not a literal table
        of at most 8 rows (reached directly or through single-definition
        locals / module or class level names)."""
        if _d > 4 or it is None:
            return None
        if isinstance(it, (ast.Tuple, ast.List)):
            if 0 < len(it.elts) <= 24 and not any(
                    isinstance(x, ast.Starred) for x in it.elts):
                return list(it.elts), fn, bind
            return None
        if isinstance(it, ast.Name):
            if fn is not None and it.id in Q.params(fn.node) and \
                    not self.defs(fn.node).get(it.id):
                pe = self.param_expr(it.id, fn, bind)
                if pe is not None:
                    return self.table_rows(pe[0], pe[1], pe[2], _d + 1)
                return None
            if fn is not None and self._is_local(it.id, fn):
                for sc in self._scope_chain(fn):
                    ds = self.defs(sc.node).get(it.id)
                    if ds:
                        if len(ds) == 1 and ds[0][0] == 'value' and \
                                it.id not in Q.params(sc.node):
                            return self.table_rows(
                                ds[0][1], sc, bind if sc is fn else None,
                                _d + 1)
                        return None
                return None
            if fn is None:
                return None
            try:
                r = self.repo.resolve_symbol(fn.module.name, it.id)
            except Exception:
                r = None
            if r is not None and r[0] == 'value' and r[3] is not None:
                return self.table_rows(r[3], None, None, _d + 1)
            return None
        if isinstance(it, ast.Attribute) and isinstance(
                it.value, ast.Name) and it.value.id in ('self', 'cls') and \
                fn is not None:
            ci = fn.cls
            if ci is None:
                for sc in self._scope_chain(fn):
                    if sc.cls is not None:
                        ci = sc.cls
                        break
            if ci is not None:
                owner, v = ci.find_attr(it.attr)
                if v is not None and it.attr in owner.attrs:
                    return self.table_rows(v, None, None, _d + 1)
        return None

    def loop_binds(self, loop, fn, bind=None):
        """[{'=name': atoms}] -- one binding of the loop variables per row
        of the literal table the loop iterates (constants as `const:`
        atoms, other cells as the atoms of the cell expression); None when
        the iterable is not such a table."""
        tr = self.table_rows(loop.iter, fn, bind)
        if tr is None:
            rows = self.const_rows(loop.iter, fn, bind)
            if rows is None:
                return None
            lr = self.loop_rows(loop, fn, bind)
            if lr is None:
                return None
            return [{'=' + k: {'const:' + repr(v)} for k, v in row.items()}
                    for row in lr]
        rows, sfn, sbind = tr
        t = loop.target
        out = []

        def cell(x):
            if isinstance(x, ast.Constant):
                return {'const:' + repr(x.value)}
            return set(self.atoms(x, sfn, sbind))
        for row in rows:
            if isinstance(t, ast.Name):
                if isinstance(row, (ast.Tuple, ast.List)):
                    return None
                out.append({'=' + t.id: cell(row)})
            elif isinstance(t, (ast.Tuple, ast.List)) and isinstance(
                    row, (ast.Tuple, ast.List)) and len(row.elts) == len(
                        t.elts) and all(isinstance(x, ast.Name)
                                        for x in t.elts):
                out.append({'=' + x.id: cell(v)
                            for x, v in zip(t.elts, row.elts)})
            else:
                return None
        # worth unrolling only when some loop variable takes constants
        if not any(a.startswith('const:') for b in out for v in b.values()
                   for a in v):
            return None
        return out

    def loop_rows(self, loop, fn, bind=None):
        """[{name: constant}] for a `for` loop over a constant table (one
        dict per row, keyed by the target names); None otherwise."""
        rows = self.const_rows(loop.iter, fn, bind)
        if rows is None:
            return None
        t = loop.target
        out = []
        for row in rows:
            if isinstance(t, ast.Name):
                out.append({t.id: row})
            elif isinstance(t, (ast.Tuple, ast.List)) and isinstance(
                    row, tuple) and len(row) == len(t.elts) and all(
                        isinstance(x, ast.Name) for x in t.elts):
                out.append({x.id: v for x, v in zip(t.elts, row)})
            else:
                return None
        return out

    def _getattr_paths(self, e, fn, bind, depth, _seen):
        """Access paths of getattr(obj, <name(s) known statically>)."""
        if not (isinstance(e, ast.Call) and isinstance(e.func, ast.Name) and
                e.func.id == 'getattr' and len(e.args) >= 2):
            return None
        ks = self.const_keys(e.args[1], fn, bind, _seen)
        if not ks or len(ks) > 24 or not all(isinstance(k, str) for k in ks):
            return None
        out = set()
        for r in self.atoms(e.args[0], fn, bind, depth, _seen):
            if r.startswith(('const:', 'key:', 'alloc:', 'via:')):
                continue
            base = r[6:] if r.startswith('param:') else r
            for k in ks:
                out.add(base + '.' + k)
        return out

    def record(self, e, fn, bind=None, depth=0, _seen=None):
        """{key: [(value expr, fn, bind)]} for a dict-shaped expression --
        a dict display, dict(...), a local built up by `d[k] = v` /
        d.update(...), a conditional of those, or a repository function
        returning one. Keys that are not constants are collected under
        '*'. Returns None when `e` is not dict-shaped."""
        _seen = _seen if _seen is not None else set()
        key = (id(e), fn.fq if fn else None)
        if key in _seen or depth > self.max_depth:
            return None
        _seen = _seen | {key}
        out = _Rec()

        def put(k, v, f, b):
            out.setdefault(k, []).append((v, f, b))

        def merge(r):
            if r:
                for k, vs in r.items():
                    out.setdefault(k, []).extend(vs)
                for k, vs in getattr(r, 'nested', {}).items():
                    out.nested.setdefault(k, []).extend(vs)

        if isinstance(e, ast.Dict):
            for k, v in zip(e.keys, e.values):
                if k is None:
                    merge(self.record(v, fn, bind, depth, _seen))
                    continue
                ks = self.const_keys(k, fn, bind)
                for kk in (ks if ks is not None else ['*']):
                    put(kk, v, fn, bind)
            return out
        if isinstance(e, ast.DictComp):
            put('*', e.value, fn, bind)
            return out
        if isinstance(e, ast.IfExp):
            a = self.record(e.body, fn, bind, depth, _seen)
            b = self.record(e.orelse, fn, bind, depth, _seen)
            if a is None and b is None:
                return None
            merge(a)
            merge(b)
            return out
        if isinstance(e, ast.Call):
            fname = unparse(e.func)
            if fname == 'dict':
                for a in e.args:
                    merge(self.record(a, fn, bind, depth, _seen))
                for k in e.keywords:
                    if k.arg:
                        put(k.arg, k.value, fn, bind)
                    else:
                        merge(self.record(k.value, fn, bind, depth, _seen))
                return out
            callee = self.resolve_call(e, fn)
            if callee is not None:
                b = self._bind_args(e, callee, fn, bind, depth, set())
                found = False
                for r in self._returns(callee):
                    rr = self.record(r, callee, b, depth + 1, _seen)
                    if rr is not None:
                        found = True
                        merge(rr)
                return out if found else None
            return None
        if isinstance(e, ast.Attribute) and isinstance(
                e.value, ast.Name) and e.value.id in ('self', 'cls') and \
                fn is not None:
            # a class-level dict constant
            ci = fn.cls
            if ci is None:
                for sc in self._scope_chain(fn):
                    if sc.cls is not None:
                        ci = sc.cls
                        break
            if ci is not None:
                owner, v = ci.find_attr(e.attr)
                if isinstance(v, ast.Dict) and e.attr in owner.attrs:
                    return self.record(v, fn, None, depth + 1, _seen)
            return None
        if isinstance(e, ast.Name) and fn is not None:
            # a module-level dict constant, named directly or as the cell of
            # a table row the loop variable is specialised to
            cands = []
            if bind and ('=' + e.id) in bind:
                cands = [a for a in bind['=' + e.id] if a.isidentifier()]
            elif not self._is_local(e.id, fn) and e.id not in Q.params(
                    fn.node):
                cands = [e.id]
            hit = False
            for nm in cands:
                try:
                    r = self.repo.resolve_symbol(fn.module.name, nm)
                except Exception:
                    r = None
                if r is not None and r[0] == 'value' and isinstance(
                        r[3], ast.Dict):
                    rr = self.record(r[3], fn, None, depth + 1, _seen)
                    if rr is not None:
                        merge(rr)
                        hit = True
            if hit:
                return out
            if e.id in Q.params(fn.node):
                # a mapping handed in by the caller (and possibly extended
                # here by item assignment)
                pe = self.param_expr(e.id, fn, bind)
                if pe is not None:
                    merge(self.record(pe[0], pe[1], pe[2], depth + 1,
                                      _seen))
            for sc in self._scope_chain(fn):
                ds = self.defs(sc.node).get(e.id)
                if not ds:
                    continue
                b = bind if sc is fn else None
                found = bool(out)
                for kind, expr, idx in ds:
                    if kind == 'value':
                        rr = self.record(expr, sc, b, depth, _seen)
                        if rr is not None:
                            found = True
                            merge(rr)
                    elif kind == 'item':
                        found = True
                        ks = self.const_keys(idx, sc, b)
                        for kk in (ks if ks is not None else ['*']):
                            put(kk, expr, sc, b)
                    elif kind == 'seq':
                        rr = self.record(expr, sc, b, depth, _seen)
                        if rr is not None:
                            found = True
                            merge(rr)
                    elif kind == 'index' and isinstance(expr, ast.Call):
                        # a, b = helper(...): the idx-th element of the
                        # tuples the helper returns
                        callee = self.resolve_call(expr, sc)
                        if callee is not None:
                            cb = self._bind_args(expr, callee, sc, b, depth,
                                                 set())
                            for r in self._returns(callee):
                                if isinstance(r, ast.Tuple) and idx < len(
                                        r.elts):
                                    rr = self.record(r.elts[idx], callee,
                                                     cb, depth + 1, _seen)
                                    if rr is not None:
                                        found = True
                                        merge(rr)
                if found:
                    # d[k1][k2] = v: an entry of the nested record
                    for n in walk_no_nested(sc.node):
                        if not isinstance(n, ast.Assign):
                            continue
                        for t in n.targets:
                            if isinstance(t, ast.Subscript) and isinstance(
                                    t.value, ast.Subscript) and isinstance(
                                    t.value.value, ast.Name) and \
                                    t.value.value.id == e.id:
                                k1 = self.const_keys(t.value.slice, sc, b)
                                k2 = self.const_keys(t.slice, sc, b)
                                for kk in (k1 or []):
                                    for k in (k2 if k2 is not None
                                              else ['*']):
                                        out.nested.setdefault(kk, []) \
                                            .append((k, n.value, sc, b))
                return out if found else None
            return out if out else None
        return None

    def rec_atoms(self, rec, key):
        out = set()
        for v, f, b in (rec or {}).get(key, []):
            out |= self.atoms(v, f, b)
        return out

    def subrecord(self, rec, key):
        out = {}
        ok = False
        for v, f, b in (rec or {}).get(key, []):
            r = self.record(v, f, b)
            if r is not None:
                ok = True
                for k, vs in r.items():
                    out.setdefault(k, []).extend(vs)
        if ok:
            for k, v, f, b in getattr(rec, 'nested', {}).get(key, []):
                out.setdefault(k, []).append((v, f, b))
        return out if ok else None

    def sequence(self, e, fn, bind=None, depth=0):
        """[(element expr, fn, bind)] for a list/tuple-shaped expression (a
        display, or a local/returned one); None when unknown or when the
        possible shapes differ in length."""
        if depth > self.max_depth:
            return None
        if isinstance(e, (ast.List, ast.Tuple)):
            if any(isinstance(x, ast.Starred) for x in e.elts):
                return None
            return [(x, fn, bind) for x in e.elts]
        if isinstance(e, ast.BinOp) and isinstance(e.op, ast.Add):
            # concatenation: the known tail (an unknown prefix is dropped)
            r = self.sequence(e.right, fn, bind, depth + 1)
            if r is None:
                return None
            l = self.sequence(e.left, fn, bind, depth + 1)
            return (l or []) + r
        if isinstance(e, ast.Name) and fn is not None:
            for sc in self._scope_chain(fn):
                ds = self.defs(sc.node).get(e.id)
                if ds:
                    if len(ds) == 1 and ds[0][0] == 'value':
                        return self.sequence(ds[0][1], sc,
                                             bind if sc is fn else None,
                                             depth + 1)
                    return self._built_sequence(
                        e.id, sc, bind if sc is fn else None, depth)
        if isinstance(e, ast.Call):
            callee = self.resolve_call(e, fn) if fn is not None else None
            if callee is not None:
                b = self._bind_args(e, callee, fn, bind, depth, set())
                seqs = [self.sequence(r, callee, b, depth + 1)
                        for r in self._returns(callee)]
                if seqs and all(q is not None for q in seqs) and \
                        len({len(q) for q in seqs}) == 1:
                    return seqs[0]
        return None

    def _built_sequence(self, name, sc, bind, depth):
        """A list built by straight-line statements of the function body:
        `x = [..]`, then `x += [..]` / `x.extend([..])` / `x.append(v)`,
        none of them under a condition or in a loop."""
        out = None
        for st in sc.node.body:
            touched = any(isinstance(n, ast.Name) and n.id == name and (
                isinstance(n.ctx, ast.Store) or isinstance(
                    getattr(n, '_parent', None), ast.Attribute))
                for n in ast.walk(st))
            if not touched:
                continue
            if isinstance(st, ast.Assign) and len(st.targets) == 1 and \
                    isinstance(st.targets[0], ast.Name) and \
                    st.targets[0].id == name:
                out = self.sequence(st.value, sc, bind, depth + 1)
                if out is None:
                    return None
            elif isinstance(st, ast.AugAssign) and isinstance(
                    st.op, ast.Add) and isinstance(
                        st.target, ast.Name) and st.target.id == name:
                r = self.sequence(st.value, sc, bind, depth + 1)
                if out is None or r is None:
                    return None
                out = out + r
            elif isinstance(st, ast.Expr) and isinstance(
                    st.value, ast.Call) and isinstance(
                        st.value.func, ast.Attribute) and isinstance(
                    st.value.func.value, ast.Name) and \
                    st.value.func.value.id == name and len(
                        st.value.args) == 1 and out is not None:
                m = st.value.func.attr
                if m == 'append':
                    out = out + [(st.value.args[0], sc, bind)]
                elif m == 'extend':
                    r = self.sequence(st.value.args[0], sc, bind, depth + 1)
                    if r is None:
                        return None
                    out = out + r
                else:
                    return None
            elif isinstance(st, ast.Return):
                continue
            else:
                return None
        return out

    # -- calls ---------------------------------------------------------------
    def dynamic_methods(self, call, fn, bind=None):
        """Methods a call dispatches to through `getattr(self, <names known
        statically>)`: the call `getattr(self, k)(..)` itself, or the call
        of a local bound once to such a getattr (a dispatch table of
        handler names). [] when the call is not of that shape."""
        if fn is None:
            return []
        f = call.func
        g = None
        if isinstance(f, ast.Call):
            g = f
        elif isinstance(f, ast.Name):
            for sc in self._scope_chain(fn):
                ds = self.defs(sc.node).get(f.id)
                if ds:
                    if len(ds) == 1 and ds[0][0] == 'value' and isinstance(
                            ds[0][1], ast.Call) and sc is fn:
                        g = ds[0][1]
                    break
        if g is None or not (isinstance(g.func, ast.Name) and
                             g.func.id == 'getattr' and len(g.args) >= 2 and
                             isinstance(g.args[0], ast.Name) and
                             g.args[0].id in ('self', 'cls')):
            return []
        ks = self.const_keys(g.args[1], fn, bind, partial=True)
        ci = fn.cls
        if not ks or ci is None:
            return []
        out = []
        for k in ks:
            if not isinstance(k, str):
                return []
            o, meth = ci.find_method(k)
            if meth is None and k.startswith('__') and not k.endswith('__'):
                o, meth = ci.find_method('_' + ci.name.lstrip('_') + k)
            if meth is not None and getattr(meth, '_func', None):
                out.append(meth._func)
        return out

    def resolve_call(self, call, fn):
        """FuncInfo of the callee when it is a function of the repository."""
        if fn is None:
            return None
        key = (id(call), fn.fq)
        if key not in self._rcache:
            self._rcache[key] = self._resolve_call(call, fn)
        return self._rcache[key]

    def _scope_of(self, fn):
        if fn.fq not in self._lscope:
            self._lscope[fn.fq] = self.repo.local_scope(fn)
        return self._lscope[fn.fq]

    def _resolve_call(self, call, fn):
        repo = self.repo
        f = call.func
        if isinstance(f, ast.Name):
            # nested def in an enclosing scope
            for sc in self._scope_chain(fn):
                for n in ast.walk(sc.node):
                    if isinstance(n, ast.FunctionDef) and n.name == f.id \
                            and n is not sc.node and getattr(
                                n, '_func', None) is not None:
                        # must be lexically inside sc
                        return n._func
        if isinstance(f, (ast.Name, ast.Attribute)):
            r = repo.resolve_expr(fn.module, f, self._scope_of(fn))
            if r is not None and r[0] == 'func':
                return r[1]
            if r is not None and r[0] == 'class':
                return None
        if isinstance(f, ast.Attribute) and isinstance(f.value, ast.Name) \
                and f.value.id not in ('self', 'cls'):
            # a local bound once to an instance of a repository class
            # (`x = cls()` in a classmethod, `x = ClassName(...)`)
            ci = self._local_instance_class(f.value.id, fn)
            if ci is not None:
                o, meth = ci.find_method(f.attr)
                if meth is not None and getattr(meth, '_func', None):
                    return meth._func
        if isinstance(f, ast.Attribute) and isinstance(f.value, ast.Name) \
                and f.value.id in ('self', 'cls'):
            ci = fn.cls
            if ci is None:
                for sc in self._scope_chain(fn):
                    if sc.cls is not None:
                        ci = sc.cls
                        break
                    c2 = repo.enclosing_class(sc.node)
                    if c2 is not None:
                        ci = c2
                        break
            if ci is not None:
                o, meth = ci.find_method(f.attr)
                if meth is None and f.attr.startswith('__'):
                    o, meth = ci.find_method(f.attr)
                if meth is not None:
                    return meth._func
        if isinstance(f, ast.Attribute) and isinstance(
                f.value, ast.Call) and isinstance(
                    f.value.func, ast.Name) and f.value.func.id == 'cls' \
                and fn.cls is not None:
            # cls().method(...) in a classmethod
            o, meth = fn.cls.find_method(f.attr)
            if meth is not None and getattr(meth, '_func', None):
                return meth._func
        return None

    def _local_instance_class(self, name, fn):
        for sc in self._scope_chain(fn):
            ds = self.defs(sc.node).get(name)
            if not ds:
                if name in Q.params(sc.node):
                    return None
                continue
            if len(ds) != 1 or ds[0][0] != 'value' or not isinstance(
                    ds[0][1], ast.Call):
                return None
            cf = ds[0][1].func
            if isinstance(cf, ast.Name) and cf.id == 'cls':
                c = sc.cls or self.repo.enclosing_class(sc.node)
                return c
            # (instances of other repository classes are left opaque:
            # following every method of every constructed object makes the
            # closure explode on the writer classes)
            return None
        return None

    def _returns(self, callee):
        out = []
        for n in walk_no_nested(callee.node):
            if isinstance(n, ast.Return) and n.value is not None:
                out.append(n.value)
            elif isinstance(n, ast.Yield) and n.value is not None:
                out.append(n.value)
            elif isinstance(n, ast.YieldFrom):
                out.append(n.value)
        return out

    def _bind_args_method(self, call, meth, fn, bind, depth, _seen):
        """Binding for a bound-method call whose receiver is implicit (the
        callee was obtained with getattr(self, name)): positional arguments
        start after `self`."""
        a_ = meth.node.args
        pos = [x.arg for x in a_.posonlyargs + a_.args]
        if pos and pos[0] in ('self', 'cls'):
            pos = pos[1:]
        b = {'self': {'param:self'}}
        for i, a in enumerate(call.args):
            if isinstance(a, ast.Starred) or i >= len(pos):
                break
            b[pos[i]] = self.atoms(a, fn, bind, depth, _seen)
        for k in call.keywords:
            if k.arg:
                b[k.arg] = self.atoms(k.value, fn, bind, depth, _seen)
        return b

    def _bind_args(self, call, callee, fn, bind, depth, _seen):
        a_ = callee.node.args
        pos = [x.arg for x in a_.posonlyargs + a_.args]
        plist = Q.params(callee.node)
        if pos and pos[0] in ('self', 'cls') and (isinstance(
                call.func, ast.Attribute) or callee.cls is not None and
                not isinstance(call.func, ast.Name)):
            pos = pos[1:]
        va = a_.vararg.arg if a_.vararg else None
        b = {}
        for i, a in enumerate(call.args):
            if isinstance(a, ast.Starred):
                rest = self.atoms(a.value, fn, bind, depth, _seen)
                for p in pos[i:]:
                    if Q.param_default(callee.node, p) is None:
                        b.setdefault(p, set()).update(rest)
                if va:
                    b.setdefault(va, set()).update(rest)
                break
            if i < len(pos):
                b[pos[i]] = self.atoms(a, fn, bind, depth, _seen)
            elif va:
                b.setdefault(va, set()).update(
                    self.atoms(a, fn, bind, depth, _seen))
        for k in call.keywords:
            if k.arg and k.arg in plist:
                b[k.arg] = self.atoms(k.value, fn, bind, depth, _seen)
            elif k.arg and a_.kwarg:
                b.setdefault(a_.kwarg.arg, set()).update(
                    self.atoms(k.value, fn, bind, depth, _seen))
        # defaults of unbound parameters
        for p in plist:
            if p not in b:
                d = Q.param_default(callee.node, p)
                if d is not None:
                    b[p] = self.atoms(d, callee, None, depth, _seen)
        # the call site itself: record()/sequence() of a parameter continue
        # in the caller's expression (not part of the cache key: atoms do
        # not depend on it)
        tok = 'site:{}'.format(id(call))
        self.__dict__.setdefault('_sites', {})[tok] = (call, callee, fn, bind)
        b['#site'] = {tok}
        return b

    def param_expr(self, name, fn, bind):
        """(expr, caller fn, caller bind) of the argument bound to parameter
        `name` of fn at the call site the binding came from; None when
        unknown (unbound analysis, *args, defaults)."""
        if not bind or '#site' not in bind:
            return None
        site = self.__dict__.get('_sites', {}).get(next(iter(bind['#site'])))
        if site is None:
            return None
        call, callee, cfn, cbind = site
        if callee is not fn:
            return None
        a_ = callee.node.args
        pos = [x.arg for x in a_.posonlyargs + a_.args]
        if pos and pos[0] in ('self', 'cls') and (isinstance(
                call.func, ast.Attribute) or callee.cls is not None and
                not isinstance(call.func, ast.Name)):
            pos = pos[1:]
        for i, a in enumerate(call.args):
            if isinstance(a, ast.Starred):
                break
            if i < len(pos) and pos[i] == name:
                return a, cfn, cbind
        for k in call.keywords:
            if k.arg == name:
                return k.value, cfn, cbind
        return None

    def _call_atoms(self, e, fn, bind, depth, _seen):
        key = (id(e), fn.fq if fn else None, self._bkey(bind), depth)
        hit = self._cmemo.get(key)
        if hit is not None:
            return set(hit)
        out = self._call_atoms_(e, fn, bind, depth, _seen)
        if not self._partial:
            self._cmemo[key] = frozenset(out)
        return out

    def _call_atoms_(self, e, fn, bind, depth, _seen):
        out = set()
        fname = unparse(e.func)
        A = lambda x: self.atoms(x, fn, bind, depth, _seen)  # noqa
        args = list(e.args) + [k.value for k in e.keywords]
        if fname == 'getattr' and len(e.args) >= 2 and isinstance(
                e.args[1], ast.Constant) and isinstance(
                    e.args[1].value, str):
            out.add(self.canon(e.args[0], fn) + '.' + e.args[1].value)
            out |= {a for a in A(e.args[0]) if not a.startswith('const:')}
            for a in e.args[2:]:
                out |= A(a)
            return out
        if fname == 'getattr':
            gp = self._getattr_paths(e, fn, bind, depth, _seen)
            if gp:
                out |= gp
                out |= {a for a in A(e.args[0])
                        if not a.startswith('const:')}
                for a in e.args[2:]:
                    out |= A(a)
                return out
        if fname in TRANSPARENT:
            for a in args:
                out |= A(a)
            if fname in ('reversed', 'sorted', 'set', 'frozenset',
                         'uniques', 'iterutils.uniques', 'filter'):
                out.add(fname.split('.')[-1] + '()')
            if fname in ('list', 'set', 'dict') and not args:
                out.add(self._alloc(e, fn))
            return out
        callee = self.resolve_call(e, fn)
        if callee is None and depth < self.max_depth:
            dyn = self.dynamic_methods(e, fn, bind)
            if dyn:
                # handler = getattr(self, '_' + name + '_flags'); handler(x)
                for m in dyn:
                    b = self._bind_args_method(e, m, fn, bind, depth, _seen)
                    for r in self._returns(m):
                        out |= self.atoms(r, m, b, depth + 1, _seen)
                    out.add(m.qualname + '(' + self._arg_text(e) + ')')
                for a in args:
                    for x in A(a):
                        if not x.startswith(('const:', 'key:', 'via:')):
                            out.add('via:' + x)
                return out
        if callee is not None and depth < self.max_depth:
            b = self._bind_args(e, callee, fn, bind, depth, _seen)
            rets = self._returns(callee)
            for r in rets:
                out |= self.atoms(r, callee, b, depth + 1, _seen)
            out.add(callee.qualname + '(' + self._arg_text(e) + ')')
            # arguments may reach the result through stores the return
            # atoms do not show (objects built field by field)
            for a in args:
                for x in A(a):
                    if not x.startswith(('const:', 'key:', 'via:')):
                        out.add('via:' + x)
            return out
        if isinstance(e.func, ast.Attribute):
            if e.func.attr in TRANSPARENT_METHODS:
                out |= A(e.func.value)
                for a in args:
                    out |= A(a)
                if e.func.attr in ('split', 'rsplit', 'partition',
                                   'rpartition'):
                    out.add('split()')      # component-wise view
                return out
        # opaque call: its canonical text(s), plus what flows into it
        # (tagged `via:` -- the result is computed from, not part of, them)
        for t in self._call_texts(e, fn, bind, depth, _seen):
            out.add(t)
        for a in args:
            for x in A(a):
                if x.startswith(('const:', 'key:', 'via:')):
                    out.add(x)
                else:
                    out.add('via:' + x)
        if isinstance(e.func, ast.Attribute):
            for x in A(e.func.value):
                if x.startswith(('const:', 'key:')):
                    continue
                out.add(x if x.startswith('via:') else 'via:' + x)
        return out

    def _arg_text(self, call):
        parts = []
        for a in call.args:
            parts.append(repr(a.value) if isinstance(a, ast.Constant)
                         else ('*~' if isinstance(a, ast.Starred) else '~'))
        for k in call.keywords:
            if k.arg is None:
                parts.append('**~')
                continue
            parts.append('{}={}'.format(k.arg, repr(k.value.value)
                                        if isinstance(k.value, ast.Constant)
                                        else '~'))
        return ', '.join(parts)

    def _call_texts(self, e, fn, bind, depth, _seen):
        """Canonical texts of a call: receiver atoms + method name, constant
        arguments spelled out, other arguments as `~`; and the `f()` marker."""
        heads = self._call_heads(e, fn, bind, depth, _seen)
        at = self._arg_text(e)
        out = set()
        for h in heads:
            t = h + '(' + at + ')'
            if '.' in h:
                base, meth = h.rsplit('.', 1)
                piece = '.' + meth + '(' + at + ')'
                if base.endswith(piece):
                    t = base         # x = x.m(..) re-applied by the fixpoint
            out.add(t)
        return out

    def _call_heads(self, e, fn, bind, depth, _seen):
        """Canonical texts of the callee expression of a call."""
        f = e.func
        heads = set()
        if isinstance(f, ast.Attribute):
            for r in self.atoms(f.value, fn, bind, depth, _seen):
                if r.startswith(('const:', 'key:', 'alloc:', 'via:')):
                    continue
                base = r[6:] if r.startswith('param:') else r
                if len(base) > 200:
                    continue
                heads.add(base + '.' + f.attr)
            if not heads:
                heads.add(unparse(f))
        elif isinstance(f, ast.Call):
            gp = self._getattr_paths(f, fn, bind, depth, _seen)
            if gp:
                heads |= gp          # getattr(obj, 'm')(..) is obj.m(..)
            else:
                heads |= self._call_texts(f, fn, bind, depth, _seen)
        elif isinstance(f, ast.Name):
            if fn is not None and self._is_local(f.id, fn):
                done = False
                for sc in self._scope_chain(fn):
                    ds = self.defs(sc.node).get(f.id)
                    if ds:
                        if all(k == 'value' and isinstance(x, ast.Call)
                               for k, x, i in ds):
                            for k, x, i in ds:
                                key = (id(x), sc.fq, 'ct')
                                if key in _seen:
                                    continue
                                _seen.add(key)
                                try:
                                    heads |= self._call_texts(
                                        x, sc, bind if sc is fn else None,
                                        depth, _seen)
                                finally:
                                    _seen.discard(key)
                            done = True
                        break
                if not done:
                    for r in self._name_atoms(f.id, fn, bind, depth, _seen):
                        if r.startswith(('const:', 'key:', 'alloc:',
                                         'via:')):
                            continue
                        heads.add(r[6:] if r.startswith('param:') else r)
            else:
                heads.add(f.id)
        elif isinstance(f, ast.Subscript):
            for r in self.atoms(f, fn, bind, depth, _seen):
                if r.startswith(('const:', 'key:', 'alloc:', 'via:')):
                    continue
                heads.add(r[6:] if r.startswith('param:') else r)
            if not heads:
                heads.add(unparse(f))
        else:
            heads.add(unparse(f))
        return heads

    # -- control facts -------------------------------------------------------
    def find_calls(self, fn, pred, depth=3, _seen=None, chain=()):
        """Calls matching pred(call, fn) in fn or in repository helpers it
        calls. Returns list of (call, FuncInfo, chain of helper names)."""
        _seen = _seen if _seen is not None else set()
        if fn.fq in _seen:
            return []
        _seen.add(fn.fq)
        out = []
        for c in Q.calls(fn.node, nested=True):
            if pred(c, fn):
                out.append((c, fn, chain))
        if depth > 0:
            for c in Q.calls(fn.node, nested=True):
                callee = self.resolve_call(c, self._func_of(c, fn))
                if callee is not None and callee.fq not in _seen:
                    out += self.find_calls(callee, pred, depth - 1, _seen,
                                           chain + (callee.qualname,))
        return out

    def _func_of(self, node, default):
        f = self.repo.enclosing_func(node)
        return f or default

    def must_call(self, fn, pred, depth=3, _stack=None):
        """Every non-raising path through fn performs a call matching pred,
        directly or inside a repository helper that itself must_call it."""
        _stack = _stack or set()
        if fn.fq in _stack:
            return False
        _stack = _stack | {fn.fq}
        g = build_cfg(fn.node)
        stmts = set()
        for c in Q.calls(fn.node, nested=False):
            ok = pred(c, fn)
            if not ok and depth > 0:
                callee = self.resolve_call(c, fn)
                if callee is not None:
                    ok = self.must_call(callee, pred, depth - 1, _stack)
            if ok:
                try:
                    stmts.add(g.stmt_of(c))
                except Exception:
                    pass
        if not stmts:
            return False
        return g.must_pass(stmts, EXIT)

    def call_text(self, call, fn):
        return self.canon(call.func, fn)
