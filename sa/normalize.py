"""AST normalisation applied to every parsed module before indexing.

The rules reason about guards, effects and value flow. Table-driven code says
the same thing as the spelled-out statements, but hides the callee and the
guard inside table cells:

    _writers = ((literal, _put_literal), (str, _put_str), ...)
    for kind, put in self._writers:
        if isinstance(thing, kind):
            return put(self, thing, syntax)

This pass rewrites such code *in the checker's copy of the syntax tree* (the
files are never touched) into the statements it stands for:

  * a `for` over a literal table (a tuple/list display, a module-level or
    class-level name bound once to one, `self.T` / `cls.T` / `Class.T`) whose
    body neither breaks, continues nor rebinds the loop variables, and whose
    loop variables are not used after the loop, is unrolled: one copy of the
    body per row with the loop variables replaced by the row's cells;
  * `f(self, a, b)` where `f` became the name of a function defined in the
    enclosing class is written `self.f(a, b)`;
  * `getattr(x, '<constant>')` (two-argument form, after folding constant
    string concatenation / %-formatting / str.format of the substituted
    cells) is written `x.<constant>`;
  * `T[<constant>]` / `T.get(<constant>)` on a literal dict table is replaced
    by the cell.

Everything else is left alone. Line numbers of generated statements are
those of the loop they come from.
"""
import ast
import copy

MAX_ROWS = 24
MAX_NODES = 4000


def _is_table(v):
    return isinstance(v, (ast.Tuple, ast.List)) and 0 < len(v.elts) <= \
        MAX_ROWS and not any(isinstance(x, ast.Starred) for x in v.elts)


def _is_key(k):
    if isinstance(k, ast.Constant):
        return True
    # an enum member / module constant: Name.attr(.attr)
    while isinstance(k, ast.Attribute):
        k = k.value
    return isinstance(k, ast.Name)


def _is_dict_table(v):
    return isinstance(v, ast.Dict) and 0 < len(v.keys) <= MAX_ROWS and all(
        k is not None and _is_key(k) for k in v.keys)


def _simple_cell(x):
    for n in ast.walk(x):
        if isinstance(n, (ast.Yield, ast.YieldFrom, ast.Await,
                          ast.NamedExpr)):
            return False
    return True


class _Scope:
    def __init__(self):
        self.tables = {}       # name -> value (Tuple/List/Dict display)
        self.counts = {}
        self.funcs = set()


_MUTATORS = {'append', 'extend', 'insert', 'pop', 'remove', 'clear', 'update',
             'setdefault', 'sort', 'reverse', 'add', 'discard', 'popitem',
             '__setitem__', '__delitem__'}


def _mutated_names(tree):
    """Identifiers (bare names and attribute names) that are mutated in
    place somewhere in the module: not literal tables."""
    out = set()

    def ident(x):
        if isinstance(x, ast.Name):
            return x.id
        if isinstance(x, ast.Attribute):
            return x.attr
        return None
    for n in ast.walk(tree):
        if isinstance(n, ast.Call) and isinstance(n.func, ast.Attribute) and \
                n.func.attr in _MUTATORS:
            i = ident(n.func.value)
            if i:
                out.add(i)
        elif isinstance(n, ast.Subscript) and isinstance(
                n.ctx, (ast.Store, ast.Del)):
            i = ident(n.value)
            if i:
                out.add(i)
        elif isinstance(n, ast.AugAssign):
            i = ident(n.target)
            if i:
                out.add(i)
    return out


def _collect(body, mutated=frozenset()):
    sc = _Scope()
    for st in body:
        if isinstance(st, ast.Assign) and len(st.targets) == 1 and \
                isinstance(st.targets[0], ast.Name):
            n = st.targets[0].id
            sc.counts[n] = sc.counts.get(n, 0) + 1
            if _is_table(st.value) or _is_dict_table(st.value):
                sc.tables[n] = st.value
        elif isinstance(st, (ast.AugAssign, ast.AnnAssign)) and isinstance(
                st.target, ast.Name):
            sc.counts[st.target.id] = sc.counts.get(st.target.id, 0) + 2
        elif isinstance(st, (ast.FunctionDef, ast.AsyncFunctionDef)):
            sc.funcs.add(st.name)
    for n, c in sc.counts.items():
        if c != 1:
            sc.tables.pop(n, None)
    for n in list(sc.tables):
        if n in mutated and not isinstance(sc.tables[n], ast.Tuple):
            sc.tables.pop(n)
    return sc


def _fold_str(e):
    """Constant string value of an expression built from constants."""
    if isinstance(e, ast.Constant) and isinstance(e.value, str):
        return e.value
    if isinstance(e, ast.BinOp) and isinstance(e.op, ast.Add):
        a, b = _fold_str(e.left), _fold_str(e.right)
        if a is not None and b is not None:
            return a + b
    if isinstance(e, ast.BinOp) and isinstance(e.op, ast.Mod):
        a = _fold_str(e.left)
        if a is not None:
            r = e.right
            vals = r.elts if isinstance(r, ast.Tuple) else [r]
            vs = [_fold_str(v) for v in vals]
            if all(v is not None for v in vs):
                try:
                    return a % tuple(vs)
                except Exception:
                    return None
    if isinstance(e, ast.Call) and isinstance(e.func, ast.Attribute) and \
            e.func.attr == 'format' and not e.keywords:
        a = _fold_str(e.func.value)
        vs = [_fold_str(v) for v in e.args]
        if a is not None and all(v is not None for v in vs):
            try:
                return a.format(*vs)
            except Exception:
                return None
    if isinstance(e, ast.JoinedStr):
        out = ''
        for v in e.values:
            if isinstance(v, ast.Constant) and isinstance(v.value, str):
                out += v.value
            elif isinstance(v, ast.FormattedValue) and v.conversion == -1 \
                    and v.format_spec is None:
                s = _fold_str(v.value)
                if s is None:
                    return None
                out += s
            else:
                return None
        return out
    return None


def _is_none(x):
    """True/False when `x` certainly is / is not None, else None."""
    if isinstance(x, ast.Constant):
        return x.value is None
    if isinstance(x, (ast.Tuple, ast.List, ast.Dict, ast.Set, ast.Lambda,
                      ast.JoinedStr)):
        return False
    return None


def _const_truth(t):
    if isinstance(t, ast.Constant):
        return bool(t.value)
    if isinstance(t, ast.Compare) and len(t.ops) == 1 and isinstance(
            t.ops[0], (ast.Is, ast.IsNot)):
        a, b = _is_none(t.left), _is_none(t.comparators[0])
        if b is True and a is not None:
            return a if isinstance(t.ops[0], ast.Is) else not a
        if a is True and b is not None:
            return b if isinstance(t.ops[0], ast.Is) else not b
    if isinstance(t, ast.UnaryOp) and isinstance(t.op, ast.Not):
        v = _const_truth(t.operand)
        return None if v is None else not v
    return None


def _prune_const_ifs(body):
    out = []
    for st in body:
        if isinstance(st, ast.If):
            v = _const_truth(st.test)
            if v is not None:
                out.extend(_prune_const_ifs(st.body if v else st.orelse))
                if out and isinstance(out[-1], (ast.Continue, ast.Break,
                                                ast.Return, ast.Raise)):
                    break
                continue
            st.body = _prune_const_ifs(st.body) or [ast.copy_location(
                ast.Pass(), st)]
            st.orelse = _prune_const_ifs(st.orelse)
        out.append(st)
        if isinstance(st, (ast.Continue, ast.Break, ast.Return, ast.Raise)):
            break                 # the rest of the block is unreachable
    return out


def _propagate_unpack(body, funcs):
    """`a, b = (x, y)` followed by statements that never rebind a, b: the
    names are replaced by the cells (after a table row was substituted)."""
    out = []
    i = 0
    body = list(body)
    while i < len(body):
        st = body[i]
        if isinstance(st, ast.Assign) and len(st.targets) == 1 and \
                isinstance(st.targets[0], (ast.Tuple, ast.List)) and \
                isinstance(st.value, (ast.Tuple, ast.List)) and len(
                    st.targets[0].elts) == len(st.value.elts) and all(
                    isinstance(x, ast.Name) for x in st.targets[0].elts) \
                and all(_simple_cell(c) for c in st.value.elts):
            names = [x.id for x in st.targets[0].elts]
            rest = body[i + 1:]
            if not (set(names) & _stores(rest)):
                sub = _Subst(dict(zip(names, st.value.elts)), funcs)
                body = body[:i + 1] + sub.visit_all(rest)
                out.append(st)
                i += 1
                continue
        out.append(st)
        i += 1
    return out + []


class _Subst(ast.NodeTransformer):
    def __init__(self, mapping, class_funcs):
        self.mapping = mapping
        self.class_funcs = class_funcs

    def visit_all(self, stmts):
        return [self.visit(copy.deepcopy(s)) for s in stmts]

    def visit_Name(self, node):
        if isinstance(node.ctx, ast.Load) and node.id in self.mapping:
            new = copy.deepcopy(self.mapping[node.id])
            if isinstance(new, ast.Name) and new.id in getattr(
                    self, 'class_names', ()) and new.id not in \
                    self.class_funcs:
                # a cell naming another class-level constant (the table
                # lives in the class body): reachable as self.<name>
                new = ast.Attribute(value=ast.Name(id='self',
                                                   ctx=ast.Load()),
                                    attr=new.id, ctx=ast.Load())
            return ast.copy_location(new, node)
        return node

    def visit_Call(self, node):
        # f(self, ...) with f := a function of the enclosing class
        if isinstance(node.func, ast.Name) and node.func.id in self.mapping:
            cell = self.mapping[node.func.id]
            if isinstance(cell, ast.Name) and cell.id in self.class_funcs \
                    and node.args and isinstance(node.args[0], ast.Name) \
                    and node.args[0].id in ('self', 'cls'):
                recv = node.args[0]
                node = ast.Call(
                    func=ast.copy_location(ast.Attribute(
                        value=recv, attr=cell.id, ctx=ast.Load()), node),
                    args=node.args[1:], keywords=node.keywords)
                ast.copy_location(node, recv)
                node.args = [self.visit(a) for a in node.args]
                for k in node.keywords:
                    k.value = self.visit(k.value)
                return node
        self.generic_visit(node)
        return node


def _fold_getattr(tree):
    for n in ast.walk(tree):
        for field, val in ast.iter_fields(n):
            if isinstance(val, list):
                for i, c in enumerate(val):
                    r = _getattr_const(c)
                    if r is not None:
                        val[i] = r
            elif isinstance(val, ast.AST):
                r = _getattr_const(val)
                if r is not None:
                    setattr(n, field, r)


def _getattr_const(c):
    if isinstance(c, ast.Call) and isinstance(c.func, ast.Name) and \
            c.func.id == 'getattr' and len(c.args) == 2 and not c.keywords:
        s = _fold_str(c.args[1])
        if s is not None and s.isidentifier():
            return ast.copy_location(ast.Attribute(
                value=c.args[0], attr=s, ctx=ast.Load()), c)
    return None


def _own_nodes(body):
    """Nodes of the statements, not descending into nested loops (for
    break/continue) -- nested function bodies are included (they may use the
    loop variable)."""
    for st in body:
        stack = [st]
        while stack:
            n = stack.pop()
            yield n
            for c in ast.iter_child_nodes(n):
                stack.append(c)


def _breaks(body):
    stack = list(body)
    while stack:
        n = stack.pop()
        if isinstance(n, (ast.Break, ast.Continue)):
            return True
        if isinstance(n, (ast.For, ast.While, ast.AsyncFor)):
            # break/continue inside belong to the inner loop, but its
            # else-clause does not
            stack.extend(n.orelse)
            continue
        if isinstance(n, (ast.FunctionDef, ast.AsyncFunctionDef,
                          ast.Lambda, ast.ClassDef)):
            continue
        stack.extend(ast.iter_child_nodes(n))
    return False


def _stores(body):
    out = set()
    for n in _own_nodes(body):
        if isinstance(n, ast.Name) and isinstance(n.ctx, (ast.Store,
                                                          ast.Del)):
            out.add(n.id)
    return out


def _loads(nodes):
    out = set()
    for st in nodes:
        for n in ast.walk(st):
            if isinstance(n, ast.Name):
                out.add(n.id)
    return out


class _Unroller:
    def __init__(self, module_scope, mutated=frozenset()):
        self.mod = module_scope
        self.mutated = mutated
        self.classes = {}      # class name -> _Scope
        self.count = 0
        self.fn_tables = {}    # tables bound once in the current function

    def table(self, it, cls_scope, local_names):
        if _is_table(it):
            return it
        if isinstance(it, ast.Call) and isinstance(
                it.func, ast.Name) and it.func.id == 'zip' and len(
                    it.args) == 2 and not it.keywords:
            # zip(TABLE, xs) / zip(xs, TABLE): rows (cell, xs[i])
            a, b = it.args
            ta = self.table(a, cls_scope, local_names)
            tb = self.table(b, cls_scope, local_names)
            if (ta is None) != (tb is None):
                t, other, first = (ta, b, True) if ta is not None else (
                    tb, a, False)
                if _simple_cell(other) and isinstance(
                        other, (ast.Name, ast.Attribute)):
                    rows = []
                    for i, cell in enumerate(t.elts):
                        sub = ast.Subscript(value=copy.deepcopy(other),
                                            slice=ast.Constant(i),
                                            ctx=ast.Load())
                        pair = [cell, sub] if first else [sub, cell]
                        rows.append(ast.Tuple(elts=pair, ctx=ast.Load()))
                    return ast.copy_location(ast.Tuple(
                        elts=rows, ctx=ast.Load()), it)
            return None
        if isinstance(it, ast.Name):
            v = self.fn_tables.get(it.id)
            if v is not None and _is_table(v):
                return v
            if it.id in local_names:
                return None
            v = self.mod.tables.get(it.id)
            return v if v is not None and _is_table(v) else None
        if isinstance(it, ast.Attribute) and isinstance(it.value, ast.Name):
            sc = None
            if it.value.id in ('self', 'cls'):
                sc = cls_scope
            elif it.value.id in self.classes:
                sc = self.classes[it.value.id]
            if sc is not None:
                v = sc.tables.get(it.attr)
                return v if v is not None and _is_table(v) else None
        return None

    def run(self, tree):
        for st in tree.body:
            if isinstance(st, ast.ClassDef):
                sc = self.classes[st.name] = _collect(st.body, self.mutated)
                # class C(namedtuple('C', ['a', 'b'])): C._fields
                for b in st.bases:
                    if isinstance(b, ast.Call) and (
                            isinstance(b.func, ast.Name) and
                            b.func.id == 'namedtuple' or
                            isinstance(b.func, ast.Attribute) and
                            b.func.attr == 'namedtuple') and len(
                                b.args) == 2 and _is_table(b.args[1]) and \
                            all(isinstance(x, ast.Constant)
                                for x in b.args[1].elts) and \
                            '_fields' not in sc.counts:
                        sc.tables['_fields'] = b.args[1]
        self._block_owner(tree, None, set())

    def _block_owner(self, node, cls_scope, local_names):
        for field in ('body', 'orelse', 'finalbody'):
            body = getattr(node, field, None)
            if isinstance(body, list) and body and isinstance(
                    body[0], ast.stmt):
                setattr(node, field, self._block(body, cls_scope,
                                                 local_names))
        for h in getattr(node, 'handlers', []) or []:
            h.body = self._block(h.body, cls_scope, local_names)
        for c in getattr(node, 'cases', []) or []:
            c.body = self._block(c.body, cls_scope, local_names)

    def _comprehensions(self, st, cls_scope, local_names):
        """[f(x) for x in TABLE] / {k: v for k in TABLE} over a literal
        table (one generator, no conditions) as the display it builds."""
        outer = self

        class T(ast.NodeTransformer):
            def _rows(self, node):
                if len(node.generators) != 1:
                    return None
                g = node.generators[0]
                if g.ifs or g.is_async:
                    return None
                table = outer.table(g.iter, cls_scope, local_names)
                if table is None:
                    return None
                t = g.target
                if isinstance(t, ast.Name):
                    names = [t.id]
                elif isinstance(t, (ast.Tuple, ast.List)) and all(
                        isinstance(x, ast.Name) for x in t.elts):
                    names = [x.id for x in t.elts]
                else:
                    return None
                rows = []
                for row in table.elts:
                    if isinstance(t, ast.Name):
                        cells = [row]
                    elif isinstance(row, (ast.Tuple, ast.List)) and len(
                            row.elts) == len(names):
                        cells = list(row.elts)
                    else:
                        return None
                    if not all(_simple_cell(c) for c in cells):
                        return None
                    rows.append(dict(zip(names, cells)))
                return rows

            def visit_Subscript(self, node):
                # D[bool(x)] with D = {False: a, True: b}  ->  b if x else a
                self.generic_visit(node)
                k = node.slice
                if isinstance(node.ctx, ast.Load) and isinstance(
                        k, ast.Call) and isinstance(
                            k.func, ast.Name) and k.func.id == 'bool' and \
                        len(k.args) == 1 and not k.keywords:
                    d = outer._dict_of(node.value, cls_scope, local_names)
                    if d is not None and len(d.keys) == 2 and all(
                            isinstance(x, ast.Constant) and
                            isinstance(x.value, bool) for x in d.keys) and \
                            {x.value for x in d.keys} == {True, False} and \
                            all(_simple_cell(v) for v in d.values):
                        cell = {x.value: v for x, v in zip(d.keys, d.values)}
                        outer.count += 1
                        return ast.copy_location(ast.IfExp(
                            test=k.args[0],
                            body=copy.deepcopy(cell[True]),
                            orelse=copy.deepcopy(cell[False])), node)
                    # (a, b)[bool(x)]  ->  b if x else a
                    t = outer.table(node.value, cls_scope, local_names)
                    if t is not None and len(t.elts) == 2 and all(
                            _simple_cell(v) for v in t.elts):
                        outer.count += 1
                        return ast.copy_location(ast.IfExp(
                            test=k.args[0],
                            body=copy.deepcopy(t.elts[1]),
                            orelse=copy.deepcopy(t.elts[0])), node)
                return node

            def visit_Call(self, node):
                # getattr(x, A if c else B) -> getattr(x, A) if c else ...
                self.generic_visit(node)
                if isinstance(node.func, ast.Name) and \
                        node.func.id == 'getattr' and len(
                            node.args) == 2 and not node.keywords and \
                        isinstance(node.args[1], ast.IfExp):
                    ie = node.args[1]
                    a = ast.copy_location(ast.Call(
                        func=node.func, args=[node.args[0], ie.body],
                        keywords=[]), node)
                    b = ast.copy_location(ast.Call(
                        func=copy.deepcopy(node.func),
                        args=[copy.deepcopy(node.args[0]), ie.orelse],
                        keywords=[]), node)
                    return ast.copy_location(ast.IfExp(
                        test=ie.test, body=_getattr_const(a) or a,
                        orelse=_getattr_const(b) or b), node)
                return node

            def visit_ListComp(self, node):
                self.generic_visit(node)
                rows = self._rows(node)
                if rows is None:
                    return node
                funcs = cls_scope.funcs if cls_scope is not None else set()
                elts = [_Subst(r, funcs).visit(copy.deepcopy(node.elt))
                        for r in rows]
                outer.count += 1
                new = ast.copy_location(ast.List(elts=elts, ctx=ast.Load()),
                                        node)
                _fold_getattr(new)
                return new

            def visit_GeneratorExp(self, node):
                # consumed once by the call it is handed to: the same rows
                return self.visit_ListComp(node)

            def visit_DictComp(self, node):
                self.generic_visit(node)
                rows = self._rows(node)
                if rows is None:
                    return node
                funcs = cls_scope.funcs if cls_scope is not None else set()
                ks = [_Subst(r, funcs).visit(copy.deepcopy(node.key))
                      for r in rows]
                vs = [_Subst(r, funcs).visit(copy.deepcopy(node.value))
                      for r in rows]
                outer.count += 1
                new = ast.copy_location(ast.Dict(keys=ks, values=vs), node)
                _fold_getattr(new)
                return new
        return T().visit(st)

    def _block(self, body, cls_scope, local_names):
        out = []
        body = [st if isinstance(st, (ast.FunctionDef, ast.ClassDef,
                                      ast.AsyncFunctionDef))
                else self._comprehensions(st, cls_scope, local_names)
                for st in body]
        for i, st in enumerate(body):
            if isinstance(st, ast.ClassDef):
                sc = self.classes.get(st.name) or _collect(st.body, self.mutated)
                self._block_owner(st, sc, set())
                out.append(st)
                continue
            if isinstance(st, (ast.FunctionDef, ast.AsyncFunctionDef)):
                names = {a.arg for a in st.args.args + st.args.kwonlyargs +
                         st.args.posonlyargs}
                if st.args.vararg:
                    names.add(st.args.vararg.arg)
                if st.args.kwarg:
                    names.add(st.args.kwarg.arg)
                names |= _stores(st.body)
                saved = self.fn_tables
                self.fn_tables = dict(saved)
                self.fn_tables.update(_collect(st.body, self.mutated).tables)
                self._block_owner(st, cls_scope, names | local_names)
                self.fn_tables = saved
                out.append(st)
                continue
            if isinstance(st, ast.For) and not st.orelse:
                rows = self.table(st.iter, cls_scope, local_names)
                un = self._unroll(st, rows, cls_scope, body[i + 1:]) \
                    if rows is not None else None
                if un is not None:
                    out.extend(self._block(un, cls_scope, local_names))
                    continue
            ks = self._key_split(st, cls_scope, local_names)
            if ks is not None:
                out.extend(ks)
                continue
            dd = self._dict_dispatch(st, body[i + 1:], cls_scope,
                                     local_names)
            if dd is not None:
                out.extend(self._block(dd, cls_scope, local_names))
                return out
            self._block_owner(st, cls_scope, local_names)
            out.append(st)
        return out

    def _dict_of(self, e, cls_scope, local_names):
        if isinstance(e, ast.Name):
            v = self.fn_tables.get(e.id)
            if v is None and e.id not in local_names:
                v = self.mod.tables.get(e.id)
            return v if v is not None and _is_dict_table(v) else None
        if isinstance(e, ast.Attribute) and isinstance(e.value, ast.Name):
            sc = cls_scope if e.value.id in ('self', 'cls') else \
                self.classes.get(e.value.id)
            if sc is not None:
                v = sc.tables.get(e.attr)
                return v if v is not None and _is_dict_table(v) else None
        return None

    def _key_split(self, st, cls_scope, local_names):
        """A simple statement using `D[k]` (D a literal dict table with at
        most 8 keys, k a run-time name) in place, e.g. `D[k].append(x)`:
        one copy per key under `k == key`, with k replaced by the key."""
        if not isinstance(st, (ast.Expr, ast.AugAssign)) and not (
                isinstance(st, ast.Assign) and not isinstance(
                    st.value, (ast.Subscript,))):
            return None
        pairs = {}
        for n in ast.walk(st):
            if isinstance(n, ast.Subscript) and isinstance(
                    n.slice, ast.Name) and isinstance(
                        n.slice.ctx, ast.Load) and isinstance(
                            n.value, (ast.Name, ast.Attribute)):
                t = self._dict_of(n.value, cls_scope, local_names)
                if t is not None and len(t.keys) <= 8:
                    pairs[(ast.dump(n.value), n.slice.id)] = t
        if len(pairs) != 1:
            return None
        (dtxt, kname), table = list(pairs.items())[0]
        if kname in _stores([st]):
            return None
        tail = [ast.copy_location(ast.Raise(
            exc=ast.Call(func=ast.Name(id='KeyError', ctx=ast.Load()),
                         args=[ast.Name(id=kname, ctx=ast.Load())],
                         keywords=[]), cause=None), st)]

        class KeySub(ast.NodeTransformer):
            def __init__(self, key):
                self.key = key

            def visit_Subscript(self, node):
                self.generic_visit(node)
                if isinstance(node.slice, ast.Name) and \
                        node.slice.id == kname and ast.dump(
                            node.value) == dtxt:
                    node.slice = copy.deepcopy(self.key)
                return node
        for key in reversed(table.keys):
            new = KeySub(key).visit(copy.deepcopy(st))
            test = ast.Compare(left=ast.Name(id=kname, ctx=ast.Load()),
                               ops=[ast.Eq()],
                               comparators=[copy.deepcopy(key)])
            tail = [ast.copy_location(ast.If(test=test, body=[new],
                                             orelse=tail), st)]
        self.count += 1
        return tail

    def _dict_dispatch(self, st, rest, cls_scope, local_names):
        """`a, b = D[k]; rest` with D a literal dict table and k a run-time
        name: one copy of `rest` per key, under `k == key`, with the
        targets replaced by the row's cells."""
        if not (isinstance(st, ast.Assign) and len(st.targets) == 1):
            return None
        v, t = st.value, st.targets[0]
        default = None
        if isinstance(v, ast.Subscript):
            d, k = v.value, v.slice
        elif isinstance(v, ast.Call) and isinstance(
                v.func, ast.Attribute) and v.func.attr == 'get' and \
                1 <= len(v.args) <= 2 and not v.keywords:
            d, k = v.func.value, v.args[0]
            default = v.args[1] if len(v.args) == 2 else ast.Constant(None)
        else:
            return None
        if not isinstance(k, ast.Name):
            return None
        table = self._dict_of(d, cls_scope, local_names)
        if table is None:
            return None
        if isinstance(t, ast.Name):
            names = [t.id]
        elif isinstance(t, (ast.Tuple, ast.List)) and all(
                isinstance(x, ast.Name) for x in t.elts):
            names = [x.id for x in t.elts]
        else:
            return None
        if set(names) & _stores(rest) or k.id in _stores(rest) or \
                k.id in names:
            return None
        rows = []
        for key, row in zip(table.keys, table.values):
            if isinstance(t, ast.Name):
                cells = [row]
            elif isinstance(row, (ast.Tuple, ast.List)) and len(
                    row.elts) == len(names):
                cells = list(row.elts)
            else:
                return None
            if not all(_simple_cell(c) for c in cells):
                return None
            rows.append((key, cells))
        size = sum(1 for _ in _own_nodes(rest)) + 1
        if size * len(rows) > MAX_NODES:
            return None
        funcs = cls_scope.funcs if cls_scope is not None else set()
        if default is not None and isinstance(t, ast.Name):
            tail = _prune_const_ifs(_Subst(
                {names[0]: default}, funcs).visit_all(rest))
        elif default is not None:
            return None
        else:
            tail = [ast.copy_location(ast.Raise(
                exc=ast.Call(func=ast.Name(id='KeyError', ctx=ast.Load()),
                             args=[copy.deepcopy(k)], keywords=[]),
                cause=None), st)]
        for key, cells in reversed(rows):
            sub = _Subst(dict(zip(names, cells)), funcs)
            body = sub.visit_all(rest) or [ast.copy_location(ast.Pass(), st)]
            for b in body:
                _fold_getattr(b)
            body = _prune_const_ifs(_propagate_unpack(
                _prune_const_ifs(body), funcs))
            test = ast.Compare(left=copy.deepcopy(k), ops=[ast.Eq()],
                               comparators=[copy.deepcopy(key)])
            tail = [ast.copy_location(ast.If(test=test, body=body,
                                             orelse=tail), st)]
        self.count += 1
        return tail

    def _unroll(self, loop, table, cls_scope, following):
        t = loop.target
        if isinstance(t, ast.Name):
            names = [t.id]
        elif isinstance(t, (ast.Tuple, ast.List)) and all(
                isinstance(x, ast.Name) for x in t.elts):
            names = [x.id for x in t.elts]
        else:
            return None
        if _breaks(loop.body) or set(names) & _stores(loop.body):
            return None
        if set(names) & _loads(following):
            return None
        rows = []
        for row in table.elts:
            if isinstance(t, ast.Name):
                cells = [row]
            elif isinstance(row, (ast.Tuple, ast.List)) and len(
                    row.elts) == len(names):
                cells = list(row.elts)
            else:
                return None
            if not all(_simple_cell(c) for c in cells):
                return None
            rows.append(cells)
        size = sum(1 for _ in _own_nodes(loop.body))
        if size * len(rows) > MAX_NODES:
            return None
        funcs = cls_scope.funcs if cls_scope is not None else set()
        out = []
        for cells in rows:
            sub = _Subst(dict(zip(names, cells)), funcs)
            sub.class_names = set(cls_scope.counts) if cls_scope is not \
                None else set()
            for st in loop.body:
                new = sub.visit(copy.deepcopy(st))
                _fold_getattr(new)
                out.append(new)
        self.count += 1
        return out


class _Functional(ast.NodeTransformer):
    """map / filter / operator helpers as the comprehensions they stand for:
    map(f, xs) -> (f(x) for x in xs), map(lambda a: e, xs) -> (e for a in
    xs), map(attrgetter('p'), xs) -> (x.p for x in xs), itemgetter(i) ->
    x[i], methodcaller('m', a) -> x.m(a), filter(f, xs) -> (x for x in xs
    if f(x)), filter(None, xs) -> (x for x in xs if x)."""
    def __init__(self):
        self.n = 0

    def _apply(self, f, x):
        """Expression for f(x) with x a fresh Name."""
        if isinstance(f, ast.Lambda) and len(f.args.args) == 1 and not (
                f.args.vararg or f.args.kwarg or f.args.kwonlyargs or
                f.args.defaults):
            return _Subst({f.args.args[0].arg: x}, set()).visit(
                copy.deepcopy(f.body))
        if isinstance(f, ast.Call) and not f.keywords:
            nm = f.func.attr if isinstance(f.func, ast.Attribute) else (
                f.func.id if isinstance(f.func, ast.Name) else '')
            if nm == 'attrgetter' and len(f.args) == 1 and isinstance(
                    f.args[0], ast.Constant) and isinstance(
                        f.args[0].value, str):
                e = x
                for part in f.args[0].value.split('.'):
                    if not part.isidentifier():
                        return None
                    e = ast.Attribute(value=e, attr=part, ctx=ast.Load())
                return e
            if nm == 'itemgetter' and len(f.args) == 1:
                return ast.Subscript(value=x, slice=f.args[0],
                                     ctx=ast.Load())
            if nm == 'methodcaller' and f.args and isinstance(
                    f.args[0], ast.Constant) and isinstance(
                        f.args[0].value, str) and \
                    f.args[0].value.isidentifier():
                return ast.Call(func=ast.Attribute(
                    value=x, attr=f.args[0].value, ctx=ast.Load()),
                    args=list(f.args[1:]), keywords=[])
        if isinstance(f, (ast.Name, ast.Attribute)):
            return ast.Call(func=f, args=[x], keywords=[])
        return None

    def visit_Call(self, node):
        self.generic_visit(node)
        if isinstance(node.func, ast.IfExp):
            # (A if c else B)(x)  ->  A(x) if c else B(x)
            f = node.func
            return ast.copy_location(ast.IfExp(
                test=f.test,
                body=ast.copy_location(ast.Call(
                    func=f.body, args=node.args, keywords=node.keywords),
                    node),
                orelse=ast.copy_location(ast.Call(
                    func=f.orelse, args=copy.deepcopy(node.args),
                    keywords=copy.deepcopy(node.keywords)), node)), node)
        if isinstance(node.func, ast.Name) and node.func.id in (
                'map', 'filter') and len(node.args) == 2 and \
                not node.keywords and not any(
                    isinstance(a, ast.Starred) for a in node.args):
            f, xs = node.args
            var = '_nx{}'.format(self.n)
            x = ast.Name(id=var, ctx=ast.Load())
            if node.func.id == 'map':
                elt = self._apply(f, x)
                conds = []
            else:
                elt = x
                if isinstance(f, ast.Constant) and f.value is None:
                    conds = [ast.Name(id=var, ctx=ast.Load())]
                else:
                    c = self._apply(f, ast.Name(id=var, ctx=ast.Load()))
                    conds = [c] if c is not None else None
            if elt is None or conds is None:
                return node
            self.n += 1
            new = ast.GeneratorExp(elt=elt, generators=[ast.comprehension(
                target=ast.Name(id=var, ctx=ast.Store()), iter=xs,
                ifs=conds, is_async=0)])
            return ast.copy_location(new, node)
        return node


def normalize(tree):
    """Rewrite `tree` in place; returns the number of loops unrolled."""
    mutated = _mutated_names(tree)
    u = _Unroller(_collect(tree.body, mutated), mutated)
    try:
        fx = _Functional()
        fx.visit(tree)
        ast.fix_missing_locations(tree)
        u.run(tree)
        _fold_getattr(tree)
        ast.fix_missing_locations(tree)
    except RecursionError:      # pragma: no cover
        return 0
    return u.count
