"""Statement-level control-flow graph for one function + dominance queries.

Nodes are the statement AST nodes themselves (compound statements stand for
the evaluation of their header: the `if` test, the `for` iterator, the `with`
items), plus ENTRY, EXIT (return / fall off the end) and RAISE (an exception
leaves the function). Only explicit `raise` statements and `assert` create
exceptional edges, except inside `try` bodies where every statement may jump to
every handler (implicit exceptions), which only ever adds paths.
"""
import ast

from .index import AnalysisError

ENTRY, EXIT, RAISE = 'ENTRY', 'EXIT', 'RAISE'

_SIMPLE = (ast.Expr, ast.Assign, ast.AugAssign, ast.AnnAssign, ast.Pass,
           ast.Delete, ast.Import, ast.ImportFrom, ast.Global, ast.Nonlocal,
           ast.FunctionDef, ast.AsyncFunctionDef, ast.ClassDef)


class CFG:
    def __init__(self, func_node):
        self.func = func_node
        self.succ = {ENTRY: set(), EXIT: set(), RAISE: set()}
        self.pred = {ENTRY: set(), EXIT: set(), RAISE: set()}
        self._loops = []      # (continue_target, break_collector)
        self._handlers = []   # list of lists of handler entry collectors
        self._finally = []
        out = self._block(func_node.body, {ENTRY})
        for n in out:
            self._edge(n, EXIT)
        self._dom = None
        self._pdom = None

    # -- construction -----------------------------------------------------
    def _node(self, n):
        if n not in self.succ:
            self.succ[n] = set()
            self.pred[n] = set()

    def _edge(self, a, b):
        self._node(a)
        self._node(b)
        self.succ[a].add(b)
        self.pred[b].add(a)

    def _raise_targets(self):
        """Where does an exception raised here go?"""
        if self._handlers:
            return self._handlers[-1]
        return None

    def _link_raise(self, n):
        tgt = self._raise_targets()
        if tgt is None:
            self._edge(n, RAISE)
        else:
            tgt.append(n)

    def _block(self, stmts, preds):
        cur = set(preds)
        for st in stmts:
            cur = self._stmt(st, cur)
        return cur

    def _stmt(self, st, preds):
        for p in preds:
            self._edge(p, st)
        self._node(st)
        in_try = bool(self._handlers)
        if in_try and not isinstance(st, (ast.Raise,)):
            # implicit exception edge to the enclosing handlers
            self._handlers[-1].append(st)

        if isinstance(st, _SIMPLE):
            return {st}
        if isinstance(st, ast.Return):
            if self._finally:
                self._finally[-1].append(st)
            else:
                self._edge(st, EXIT)
            return set()
        if isinstance(st, ast.Raise):
            self._link_raise(st)
            return set()
        if isinstance(st, ast.Assert):
            self._link_raise(st)
            return {st}
        if isinstance(st, ast.If):
            a = self._block(st.body, {st})
            b = self._block(st.orelse, {st}) if st.orelse else {st}
            return a | b
        if isinstance(st, (ast.For, ast.AsyncFor, ast.While)):
            brk = []
            self._loops.append((st, brk))
            body_out = self._block(st.body, {st})
            self._loops.pop()
            for n in body_out:
                self._edge(n, st)
            out = self._block(st.orelse, {st}) if st.orelse else {st}
            return out | set(brk)
        if isinstance(st, ast.Break):
            if not self._loops:
                raise AnalysisError('break outside loop')
            self._loops[-1][1].append(st)
            return set()
        if isinstance(st, ast.Continue):
            if not self._loops:
                raise AnalysisError('continue outside loop')
            self._edge(st, self._loops[-1][0])
            return set()
        if isinstance(st, (ast.With, ast.AsyncWith)):
            return self._block(st.body, {st})
        if isinstance(st, ast.Try):
            return self._try(st)
        if isinstance(st, ast.Match):
            out = set()
            for case in st.cases:
                out |= self._block(case.body, {st})
            return out | {st}
        raise AnalysisError('unsupported statement kind in CFG: ' +
                            type(st).__name__)

    def _try(self, st):
        raisers = []
        has_finally = bool(st.finalbody)
        fin_returns = []
        if has_finally:
            self._finally.append(fin_returns)
        if st.handlers:
            self._handlers.append(raisers)
            body_out = self._block(st.body, {st})
            self._handlers.pop()
        else:
            # try/finally only: exceptions go through finally and outwards
            self._handlers.append(raisers)
            body_out = self._block(st.body, {st})
            self._handlers.pop()
        else_out = self._block(st.orelse, body_out) if st.orelse else body_out
        out = set(else_out)
        unhandled = []
        if st.handlers:
            catches_all = False
            for h in st.handlers:
                self._node(h)
                for r in raisers:
                    self._edge(r, h)
                self._edge(st, h)
                if h.type is None or (isinstance(h.type, ast.Name) and
                                      h.type.id in ('Exception',
                                                    'BaseException')):
                    catches_all = True
                # exceptions inside a handler propagate outwards
                if has_finally:
                    self._handlers.append(unhandled)
                    out |= self._block(h.body, {h})
                    self._handlers.pop()
                else:
                    out |= self._block(h.body, {h})
            if not catches_all:
                unhandled += raisers
        else:
            unhandled += raisers
        if has_finally:
            self._finally.pop()
            fin_in = set(out) | set(unhandled) | set(fin_returns)
            fin_out = self._block(st.finalbody, fin_in or {st})
            if unhandled:
                for n in fin_out:
                    self._link_raise(n)
            if fin_returns:
                for n in fin_out:
                    if self._finally:
                        self._finally[-1].append(n)
                    else:
                        self._edge(n, EXIT)
            return fin_out if out else set()
        for r in unhandled:
            self._link_raise(r)
        return out

    # -- queries ------------------------------------------------------------
    @property
    def nodes(self):
        return list(self.succ)

    def stmt_of(self, node):
        n = node
        while n is not None and n not in self.succ:
            n = getattr(n, '_parent', None)
        if n is None:
            raise AnalysisError('expression is not inside the analysed '
                                'function')
        return n

    def _compute_dom(self, succ, pred, root):
        nodes = self._reachable(succ, root)
        dom = {n: set(nodes) for n in nodes}
        dom[root] = {root}
        changed = True
        order = list(nodes)
        while changed:
            changed = False
            for n in order:
                if n == root:
                    continue
                ps = [dom[p] for p in pred[n] if p in dom]
                new = set.intersection(*ps) if ps else set()
                new = new | {n}
                if new != dom[n]:
                    dom[n] = new
                    changed = True
        return dom

    @staticmethod
    def _reachable(succ, root):
        seen, stack = {root}, [root]
        while stack:
            n = stack.pop()
            for s in succ.get(n, ()):
                if s not in seen:
                    seen.add(s)
                    stack.append(s)
        return seen

    def dominates(self, a, b):
        """Every path ENTRY -> b passes through a."""
        if self._dom is None:
            self._dom = self._compute_dom(self.succ, self.pred, ENTRY)
        if b not in self._dom:
            return True     # b unreachable
        return a in self._dom[b]

    def _postdom(self):
        if self._pdom is None:
            END = 'END'
            succ = {n: set(v) for n, v in self.pred.items()}   # reversed
            pred = {n: set(v) for n, v in self.succ.items()}
            succ[END] = {EXIT, RAISE}
            pred[END] = set()
            pred.setdefault(EXIT, set()).add(END)
            pred.setdefault(RAISE, set()).add(END)
            self._pdom = self._compute_dom(succ, pred, END)
        return self._pdom

    def control_deps(self, stmt):
        """Branching statements (if / for / while headers) the execution of
        `stmt` is control dependent on, transitively: a branch has a
        successor from which `stmt` is unavoidable, and another way out
        that avoids it (an early `return` inside a loop makes the code
        after the loop depend on the loop and on the test of the return)."""
        pdom = self._postdom()
        out, todo, seen = [], [stmt], {stmt}
        while todo:
            s = todo.pop()
            if s not in pdom:
                continue
            for b in self.succ:
                if b in (ENTRY, EXIT, RAISE) or len(self.succ[b]) < 2 or \
                        b in seen:
                    continue
                if not isinstance(b, (ast.If, ast.For, ast.AsyncFor,
                                      ast.While)):
                    continue
                strictly = b is not s and s in pdom.get(b, ())
                if strictly:
                    continue
                if any(x is s or s in pdom.get(x, ())
                       for x in self.succ[b]):
                    seen.add(b)
                    out.append(b)
                    todo.append(b)
        return out

    def reaches(self, src, dst, avoiding=()):
        """Is there a path src -> dst that avoids the given nodes?"""
        avoiding = set(avoiding)
        if src in avoiding:
            return False
        seen, stack = {src}, [src]
        while stack:
            n = stack.pop()
            for s in self.succ.get(n, ()):
                if s in avoiding or s in seen:
                    continue
                if s == dst:
                    return True
                seen.add(s)
                stack.append(s)
        return False

    def must_pass(self, through, target=EXIT, source=ENTRY):
        """Every path source -> target passes through one of `through`."""
        return not self.reaches(source, target, avoiding=through)

    def reachable(self, node):
        return node in self._reachable(self.succ, ENTRY)


def build(func_node):
    return CFG(func_node)
