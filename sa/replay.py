"""Print a replay file written by a failed check: the violated rule instances
with file, function, construct and the rule text. `python -m sa.replay <path>`
"""
import json
import sys


def main():
    d = json.load(open(sys.argv[1]))
    print('property {} ({})'.format(d['property'], d['tier']))
    for v in d['violations']:
        print('- rule {}: {}'.format(v['rule'], d['rules'].get(v['rule'], '')))
        print('  instance: {}'.format(v['instance']))
        print('  site:     {}'.format(v.get('site')))
        print('  detail:   {}'.format(v.get('detail')))
    print('re-run: /venv/bin/python -m sa.run --property {} --tier {}'.format(
        d['property'], d['tier']))


if __name__ == '__main__':
    main()
