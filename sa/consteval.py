"""Constant folding over the AST: string/regex/list/dict constants.

Platform-conditional constants are folded under the stated assumption
"host family = posix". Nothing from /repo is executed; only literals found in
the source are combined with the operators the source applies to them.
"""
import ast

from .index import AnalysisError, unparse


class _Unknown:
    def __repr__(self):
        return 'UNKNOWN'

    def __bool__(self):
        return False


UNKNOWN = _Unknown()


class RegexConst:
    def __init__(self, pattern, flags=0):
        self.pattern = pattern
        self.flags = flags

    def __repr__(self):
        return 'RegexConst({!r})'.format(self.pattern)


class EnumMember:
    def __init__(self, enum, name, value=None):
        self.enum = enum
        self.name = name
        self.value = value

    def __eq__(self, o):
        return (isinstance(o, EnumMember) and o.enum == self.enum and
                o.name == self.name)

    def __hash__(self):
        return hash((self.enum, self.name))

    def __repr__(self):
        return '{}.{}'.format(self.enum, self.name)


class FuncRef:
    """A repository function used as a value (dispatch tables)."""
    def __init__(self, func):
        self.func = func

    def __eq__(self, o):
        return isinstance(o, FuncRef) and o.func is self.func

    def __hash__(self):
        return hash(id(self.func))

    def __repr__(self):
        return 'FuncRef({})'.format(self.func.fq)


class BoundConst:
    """A method of a constant object used as a value (`_target_ex.sub`)."""
    def __init__(self, obj, name):
        self.obj, self.name = obj, name

    def __repr__(self):
        return 'BoundConst({!r}.{})'.format(self.obj, self.name)


class PartialConst:
    """functools.partial(<constant callable>, <constant arguments>)."""
    def __init__(self, func, args):
        self.func, self.args = func, tuple(args)

    def __repr__(self):
        return 'PartialConst({!r}, {!r})'.format(self.func, self.args)


class Sentinel:
    """The unique object created by one `object()` expression."""
    def __init__(self, node):
        self.node = node

    def __eq__(self, o):
        return isinstance(o, Sentinel) and o.node is self.node

    def __hash__(self):
        return hash(id(self.node))

    def __repr__(self):
        return 'Sentinel@{}'.format(getattr(self.node, 'lineno', '?'))


POSIX_FOLD = {
    'platform_info().family': 'posix',
}


def enum_members(repo, module, name):
    """Members of an Enum defined in `module` under `name`, either functional
    (`Enum('Syntax', [...])`) or class-based. Returns list of names."""
    m = repo.module(module) if isinstance(module, str) else module
    if name in m.assigns:
        v = m.assigns[name]
        is_enum_ctor = False
        if isinstance(v, ast.Call) and len(v.args) == 2:
            ft = unparse(v.func)
            if ft in ('Enum', 'enum.Enum'):
                is_enum_ctor = True
            else:
                r = repo.resolve_expr(m, v.func) if isinstance(
                    v.func, (ast.Name, ast.Attribute)) else None
                if r and r[0] == 'class' and any(
                        'Enum' in b or 'Flag' in b
                        for b in r[1].external_bases()):
                    is_enum_ctor = True
        if is_enum_ctor:
            lst = const_eval(repo, m, v.args[1])
            if isinstance(lst, (list, tuple)):
                return list(lst)
            if isinstance(lst, str):
                return lst.replace(',', ' ').split()
    d = m.defs.get(name)
    if isinstance(d, ast.ClassDef):
        ci = d._cls
        return [k for k, v in ci.attrs.items() if not k.startswith('_')]
    raise AnalysisError('cannot enumerate members of enum {}:{}'.format(
        m.name, name))


def const_eval(repo, module, expr, cls=None, local=None, depth=0):
    """Fold `expr` to a Python constant, RegexConst, EnumMember or UNKNOWN."""
    if depth > 25:
        return UNKNOWN
    ev = lambda e: const_eval(repo, module, e, cls, local, depth + 1)  # noqa

    if isinstance(expr, ast.Constant):
        return expr.value
    if isinstance(expr, ast.JoinedStr):
        out = ''
        for v in expr.values:
            if isinstance(v, ast.Constant):
                out += str(v.value)
            elif isinstance(v, ast.FormattedValue):
                x = ev(v.value)
                if x is UNKNOWN or not isinstance(x, (str, int)):
                    return UNKNOWN
                out += str(x)
        return out
    if isinstance(expr, (ast.List, ast.Tuple, ast.Set)):
        vals = [ev(e) for e in expr.elts]
        if any(v is UNKNOWN for v in vals):
            return UNKNOWN
        if isinstance(expr, ast.Tuple):
            return tuple(vals)
        if isinstance(expr, ast.Set):
            try:
                return frozenset(vals)
            except TypeError:
                return UNKNOWN
        return vals
    if isinstance(expr, ast.Dict):
        out = {}
        for k, v in zip(expr.keys, expr.values):
            if k is None:
                return UNKNOWN
            kk, vv = ev(k), ev(v)
            if kk is UNKNOWN or vv is UNKNOWN:
                return UNKNOWN
            try:
                out[kk] = vv
            except TypeError:
                return UNKNOWN
        return out
    if isinstance(expr, ast.BinOp):
        l, r = ev(expr.left), ev(expr.right)
        if l is UNKNOWN or r is UNKNOWN:
            return UNKNOWN
        try:
            if isinstance(expr.op, ast.Add):
                return l + r
            if isinstance(expr.op, ast.Mod):
                return l % r
            if isinstance(expr.op, ast.Mult):
                return l * r
        except Exception:
            return UNKNOWN
        return UNKNOWN
    if isinstance(expr, ast.IfExp):
        t = fold_test(repo, module, expr.test, cls, local, depth)
        if t is True:
            return ev(expr.body)
        if t is False:
            return ev(expr.orelse)
        return UNKNOWN
    if isinstance(expr, ast.Compare) or isinstance(expr, ast.BoolOp):
        t = fold_test(repo, module, expr, cls, local, depth)
        return UNKNOWN if t is None else t
    if isinstance(expr, ast.Name):
        if local and expr.id in local:
            v = local[expr.id]
            if isinstance(v, ast.AST):
                return const_eval(repo, module, v, cls, None, depth + 1)
            return v
        if cls is not None:
            owner, v = cls.find_attr(expr.id)
            if v is not None and expr.id in cls.attrs:
                return const_eval(repo, owner.module, v, owner, None,
                                  depth + 1)
        r = repo.resolve_symbol(module.name, expr.id)
        return _from_resolved(repo, r, depth)
    if isinstance(expr, ast.Attribute):
        base = expr.value
        if (isinstance(base, ast.Name) and base.id in ('cls', 'self') and
                cls is not None):
            owner, v = cls.find_attr(expr.attr)
            if v is not None:
                return const_eval(repo, owner.module, v, owner, None,
                                  depth + 1)
            return UNKNOWN
        txt = unparse(expr)
        if txt in POSIX_FOLD:
            return POSIX_FOLD[txt]
        if expr.attr in ('sub', 'subn', 'search', 'match', 'fullmatch') and \
                isinstance(base, ast.Name) and depth < 20:
            bv = ev(base)
            if isinstance(bv, RegexConst):
                return BoundConst(bv, expr.attr)
        r = repo.resolve_expr(module, expr, None)
        if r is None and isinstance(base, (ast.Name, ast.Attribute)):
            # Enum member access: Syntax.shell
            br = repo.resolve_expr(module, base, None)
            if br is not None and br[0] == 'value':
                try:
                    mem = enum_members(repo, br[1], br[2])
                except AnalysisError:
                    mem = None
                if mem and expr.attr in mem:
                    return EnumMember(br[1].name + ':' + br[2], expr.attr)
            if br is not None and br[0] == 'class' and any(
                    'Enum' in b or 'Flag' in b
                    for b in br[1].external_bases()):
                if expr.attr in br[1].attrs:
                    return EnumMember(
                        br[1].fq, expr.attr,
                        const_eval(repo, br[1].module,
                                   br[1].attrs[expr.attr], br[1], None,
                                   depth + 1))
            return UNKNOWN
        if r is not None and r[0] == 'valueattr':
            b = r[1]
            try:
                mem = enum_members(repo, b[1], b[2])
            except AnalysisError:
                mem = None
            if mem and r[2] in mem:
                return EnumMember(b[1].name + ':' + b[2], r[2])
            return UNKNOWN
        if r is not None and r[0] == 'classattr':
            owner = r[1]
            if any('Enum' in b or 'Flag' in b
                   for b in owner.external_bases()):
                return EnumMember(owner.fq, r[2], const_eval(
                    repo, owner.module, r[3], owner, None, depth + 1))
            return const_eval(repo, owner.module, r[3], owner, None,
                              depth + 1)
        return _from_resolved(repo, r, depth)
    if isinstance(expr, ast.Subscript):
        base, idx = ev(expr.value), ev(expr.slice)
        if base is UNKNOWN or idx is UNKNOWN or not isinstance(
                base, (dict, list, tuple, str)):
            return UNKNOWN
        try:
            return base[idx]
        except Exception:
            return UNKNOWN
    if isinstance(expr, ast.Call):
        fn = unparse(expr.func)
        if fn == 'object' and not expr.args and not expr.keywords:
            return Sentinel(expr)
        if fn in ('partial', 'functools.partial') and expr.args and \
                not expr.keywords:
            vals = [ev(a) for a in expr.args]
            if any(v is UNKNOWN for v in vals):
                return UNKNOWN
            return PartialConst(vals[0], vals[1:])
        if isinstance(expr.func, ast.Name) and depth < 12:
            # a call of a small pure repository function with constant
            # arguments (a regex factory, a string builder): folded
            fv = ev(expr.func)
            if isinstance(fv, FuncRef):
                vals = [ev(a) for a in expr.args]
                kws = {k.arg: ev(k.value) for k in expr.keywords if k.arg}
                if not any(v is UNKNOWN for v in vals) and not any(
                        v is UNKNOWN for v in kws.values()) and all(
                            k.arg for k in expr.keywords):
                    return _fold_call(repo, fv.func, vals, kws, depth + 1)
                return UNKNOWN
        is_re_compile = fn == 're.compile'
        if not is_re_compile and isinstance(expr.func, ast.Attribute) and \
                expr.func.attr == 'compile' and isinstance(
                    expr.func.value, ast.Name):
            imp = getattr(module, 'imports', {}).get(expr.func.value.id)
            is_re_compile = imp == ('module', 're')
        if is_re_compile and expr.args:
            p = ev(expr.args[0])
            if isinstance(p, str):
                return RegexConst(p)
            return UNKNOWN
        if isinstance(expr.func, ast.Attribute):
            recv = ev(expr.func.value)
            meth = expr.func.attr
            if isinstance(recv, dict) and meth == 'get' and \
                    1 <= len(expr.args) <= 2 and not expr.keywords:
                args = [ev(a) for a in expr.args]
                if any(a is UNKNOWN for a in args):
                    return UNKNOWN
                try:
                    return recv.get(*args)
                except TypeError:
                    return UNKNOWN
            if isinstance(recv, str):
                args = [ev(a) for a in expr.args]
                if any(a is UNKNOWN for a in args) or expr.keywords:
                    return UNKNOWN
                try:
                    if meth == 'format':
                        return recv.format(*args)
                    if meth in ('strip', 'lstrip', 'rstrip', 'upper',
                                'lower', 'replace', 'split', 'join'):
                        return getattr(recv, meth)(*args)
                except Exception:
                    return UNKNOWN
        return UNKNOWN
    return UNKNOWN


def _from_resolved(repo, r, depth):
    if r is None:
        return UNKNOWN
    if r[0] == 'func':
        return FuncRef(r[1])
    if r[0] == 'value' and r[3] is not None:
        v = const_eval(repo, r[1], r[3], None, None, depth + 1)
        items = getattr(r[1], 'item_assigns', {}).get(r[2])
        if items and isinstance(v, dict):
            # a module-level table filled by item assignment
            v = dict(v)
            for k_, v_ in items:
                kk = const_eval(repo, r[1], k_, None, None, depth + 1)
                vv = const_eval(repo, r[1], v_, None, None, depth + 1)
                if kk is UNKNOWN or vv is UNKNOWN:
                    return UNKNOWN
                try:
                    v[kk] = vv
                except TypeError:
                    return UNKNOWN
        return v
    return UNKNOWN


def fold_test(repo, module, test, cls=None, local=None, depth=0):
    """Fold a boolean test to True/False, or None when unknown."""
    if isinstance(test, ast.BoolOp):
        vals = [fold_test(repo, module, v, cls, local, depth + 1)
                for v in test.values]
        if isinstance(test.op, ast.And):
            if any(v is False for v in vals):
                return False
            if all(v is True for v in vals):
                return True
            return None
        if any(v is True for v in vals):
            return True
        if all(v is False for v in vals):
            return False
        return None
    if isinstance(test, ast.UnaryOp) and isinstance(test.op, ast.Not):
        v = fold_test(repo, module, test.operand, cls, local, depth + 1)
        return None if v is None else (not v)
    if isinstance(test, ast.Compare) and len(test.ops) == 1:
        l = const_eval(repo, module, test.left, cls, local, depth + 1)
        r = const_eval(repo, module, test.comparators[0], cls, local,
                       depth + 1)
        if l is UNKNOWN or r is UNKNOWN:
            return None
        op = test.ops[0]
        try:
            if isinstance(op, ast.Eq):
                return l == r
            if isinstance(op, ast.NotEq):
                return l != r
            if isinstance(op, ast.In):
                return l in r
            if isinstance(op, ast.NotIn):
                return l not in r
            if isinstance(op, ast.Is):
                return l is r or (l == r and isinstance(
                    l, (EnumMember, Sentinel, FuncRef)))
            if isinstance(op, ast.IsNot):
                return not (l is r or (l == r and isinstance(
                    l, (EnumMember, Sentinel, FuncRef))))
        except Exception:
            return None
        return None
    v = const_eval(repo, module, test, cls, local, depth + 1) \
        if not isinstance(test, (ast.Compare, ast.BoolOp)) else UNKNOWN
    if v is UNKNOWN:
        return None
    return bool(v)


class _Subst(ast.NodeTransformer):
    def __init__(self, mapping):
        self.mapping = mapping

    def visit(self, node):
        if isinstance(node, ast.expr):
            try:
                t = ast.unparse(node)
            except Exception:
                t = None
            if t in self.mapping:
                v = self.mapping[t]
                if isinstance(v, ast.AST):
                    return v
                return ast.copy_location(_to_ast(v), node)
        return super().visit(node)


def _to_ast(v):
    if isinstance(v, dict):
        return ast.Dict(keys=[_to_ast(k) for k in v],
                        values=[_to_ast(x) for x in v.values()])
    if isinstance(v, (list, tuple, set, frozenset)):
        elts = [_to_ast(x) for x in v]
        if isinstance(v, tuple):
            return ast.Tuple(elts=elts, ctx=ast.Load())
        if isinstance(v, (set, frozenset)):
            return ast.Set(elts=elts)
        return ast.List(elts=elts, ctx=ast.Load())
    return ast.Constant(v)


def _copy_tree(node):
    """Structural copy of an AST (fields and positions only; the index's
    parent back-pointers are not followed)."""
    if isinstance(node, list):
        return [_copy_tree(x) for x in node]
    if not isinstance(node, ast.AST):
        return node
    new = type(node)()
    for f in node._fields:
        if hasattr(node, f):
            setattr(new, f, _copy_tree(getattr(node, f)))
    for a in node._attributes:
        if hasattr(node, a):
            setattr(new, a, getattr(node, a))
    return new


def subst_eval(repo, module, expr, mapping, cls=None):
    """Fold `expr` after replacing every sub-expression whose source text is a
    key of `mapping` by the mapped constant (e.g. {'self.lang': 'c++'}).
    Subscripts of constant dicts and `in` tests are folded too."""
    e = _Subst(mapping).visit(_copy_tree(expr))
    ast.fix_missing_locations(e)
    return _fold2(repo, module, e, cls)


def _fold2(repo, module, e, cls):
    if isinstance(e, ast.Subscript):
        base = _fold2(repo, module, e.value, cls)
        key = _fold2(repo, module, e.slice, cls)
        if isinstance(base, dict) and key is not UNKNOWN:
            return base.get(key, UNKNOWN)
        if isinstance(base, (list, tuple)) and isinstance(key, int):
            try:
                return base[key]
            except IndexError:
                return UNKNOWN
        return UNKNOWN
    if isinstance(e, ast.IfExp):
        t = _fold2(repo, module, e.test, cls)
        if t is UNKNOWN:
            return UNKNOWN
        return _fold2(repo, module, e.body if t else e.orelse, cls)
    if isinstance(e, ast.Compare) and len(e.ops) == 1:
        l = _fold2(repo, module, e.left, cls)
        r = _fold2(repo, module, e.comparators[0], cls)
        if l is UNKNOWN or r is UNKNOWN:
            return UNKNOWN
        op = e.ops[0]
        try:
            if isinstance(op, ast.In):
                return l in r
            if isinstance(op, ast.NotIn):
                return l not in r
            if isinstance(op, ast.Eq):
                return l == r
            if isinstance(op, ast.NotEq):
                return l != r
        except Exception:
            return UNKNOWN
    if isinstance(e, ast.Call) and isinstance(e.func, ast.Attribute) and \
            e.func.attr in ('endswith', 'startswith') and len(e.args) == 1:
        recv = _fold2(repo, module, e.func.value, cls)
        a = _fold2(repo, module, e.args[0], cls)
        if isinstance(recv, str) and isinstance(a, (str, tuple)):
            return getattr(recv, e.func.attr)(a)
        return UNKNOWN
    if isinstance(e, ast.Tuple):
        vals = [_fold2(repo, module, x, cls) for x in e.elts]
        if any(v is UNKNOWN for v in vals):
            return UNKNOWN
        return tuple(vals)
    return const_eval(repo, module, e, cls)


def repl_to_template(repo, module, fnode):
    """A `re.sub` replacement *function* whose body is a single `return` of
    match groups and constants joined by `+` (optionally repeated with
    `* n`), turned into the equivalent replacement template; UNKNOWN when
    the function has another shape."""
    body = [st for st in fnode.body if not (isinstance(st, ast.Expr) and
                                            isinstance(st.value, ast.Constant))]
    if isinstance(fnode, ast.Lambda):
        ret = fnode.body
        params = [a.arg for a in fnode.args.args]
    else:
        params = [a.arg for a in fnode.args.args if a.arg not in ('self',
                                                                  'cls')]
        env = {}
        for st in body[:-1]:
            # named temporaries: a, b = m.group(1), m.group(2) / a = m.group(1)
            if isinstance(st, ast.Assign) and len(st.targets) == 1:
                t, v = st.targets[0], st.value
                if isinstance(t, ast.Name):
                    env[t.id] = v
                    continue
                if isinstance(t, ast.Tuple) and isinstance(
                        v, ast.Tuple) and len(t.elts) == len(v.elts) and all(
                            isinstance(x, ast.Name) for x in t.elts):
                    for x, y in zip(t.elts, v.elts):
                        env[x.id] = y
                    continue
            return UNKNOWN
        if not body or not isinstance(body[-1], ast.Return) or \
                body[-1].value is None:
            return UNKNOWN
        ret = body[-1].value
    if not params:
        return UNKNOWN
    m = params[0]
    if isinstance(fnode, ast.Lambda):
        env = {}

    def tmpl(e, depth=0):
        if depth > 8:
            return UNKNOWN
        if isinstance(e, ast.Name) and e.id in env:
            return tmpl(env[e.id], depth + 1)
        if isinstance(e, ast.BinOp) and isinstance(e.op, ast.Add):
            l, r = tmpl(e.left, depth + 1), tmpl(e.right, depth + 1)
            return UNKNOWN if l is UNKNOWN or r is UNKNOWN else l + r
        if isinstance(e, ast.BinOp) and isinstance(e.op, ast.Mult):
            for a, b in ((e.left, e.right), (e.right, e.left)):
                n = const_eval(repo, module, b)
                if isinstance(n, int) and 0 <= n <= 4:
                    t = tmpl(a, depth + 1)
                    return UNKNOWN if t is UNKNOWN else t * n
            return UNKNOWN
        if isinstance(e, ast.Call) and isinstance(
                e.func, ast.Attribute) and e.func.attr == 'group' and \
                isinstance(e.func.value, ast.Name) and \
                e.func.value.id == m and len(e.args) <= 1:
            k = const_eval(repo, module, e.args[0]) if e.args else 0
            if isinstance(k, int):
                return '\\g<{}>'.format(k)
            if isinstance(k, str) and k.isidentifier():
                return '\\g<{}>'.format(k)
            return UNKNOWN
        if isinstance(e, ast.Subscript) and isinstance(
                e.value, ast.Name) and e.value.id == m:
            k = const_eval(repo, module, e.slice)
            if isinstance(k, int) or isinstance(k, str) and k.isidentifier():
                return '\\g<{}>'.format(k)
            return UNKNOWN
        v = const_eval(repo, module, e)
        if isinstance(v, str):
            return v.replace('\\', '\\\\')
        return UNKNOWN
    return tmpl(ret)


def _fold_call(repo, fi, args, kwargs, depth):
    """Value of a call of a small pure function (assignments of locals,
    foldable ifs, one return per path) with constant arguments."""
    a_ = fi.node.args
    if a_.vararg or a_.kwarg or a_.kwonlyargs:
        return UNKNOWN
    names = [x.arg for x in a_.posonlyargs + a_.args]
    if len(args) > len(names):
        return UNKNOWN
    env = {}
    defaults = a_.defaults
    for i, n in enumerate(names):
        if i < len(args):
            env[n] = args[i]
        elif n in kwargs:
            env[n] = kwargs[n]
        else:
            j = i - (len(names) - len(defaults))
            if j < 0:
                return UNKNOWN
            v = const_eval(repo, fi.module, defaults[j], None, None, depth)
            if v is UNKNOWN:
                return UNKNOWN
            env[n] = v

    def block(body):
        for st in body:
            if isinstance(st, ast.Expr) and isinstance(st.value,
                                                       ast.Constant):
                continue
            if isinstance(st, ast.Assign) and len(st.targets) == 1 and \
                    isinstance(st.targets[0], ast.Name):
                v = const_eval(repo, fi.module, st.value, None, env, depth)
                if v is UNKNOWN:
                    return UNKNOWN
                env[st.targets[0].id] = v
                continue
            if isinstance(st, ast.If):
                t = fold_test(repo, fi.module, st.test, None, env, depth)
                if t is None:
                    return UNKNOWN
                r = block(st.body if t else st.orelse)
                if r is not None:
                    return r
                continue
            if isinstance(st, ast.Return):
                if st.value is None:
                    return ('ret', None)
                v = const_eval(repo, fi.module, st.value, None, env, depth)
                return UNKNOWN if v is UNKNOWN else ('ret', v)
            return UNKNOWN
        return None
    r = block(fi.node.body)
    if r is UNKNOWN or r is None:
        return UNKNOWN
    return r[1]
