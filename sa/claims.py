"""What each check claims (copied into MANIFEST.json by tools/gen_manifest.py).

Every claim is "level other": the check decides the named structural clauses
(necessary conditions visible in the code on every path / at every site), not
the run-time behaviour the property is stated in.
"""

_TB = ('Trusted base: the ast-based index/resolver in /verif/sa, the reader-'
       'side tables in sa/tables.py (GNU Make, Ninja, POSIX sh, pkg-config, '
       'GCC option grammar), host family folded to posix, and the instance '
       'tables confirmed by reading the code (a vanished anchor is exit 2, '
       'never a pass). ')

CLAIMS = {
    'C05': {
        'text': 'Decides four structural clauses on every run: (PARREF-REGEX) '
                'the parent-reference rewrite in within_directory matches '
                'exactly the component ".."; (RULE-OWNER) only Makefile.rule/'
                'NinjaFile.build register rules and a duplicate test with '
                'raise dominates registration for every target; (OUTPUT-ROOT) '
                'every implicitly named output path (all tool output_file '
                'methods, copy/compress path functions, build_step outputs, '
                'stamp files, intermediate dirs) is rooted in builddir; '
                '(WRITE-ROOT) every open-for-write/remove/utime/makedirs of '
                'configure/regenerate targets a builddir-derived path. These '
                'are necessary conditions of the property for all inputs at '
                'once; the behaviour itself (injectivity of naming over all '
                'path pairs) is not decided.',
        'note': _TB + 'Not decided: injectivity of output naming beyond the '
                'rewrite; explicit absolute output names.',
        'technique': 'regex structure analysis (re._parser) + CFG dominance '
                     '+ inter-procedural root-provenance dataflow over ast',
    },
}

_PENDING = 'check not built yet in this session (design in DESIGN.md)'

NOT_APPLICABLE = {
    'C%02d' % i: _PENDING for i in range(1, 21)
}
