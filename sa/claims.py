"""What each check claims (copied into MANIFEST.json by tools/gen_manifest.py).

Every claim is "level other": the check decides the named structural clauses
(necessary conditions visible in the code on every path / at every site), not
the run-time behaviour the property is stated in.
"""

_TB = ('Trusted base: the ast-based index/resolver and the flow engine in '
       '/verif/sa (flow.py: access-path value flow through locals, loops, '
       'comprehensions, containers and repository helpers with parameters '
       'bound; facts.py: effects, guards with polarity, control dependence, '
       'dominance, reaching definitions, record shapes; absint.py: finite-'
       'domain interpretation of small decision functions), the reader-side '
       'tables in sa/tables.py (GNU Make, Ninja, POSIX sh, pkg-config, GCC '
       'option grammar), host family folded to posix, and the instance '
       'tables confirmed by reading the code (a vanished anchor is exit 2, '
       'never a pass). Rules are facts about the resolved program, not '
       'matches of source text: the 80 behaviour-preserving refactorings in '
       '/verif/neutral raise no alarm (thorough tier re-checks this). ')

CLAIMS = {
    'C05': {
        'text': 'Decides four structural clauses on every run: (PARREF-REGEX) '
                'the parent-reference rewrite in within_directory matches '
                'exactly the component ".."; (RULE-OWNER) only Makefile.rule/'
                'NinjaFile.build register rules and a duplicate test with '
                'raise dominates registration for every target; (OUTPUT-ROOT) '
                'every implicitly named output path (all tool output_file '
                'methods, copy/compress path functions, build_step outputs, '
                'stamp files, intermediate dirs) is rooted in builddir; '
                '(WRITE-ROOT) every open-for-write/remove/utime/makedirs of '
                'configure/regenerate targets a builddir-derived path. These '
                'are necessary conditions of the property for all inputs at '
                'once; the behaviour itself (injectivity of naming over all '
                'path pairs) is not decided.'
                ' Added: NAME-STRIP-ONCE (default_name + output_file strip the extension at most once), every suffix reaching directory.append passed the parent-reference rewrite, PATH-COMPONENTWISE (no string-prefix/ordering operations on path suffixes). output_file takes no decision on the content of the name (name.endswith(...) style tests make naming non-injective). RULE-OWNER finds the loop over all names anywhere on the call path.',
        'note': _TB + 'Not decided: injectivity of output naming beyond the '
                'rewrite; explicit absolute output names.',
        'technique': 'regex structure analysis (re._parser) + CFG dominance '
                     '+ inter-procedural root-provenance dataflow over ast',
    },
}

CLAIMS.update({
    'C01': {
        'text': 'Decides, for all argument strings at once, the structural '
                'clauses: (ESC-MAKE) every Syntax member escapes every GNU '
                'Make metacharacter of the lexical contexts it is designed '
                'for (and SYNTAX-POSITION: each kind of build-file data is '
                'written only with the members designed for its position) -- the writer\'s '
                'table is extracted from Writer.escape_str by summarising it '
                'per Syntax member, the reader\'s table is sa/tables.py; '
                '(WRITE-FLOW) in Writer.write only guarded literal text, '
                'escape_str results or nested-writer output reach the stream, '
                'shell quoting precedes Make escaping, paths are quoted as '
                'one unit, the "shelly" set equals the shell contexts; '
                '(LIT-SITES, LITERAL-ORIGIN) text exempt from escaping is '
                'built from constants and sanitised identifiers only; '
                '(SH-SAFE) the characters the sh quoter leaves bare are not '
                'special to sh or in first recipe position, and the quote '
                'replacement lexes back to a quote. It does not decide the '
                'round trip quote -> make -> sh for every string.'
                ' Added after the seeded round: Writer.quote must stay a plain sh quoter (its caller quotes already-escaped text), TARGET-VAR-SCOPE (per-target flags are pattern-specific `%:` variables so options do not leak into prerequisites), ENV-EXPORT (make_command hands global_env(rule.env, rule.cmds) to the recipe), and the comma-protection instance of ESC-MAKE (F13). Round 8: no over-escaping (an escape the reader does not undo in a context of the member), and one ESC-MAKE instance per producer of run-time Make variable values (F1 per producer).',
        'note': _TB + 'Not decided: that sh un-quoting o Make expansion o '
                'quote is the identity over all strings (incl. wrap_quotes '
                'de-duplication). Known findings F1, F10, F11 are listed in '
                'KNOWN_FINDINGS.txt.',
        'technique': 'per-Syntax summarisation of escape_str into '
                     'substitution chains + regex class analysis vs. reader '
                     'tables; lexical-context classification of emission '
                     'sites; taint-style origin rule for literals',
    },
    'C02': {
        'text': 'Same rule set as C01 on the Ninja backend: (ESC-NINJA) every '
                'variable value written by NinjaFile escapes $, for every '
                'Syntax member reaching the site; (WRITE-FLOW) on '
                'ninja.syntax.Writer.write; (LIT-SITES) incl. the dominance '
                'of the rule-name validation; (LITERAL-ORIGIN); (SH-SAFE); '
                '(CMD-INDIRECTION) command_build defines the generic rule as '
                'exactly the reference $cmd and passes the real command as a '
                'build-scoped variable so it is $-evaluated once. Decides '
                'these structural clauses, not the evaluated command lines.'
                ' Added after the seeded round: substitution patterns that can consume more than one character per match do not count as escaping, Writer.quote purity, ENV-EXPORT for ninja_command. Round 8: no over-escaping.',
        'note': _TB + 'Not decided: round trip over all strings; Windows '
                'cmd /s /c wrapping (folded away by the posix assumption). '
                'Ninja itself is not installed; its lexical table is cited '
                'from the manual.',
        'technique': 'same engine as C01 on backends/ninja/syntax.py + '
                     'structural check of command_build',
    },
    'C04': {
        'text': 'Decides the path half of the escaping rules for both '
                'backends: every Make path position (rule targets, '
                'prerequisites, order-only, .PHONY, include operands, '
                'find_files depfile entries, path variables) and every Ninja '
                'build-line path is written with a Syntax member whose '
                'escape chain covers all metacharacters of that position '
                '(ESC-MAKE/ESC-NINJA), names left of a colon use '
                'Syntax.target/output and right of it dependency/input '
                '(SYNTAX-POSITION), paths are realised and quoted as one unit '
                '(WRITE-FLOW), and clean passes Path objects for all targets '
                '(CLEAN-PATHS).'
                ' Also DEPFIX-TABLE (shared with C07) for depfile entries with escaped characters, the comma-protection instance (F13), and MK-WORDWISE (no generated Make text applies a word-wise file-name function or a D/F automatic-variable variant to a file name).',
        'note': _TB + 'Not decided: what compilers write into .d files / '
                'depfixer agreement; that the tool then finds the file. '
                'Known findings: srcdir containing #, file names containing '
                'a single quote.',
        'technique': 'escape-table coverage per lexical position (ast + '
                     're._parser) for make and ninja writers',
    },
    'C17': {
        'text': 'Decides structural clauses of the .pc writer: (ESC-PC) every '
                'value site vs. pkg-config\'s comment character; '
                '(PC-FIELD-SYNTAX) Cflags/Libs/Libs.private use Syntax.shell '
                'and come from compiler/linker flags in pkg-config mode, '
                'descriptive fields use Syntax.variable; (WRITE-FLOW) on '
                'shell.syntax.Writer.write; (LITERAL-ORIGIN); (PC-OPS) every '
                'operator surviving simplify_specifiers maps into '
                'pkg-config\'s operator set and all others are rejected; '
                '(PC-REQ-SINGLE) requires use split(single=True) which '
                'raises on several constraints; (PC-VARS) each variant '
                'defines the variables its paths can reference; '
                '(UNORDERED-ITER) no hash-ordered iteration in '
                'builtins.pkg_config/versioning reaches the file.'
                ' Added: PC-BOUND-TIEBREAK (the sort key of simplify_specifiers is evaluated symbolically for the four bound operators: the stricter bound wins). PC-READBACK: pkg-config output is split with escapes=True, auto-filled includes/libs come from install.explicit. Auto-fill happens only for fields that are None.',
        'note': _TB + 'Not decided: what pkg-config prints; equivalence of '
                'simplified specifier sets over all versions. Known finding '
                'F9 (#); F7 repaired by a fix: commit.',
        'technique': 'escape-table coverage, field/syntax table check, '
                     'operator-table agreement, unordered-iteration dataflow',
    },
})

CLAIMS.update({
    'C13': {
        'text': 'Decides three structural clauses over the whole package: '
                '(UNORDERED-ITER) a dataflow analysis finds every hash-'
                'ordered value (set/frozenset constructions, set algebra, '
                'set-valued build_input registries, verspec SpecifierSets, '
                'attributes/returns/parameters carrying them) and requires '
                'every iteration sink to be order-free, sorted with an '
                'injective key, or on a reasoned allow-list of auxiliary '
                'files; (NONDET-API) no time/random/uuid/pid/id()/hash()/'
                'tempfile call in content-producing modules (GUID map '
                'allow-listed); (CLI-ABSPATH) every path argument of the '
                'driver goes through the absolute-ising argparse types. '
                'Necessary conditions for determinism under all hash seeds '
                'and invocation contexts; byte equality is not decided.'
                ' AMBIENT (shared with C09) is applied here too: an environment/cwd read outside the capture makes the output depend on the invocation context.',
        'note': _TB + 'Not decided: byte equality of outputs; os.listdir '
                'order. The unordered analysis is a may-analysis with '
                'definite sources only (no alias analysis of containers '
                'passed through unresolved calls).',
        'technique': 'inter-procedural unordered-value dataflow (sources/'
                     'sinks/sanitisers) + API who-may-call scan',
    },
    'C16': {
        'text': 'Decides: (OPTION-EXHAUSTIVE) every option class defined in '
                'options.py is translated by the cc compiler and/or linker '
                'flag functions on the side its options.py section says, '
                'unknown options raise, every OptimizeValue/WarningValue '
                'member has a translation; (FLAG-GRAMMAR) every flag literal '
                'tools/cc/* can emit is a word of the GCC/Clang driver '
                'option grammar frozen in sa/tables.py; (FLAG-MERGE) target '
                'flags are [global] + per-target in both _get_flags. A flag '
                'outside the grammar is rejected by every gcc/clang, so this '
                'is a necessary condition for all option values at once.'
                ' Added: OPTION-IDENTITY (Option.matches is full equality and no option class weakens it; environment flag variables are split with shell.split; default include dirs are computed with CPATH neutralised). Round 8: per-target flags are not filtered against the global ones; the default-include-directory probe runs with the environment flags; the -l<name> pattern is anchored as a whole (constant-folded for a sample list). Environment flags come before the project\'s global options in the shared _get_flags (the order the compdb emitter uses).',
        'note': _TB + 'Not decided: acceptance by the compiler actually '
                'detected, effect on the program, msvc/jvm translations. F8 '
                '(-Osize) repaired by a fix: commit.',
        'technique': 'exhaustiveness of isinstance dispatch vs. option '
                     'registry + flag-literal extraction matched against an '
                     'option grammar',
    },
})

CLAIMS.update({
    'C03': {
        'text': 'Decides, for every edge type and both backends at once: '
                '(HANDLERS) every instantiated Edge subclass has a make and '
                'a ninja handler and dispatch is by exact type over all '
                'edges; (DEPS-COVER) def-use analysis of every handler shows '
                'that each consumed-node attribute of its edge classes '
                '(sources, objects, libs, pch, headers, package deps, files '
                'named in commands, extra_deps) reaches the dependency '
                'arguments of the emitted statement, and output directories '
                'are order-only; (OUTPUT-COVER) the emitted target derives '
                'from all of rule.output; (PASS-THROUGH) multitarget_rule / '
                'command_build forward those arguments, the stamp carries '
                'them; (RULE-OWNER) one producing rule per file enforced by '
                'a dominating duplicate test; (EDGE-INIT) every Edge '
                'subclass __init__ reaches super().__init__ on all '
                'non-raising paths (CFG must-pass) and Edge registers itself; '
                '(DEFAULTS) all/test/tests/install/alias members come from '
                'the declared sets in both backends. These are necessary '
                'conditions of graph equality for all scripts; rebuild '
                'behaviour over histories is not decided.'
                ' DEPS-COVER additionally requires each consumed attribute to reach the dependency list on a path that is unconditional or guarded only by a presence test of that same attribute; RULE-OWNER requires the registration of a tested name to be unconditional.',
        'note': _TB + 'Table REQUIRED (consumed attributes per edge class) '
                'was confirmed by reading the constructors; a new Edge '
                'subclass outside the table is reported. Roots analysis '
                'over-approximates (any mention counts).',
        'technique': 'decorator-registry model + def-use root analysis of '
                     'handlers + CFG dominance/must-pass',
    },
    'C06': {
        'text': 'Decides sibling agreement of the three emitters per edge '
                'class: registration sets (make = ninja; compdb minus three '
                'reasoned exemptions), equal dependency-root sets of the '
                'make and ninja handlers, both go through the shared '
                '_get_flags with their own backend, the tool call receives '
                'the same keyword set in make/ninja/compdb, compdb uses the '
                'same flag components in the same order and the same global-'
                'options lookup, transform_input is applied in all three, '
                'command steps use global_env(rule.env, rule.cmds) in all '
                'three, depfile argument under the gcc flavor in all three. '
                'It decides agreement of the code shape, not equality of the '
                'evaluated command lines.'
                ' Added: CompDB keeps every entry (list, unconditional append, dumped whole); ENV-EXPORT in all three command emitters; dependency-root comparison uses guard-clean roots; PASS-THROUGH: the make multi-target helper and the ninja command_build helper forward deps/order-only/variables they receive on every path (must-flow); DEPFILE-WIRING (shared with C07): Make includes the depfile of every object, Ninja names it on the rule. compdb path text comes from string(), not the raw suffix. FLAG-MERGE (shared with C16) ties the make/ninja flag order to the compdb one.',
        'note': _TB + 'Not decided: equality of evaluated command lines, '
                'working directories and environments.',
        'technique': 'cross-checking sibling implementations registered in '
                     'the same handler slot (registry model + def-use roots '
                     '+ expression agreement)',
    },
})

CLAIMS.update({
    'C09': {
        'text': 'Decides for every field of the saved configuration at once: '
                '(ENV-FIELDS) keys written by Environment.save = keys read by '
                'load after the upgrade chain = attributes assigned by '
                '__init__/finalize = attributes restored, and the same '
                'writer/reader agreement for Toolchain, EnvVarDict, '
                'RegenerateFiles, FileFilter, FindCacheFile, BasePath; '
                '(UPGRADE-CHAIN) version steps increasing, contiguous, ending '
                'at Environment.version; (MUTATORS) EnvVarDict overrides '
                'every mutating dict method and each records the change; '
                '(AMBIENT) every read of os.environ/getenv/getcwd/argv/'
                'platform.* and every call relying on an os.environ '
                'parameter default is the capture, passes saved variables, '
                'or is allow-listed with a reason; (NULLABLE-ROUNDTRIP) no '
                'total conversion (str/T()) of a field that may be None; '
                '(CTOR-BYPASS) from_json via __new__ sets what __init__ '
                'sets; (LOAD-ONLY) regenerate/env/run take everything from '
                'Environment.load, reset variables before replaying the '
                'toolchain, ignore later command lines. Object equality '
                'over all values is not decided.'
                ' Added: EnvVarDict.reset restores the initial variables on every path (CFG must-pass); the target platform_info() detector may only be called from the configure-time capture. The reset in load_toolchain is evaluated for every member of Regenerating (lazy included).',
        'note': _TB + 'Not decided: equality of configuration objects before '
                'save / after load over all values. F5, F6, F12 repaired by '
                'fix: commits.',
        'technique': 'writer/reader key-set agreement, override '
                     'exhaustiveness, ambient-state who-may-read scan with '
                     'default-parameter call-site analysis, may-return-None '
                     'analysis',
    },
    'C10': {
        'text': 'Decides: (WRITE-ORDER) in configure/regenerate the build-'
                'file writers are dominated by the return of configure_build '
                '(CFG dominance: a raising script cannot reach them); in each '
                'backend write() all hooks and handlers precede the open-for-'
                'write of the build file; the ordered persistent writes of a '
                'run are computed through the hook registry and call graph '
                'and no file read by the lazy-skip decision may be written '
                'before the build file; (EXIT-STATUS) every except clause of '
                'the four driver commands returns a status that cannot be '
                '0/None on all paths, ScriptExitError only carries truthy '
                'codes, AbortConfigure has one raise site dominated by the '
                'touch loop and guarded by the unchanged test. Torn files '
                'and follow-up attempts are not decided.'
                ' The hook phase (pre-rules / handler / post-rules) is part of the WRITE-ORDER instance key.',
        'note': _TB + 'Not decided: crash points inside one write (the build '
                'file is written in place); behaviour of follow-up attempts. '
                'Known finding F3 (find cache saved before the build file).',
        'technique': 'CFG dominance + effect ordering through registry/call '
                     'graph + all-paths return-value analysis of handlers',
    },
})

CLAIMS.update({
    'C08': {
        'text': 'Decides the wiring that makes regeneration see every input: '
                '(REGEN-INPUTS) the script exec is lexically inside '
                'context.push_path (which records seen_paths before '
                'yielding), every executed script becomes a bootstrap path, '
                'the regenerate rule of both backends uses _inputs '
                '(bootstrap + toolchain + mopack metadata) and _outputs '
                '(build file + every immediate file); (FIND-DIRS) every '
                'directory walked by a cached find_files reaches find_dirs '
                'and the depfile that Make includes / Ninja names; '
                '(CACHE-REPLAY) the cache-hit path of find_from_filter reads '
                'every field of a FindCacheEntry and performs the same '
                'classes of registrations as the miss path; '
                '(NULLABLE-ROUNDTRIP) no saved field changes value across '
                'save/load. Equality with a fresh configure over histories '
                'and convergence are not decided.'
                ' Added: SKIP-ONLY-IF-IDENTICAL (the lazy check compares found and extra of every cached filter; variables are reset before the toolchain replay), registration-order and new-directory clauses (known findings F14, F15). The lazy re-check records the walked directories whenever it walks (no further condition). Round 8: both find hooks save or remove the cache file on every path; the saved cache is all or nothing; newest input vs oldest output.',
        'note': _TB + 'Not decided: equality of regenerated files with a '
                'fresh configure over edit histories; mtime orderings; '
                'convergence. F4 and F12 repaired by fix: commits.',
        'technique': 'lexical-containment and dominance checks, writer/'
                     'reader field agreement between the two paths of one '
                     'function, registry-based sibling checks',
    },
    'C11': {
        'text': 'Thin claim. Decides (CACHE-REPLAY) that result caching '
                'registers found and extra/not_now entries on the cached '
                'path exactly as on the miss path (the clause "every file '
                'found plus extra ones is part of the distribution" and '
                '"caching never changes the result" for the registration '
                'effects), and (RESULT-LATTICE) the order of FindResult / '
                'PathGlob.Result values with &=max, |=min, pruning only on '
                'exclude_recursive, precedence exclude > include > extra, '
                'and the include/not_now split of find_from_filter. The '
                'glob matching semantics -- most of the property -- are not '
                'decided by static analysis.'
                ' Also PATH-COMPONENTWISE for uniquetrees/commonprefix.',
        'note': _TB + 'Not decided: matching semantics of *, ?, [..], **, '
                'type selection, soundness of `never` pruning over all trees '
                'and patterns; existence of returned entries.',
        'technique': 'constant evaluation of enum lattices + structural '
                     'agreement of cache-hit and cache-miss paths',
    },
    'C18': {
        'text': 'Decides: (SOURCE-REGISTRATION) every builtin that creates a '
                'file object from a name forwards the caller\'s dist flag to '
                'static_file, static_file and Edge.make are the only '
                'add_source callers and guard on Root.srcdir, sources() = '
                'bootstrap paths + registered sources, the dist command '
                'lists all of them relative to srcdir; (REGEN-INPUTS) every '
                'executed script is a bootstrap path; (CACHE-REPLAY) files '
                'found through find_files incl. extra ones are registered '
                'on the cached path too. Archive contents are not decided.'
                ' Added: every builtin accepting dist= forwards it to _find/find_from_filter/static_file. PATH-COMPONENTWISE (no substring test on a suffix) is claimed here too. add_source is conditional only on the root (and the dist flag).',
        'note': _TB + 'Not decided: what doppel puts into the archive; that '
                'the unpacked archive configures equivalently.',
        'technique': 'who-may-call + guard check, decorator-driven '
                     'enumeration of file-creating builtins, argument '
                     'forwarding check',
    },
})

CLAIMS.update({
    'C07': {
        'text': 'Thin claim, wiring only. (DEPFILE-WIRING) if the cc '
                'compiler emits -MMD -MF <deps>, then under the same gcc '
                'deps flavor the make handler passes deps, appends the '
                'depfixer on the same file to the recipe, includes the '
                'depfile with optional=True and registers it as a target '
                '(so clean removes it); ninja sets deps=gcc and depfile; the '
                'suffix agrees at all sites; clean covers every target. '
                '(DEPFIX-TABLE) the depfixer state machine is evaluated '
                'symbolically for all 16 (state, token) pairs: every '
                'dependency is echoed and terminated by ":\\n", targets are '
                'not echoed, truncated input is rejected. What real '
                'compilers write and what Make does over edit histories is '
                'not decided.'
                ' deps_flavor is evaluated symbolically per concrete cc compiler class and C-family language (must be \'gcc\', incl. the PCH compiler); the include operand of the depfile is written as a Make target name.',
        'note': _TB + 'Not decided: the bulk of the property (real '
                'compilers, Make re-reading, arbitrary histories).',
        'technique': 'guard-scoped wiring checks + symbolic enumeration of '
                     'a finite state machine by constant folding',
    },
    'C12': {
        'text': 'Decides: (PATH-CTOR) the four path fields are assigned only '
                'in BasePath.__init__, where the ".." containment raise and '
                'the root-type raise dominate the assignment of suffix and '
                'the stored value is the checked one; every string entry '
                'point goes through __normpath, whose first step maps \\\\ '
                'to /; every path-returning method builds its result through '
                'the class constructor and carries root/destdir over; '
                '(HASH-EQ) for all classes defining __eq__ and __hash__, '
                'attributes read by __hash__ are a subset of those compared '
                'by __eq__; (PATH-JSON) to_json writes 3 elements incl. the '
                'directory flag, from_json reads indices 0..2 in constructor '
                'order. The algebraic laws over all strings are not decided.'
                ' Added: PATH-COMPONENTWISE and RELPATH-IMPL (relative paths come from posixpath.relpath on the two suffixes). HASH-EQ follows methods called on self (hash(tuple(self.to_json())) reads the directory flag).',
        'note': _TB + 'Not decided: relpath/append inverse, realise = join, '
                'commonprefix/uniquetrees minimality over all strings.',
        'technique': 'who-may-write + CFG dominance + attribute-set '
                     'comparison of __eq__/__hash__',
    },
    'C14': {
        'text': 'Thin claim, necessary conditions only. (FORWARD-FIELDS) '
                'every slot of ForwardOptions is written for static '
                'libraries and consumed by the final link; recurse() merges '
                'and recurses into forwarded libs; libs = user libs + '
                'forwarded libs (dependents first); packages, compile and '
                'link options are forwarded; runtime/linktime deps recorded. '
                '(RPATH-ORIGIN) the only rpath producer for build-dir '
                'libraries returns an $ORIGIN-relative path on the same-root '
                'branch, rpaths become -Wl,-rpath, shared libraries get a '
                'bare-name soname whenever an output is known. Linking and '
                'running real binaries is not decided.'
                ' Added: LINK-WORDS-KEPT (no de-duplication of link words / forwarded options), RELPATH-IMPL, PATH-COMPONENTWISE. The development symlink of a versioned shared library points at the soname symlink.',
        'note': _TB + 'Not decided: that binaries link and run, order '
                'correctness for arbitrary DAGs.',
        'technique': 'field writer/reader agreement + expression checks',
    },
    'C15': {
        'text': 'Thin claim. (INSTALL-SYMMETRY) install and uninstall '
                'iterate the same mapping (install_outputs.host.items()) '
                'and compose destination paths identically for files and '
                'for directory contents; installify builds <install root>/'
                '<suffix> with destdir for host paths; DESTDIR variable is '
                'declared iff the environment supports it; install_deps are '
                'installed recursively; post-install rpath rewrite targets '
                'the installed copy; make and ninja share all helpers; each '
                'installable file class of the property has the documented '
                'install root. The resulting file tree is not decided.'
                ' Added: in BasePath.realize no root-containing result is returned before DESTDIR is prepended (CFG dominance). Default install directories are expressed in the GNU directory variable they belong to (libdir/bindir in exec_prefix).',
        'note': _TB + 'Not decided: what doppel/patchelf produce on disk.',
        'technique': 'sibling agreement (install vs uninstall, make vs '
                     'ninja) + constant tables of install roots',
    },
    'C19': {
        'text': 'Decides: (EXEC-SCOPE) every exec/eval site is enumerated; '
                'the script exec receives a fresh dict display with only '
                '__file__ and __builtins__; (PUSH-PATH) exec inside '
                'push_path, stack popped in finally, submodule returns the '
                'exports of the entry pushed for that file, export writes to '
                'the innermost entry; (REL-RESOLVE) relpath/buildpath '
                'resolve against the running script\'s directory / matching '
                'build directory; (X-ALIAS) --x- alias for every name, '
                'toggle prefixes keep the optional x- group, extra args '
                'saved and re-parsed. Run-time visibility over arbitrary '
                'nesting is not decided.',
        'note': _TB + 'Not decided: visibility probes over arbitrary '
                'submodule trees; argparse behaviour.',
        'technique': 'exec/eval who-may-call enumeration + lexical '
                     'containment + regex structure check',
    },
    'C20': {
        'text': 'MSBuild half and quoting tables only. (UUID-PERSIST) the '
                'GUID map is loaded, looked up before uuid4 (CFG dominance), '
                'new GUIDs stored and marked seen, save() writes all seen '
                'keys and is on every normal path of msbuild.write after the '
                'projects; (SLN-DEPS) the unknown-project raise dominates '
                'the append; (WIN-QUOTE-TABLE) the Windows quoter\'s bad-'
                'character alternatives cover space, tab, double quote and a '
                'trailing backslash, backslash runs are doubled before a '
                'quote. The 2n/2n+1 round trip over all strings is not '
                'decided.',
        'note': _TB + 'Not decided: quoting round trip under the MS C '
                'runtime rules; split as inverse of join; GUID uniqueness.',
        'technique': 'CFG dominance/must-pass + regex alternative analysis',
    },
})

_PENDING = 'check not built yet in this session (design in DESIGN.md)'

NOT_APPLICABLE = {
    'C%02d' % i: _PENDING for i in range(1, 21)
}
