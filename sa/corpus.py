"""Corpus regression for the thorough tier.

/verif/neutral/<id>/patch.diff   80 behaviour-preserving refactorings written
                                 by independent sub-agents: the property's
                                 rules must stay silent on every one of them
/verif/seeded/<id>/patch.diff    119 property-breaking changes; those that
                                 /verif/seeded/EXPECTED.json lists for the
                                 property must be reported by it

Each patch is applied to a scratch copy of /repo's package (outside /repo and
/verif, removed immediately) and analysed *statically* by the same rules. A
noisy neutral patch or a missed expected seed means the checker regressed:
ANALYSIS-ERROR (exit 2), never a VIOLATION of the repository.
Patches that no longer apply to the current tree (stale) are skipped and
counted.
"""
import json
import multiprocessing
import os
import shutil
import subprocess
import tempfile

from .index import AnalysisError
from .selftest import _analyse

VERIF = os.path.dirname(os.path.dirname(os.path.abspath(__file__)))


def _one(args):
    src_root, prop, kind, sid = args
    d = tempfile.mkdtemp(prefix='bfg_sa_corpus_')
    try:
        shutil.copytree(os.path.join(src_root, 'bfg9000'),
                        os.path.join(d, 'bfg9000'),
                        ignore=shutil.ignore_patterns('__pycache__', '*.pyc'))
        patch = os.path.join(VERIF, kind, sid, 'patch.diff')
        r = subprocess.run(['patch', '-p1', '-s', '-i', patch], cwd=d,
                           stdout=subprocess.PIPE, stderr=subprocess.STDOUT)
        if r.returncode != 0:
            return (kind, sid, 'stale', None)
        try:
            bad = _analyse(d, prop)
        except AnalysisError as e:
            return (kind, sid, 'analysis-error', str(e))
        except Exception as e:                           # noqa
            return (kind, sid, 'crash', repr(e))
        return (kind, sid, 'ran', [(b[0], b[1]) for b in bad])
    finally:
        shutil.rmtree(d, ignore_errors=True)


def run_for_property(prop, src_root='/repo'):
    jobs = []
    ndir = os.path.join(VERIF, 'neutral')
    sdir = os.path.join(VERIF, 'seeded')
    unsupported = {}
    uf = os.path.join(ndir, 'UNSUPPORTED.json')
    if os.path.exists(uf):
        unsupported = json.load(open(uf))
    for sid in sorted(os.listdir(ndir)):
        if sid in unsupported:
            continue        # documented limitation (DESIGN.md section 7.2)
        if os.path.isfile(os.path.join(ndir, sid, 'patch.diff')):
            jobs.append((src_root, prop, 'neutral', sid))
    expected = {}
    ef = os.path.join(sdir, 'EXPECTED.json')
    if os.path.exists(ef):
        expected = json.load(open(ef))
    for sid, props in sorted(expected.items()):
        if prop in props and os.path.isfile(os.path.join(
                sdir, sid, 'patch.diff')):
            jobs.append((src_root, prop, 'seeded', sid))
    with multiprocessing.Pool(min(16, max(1, len(jobs)))) as pool:
        results = pool.map(_one, jobs)
    problems, stale = [], 0
    silent = detected = 0
    for kind, sid, status, payload in results:
        if status == 'stale':
            stale += 1
            continue
        if kind == 'neutral':
            if status != 'ran' or payload:
                problems.append('neutral refactoring {} raises {}'.format(
                    sid, payload if status == 'ran' else status + ': ' +
                    str(payload)))
            else:
                silent += 1
        else:
            if status == 'ran' and payload:
                detected += 1
            elif status == 'analysis-error':
                detected += 1       # the anchor was destroyed: reported
            else:
                problems.append('seeded breakage {} is no longer reported '
                                '({})'.format(sid, status))
    extra = {'corpus': {
        'neutral_refactorings_silent': silent,
        'neutral_refactorings_unsupported': sorted(unsupported),
        'seeded_breakages_reported': detected,
        'stale_patches_skipped': stale}}
    if problems:
        for p in problems:
            print('CORPUS-PROBLEM ' + p)
        raise AnalysisError('corpus regression failed for {}: {} problem(s)'
                            .format(prop, len(problems)))
    print('{} corpus: {} neutral refactorings silent, {} seeded breakages '
          'reported, {} stale'.format(prop, silent, detected, stale))
    return extra
