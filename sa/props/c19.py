"""C19 -- Scripts are isolated and relative: submodules, options, user
arguments.

Decided (value-flow / control / record-shape facts, no source text):
EXEC-SCOPE (the script exec gets a dict built for that call with exactly
__file__ and __builtins__; the only other exec expands a constant template),
PUSH-PATH (exec under push_path(path); the entry pushed for a script is the
one returned and whose exports submodule() hands back; the stack is popped in
a finally), REL-RESOLVE (relpath/buildpath resolve against the directory of
the running script), X-ALIAS (--x- spellings added for every name; toggle
prefixes keep the x- group; extra_args saved and re-parsed).
Not decided: visibility probes over arbitrary nesting; argparse behaviour.
"""
import ast
import re

from ..consteval import UNKNOWN, const_eval, subst_eval
from ..facts import Facts, direct, has, has_call, has_const, param_of
from ..index import unparse, walk_no_nested
from .. import query as Q
from . import c09

B = 'bfg9000.builtins.builtin:'


def _facts(ctx):
    f = getattr(ctx, '_facts', None)
    if f is None:
        f = ctx._facts = Facts(ctx.repo)
    return f


def exec_scope(ctx):
    R = 'EXEC-SCOPE'
    ctx.rule(R, 'every executed script gets a globals dict built for that '
             'call (a dict-shaped local value, never an attribute or '
             'parameter that outlives the call) holding only __file__ and '
             '__builtins__; no other exec/eval of script-controlled text '
             'exists')
    repo = ctx.repo
    F = _facts(ctx)
    ex = F.fn('bfg9000.build:_execute_script')
    script_execs = F.effects(ex, lambda e: e.name in ('exec', 'eval') and
                             isinstance(e.call.func, ast.Name), depth=2)
    ctx.ob(R, '_execute_script|executes-the-script', bool(script_execs),
           ex.node, 'no exec of the compiled script found')
    seen = set()
    for e in script_execs:
        seen.add(id(e.call))
        g = e.call.args[1] if len(e.call.args) > 1 else Q.kwarg(
            e.call, 'globals')
        rec = F.flow.record(g, e.fn, e.bind) if g is not None else None
        ctx.ob(R, 'bfg9000.build:_execute_script|exec|fresh-globals-dict',
               rec is not None and len(e.call.args) <= 2, e.call,
               'the script is executed with a globals object that is not a '
               'dict built for this call: variables leak between scripts')
        if rec is not None:
            keys = set(rec)
            ctx.ob(R, 'bfg9000.build:_execute_script|exec|globals-content',
                   keys == {'__file__', '__builtins__'}, e.call,
                   'globals contain {} (expected only __file__ and '
                   '__builtins__)'.format(sorted(map(str, keys))))
            ctx.ob(R, 'bfg9000.build:_execute_script|exec|builtins-from-'
                   'context', has(F.flow.rec_atoms(rec, '__builtins__'),
                                  'context', 'builtins'), e.call,
                   'the script\'s builtins are not the context\'s own')
    for m, c in Q.all_calls(repo):
        if not (isinstance(c.func, ast.Name) and c.func.id in ('exec',
                                                               'eval')):
            continue
        if id(c) in seen:
            continue
        fn = repo.enclosing_func(c)
        key = '{}|{}'.format(fn.fq if fn else m.name, c.func.id)
        if fn is not None and fn.fq == 'bfg9000.options:OptionMeta.__new__':
            a = c.args[0] if c.args else None
            if isinstance(a, ast.Name):
                vs = [v for v in Q.local_assignments(fn.node, a.id)
                      if v is not None]
                a = vs[0] if len(vs) == 1 else a
            ok = isinstance(a, ast.Call) and Q.callee_attr(a) == 'format' \
                and isinstance(const_eval(repo, m, a.func.value), str)
            ctx.ob(R, key + '|constant-template', ok, c,
                   'OptionMeta exec no longer expands a constant template')
        else:
            ctx.ob(R, key, False, c, 'new exec/eval site')
    bc = F.fn(B + 'BaseContext.__init__')
    v = F.stored(bc, 'builtins')
    ok = v is not None and has_call(v, 'bind') and param_of(v, 'self')
    ctx.ob(R, 'BaseContext.__init__|builtins-bound-to-context', ok, bc.node,
           'the builtins a script sees are not bound to its own context')
    bd = F.fn(B + 'Builtins.bind')
    rets = F.flow._returns(bd)
    ok = bool(rets) and all(F.flow.record(r, bd) is not None for r in rets)
    ctx.ob(R, 'Builtins.bind|fresh-dict', ok, bd.node,
           'bind() returns a shared object')


def _in_finally_of_try_with(node, fn, body_pred):
    """node lies in the finalbody of a try statement whose body contains a
    node matching body_pred."""
    n = node
    while n is not None and n is not fn.node:
        p = getattr(n, '_parent', None)
        if isinstance(p, ast.Try) and any(n is s for s in p.finalbody):
            if any(body_pred(x) for st in p.body for x in ast.walk(st)):
                return True
        n = p
    return False


def push_path(ctx):
    R = 'PUSH-PATH'
    ctx.rule(R, 'a script runs inside push_path(path); the path stack entry '
             'is popped on every exit (finally); submodule returns the '
             'exports of exactly the entry pushed for that file; export '
             'writes into the innermost entry; root scripts cannot export')
    F = _facts(ctx)
    ex = F.fn('bfg9000.build:_execute_script')
    execs = F.effects(ex, lambda e: e.name == 'exec' and isinstance(
        e.call.func, ast.Name), depth=2)
    ok = bool(execs) and all(has_call(e.withs(), 'push_path') and
                             param_of(e.withs(), 'path') for e in execs)
    ctx.ob(R, '_execute_script|exec-under-push_path(path)', ok, ex.node,
           'the script does not run inside push_path(path)')
    r = F.returns(ex)
    ok = has_call(direct(r), 'push_path') and not any(
        a for a in direct(r) if not a.startswith(('const:',)) and
        'push_path(' not in a)
    ctx.ob(R, '_execute_script|returns-pushed-entry', ok, ex.node,
           'the entry returned is not the one pushed for this script')
    pp = F.fn(B + 'StackContext.push_path')
    # the context manager in either spelling (generator with try/finally,
    # or an object with __enter__/__exit__)
    cm = F.context_manager(pp)
    Q.require(cm is not None, 'push_path is not a context manager')
    aps = [e for e in cm['enter'] if e.name == 'append' and
           has(e.recv(), 'self', 'path_stack')]
    all_aps = aps
    if cm['form'] == 'generator':
        all_aps = [e for e in F.effects(pp, lambda e: e.name == 'append',
                                        depth=1)
                   if has(e.recv(), 'self', 'path_stack')]
    pushed = set()
    for e in aps:
        pushed |= {a for a in direct(e.arg(0)) if 'PathEntry(' in a}
    ok = bool(cm['value']) and (
        has(cm['value'], 'self', 'path_stack[-1]') or
        bool(direct(cm['value']) & pushed))
    pops = [e for e in cm['exit'] if e.name == 'pop' and
            has(e.recv(), 'self', 'path_stack')]
    all_pops = pops
    if cm['form'] == 'generator':
        all_pops = [e for e in F.effects(pp, lambda e: e.name == 'pop',
                                         depth=1)
                    if has(e.recv(), 'self', 'path_stack')]
    ok = ok and bool(pops) and len(all_pops) == len(pops) and all(
        not e.call.args for e in pops)
    ctx.ob(R, 'push_path|yield-top-pop-in-finally', ok, pp.node,
           'the path stack is not restored when a script raises (or the '
           'entry handed to the script is not the top of the stack)')
    ok = bool(aps) and len(all_aps) == len(aps) and all(
        has_call(e.arg(0), 'PathEntry') and param_of(e.arg(0), 'path')
        for e in aps)
    ctx.ob(R, 'push_path|fresh-entry', ok, pp.node,
           'a new entry (with empty exports) is not pushed per script')
    # the entry class, nested in StackContext or at module level (possibly
    # private, re-exported as StackContext.PathEntry)
    pcs = [c for c in ctx.repo.classes.values()
           if c.module.name == B.rstrip(':') and
           c.name.lstrip('_') == 'PathEntry']
    Q.require(len(pcs) == 1, 'anchor class missing: PathEntry of ' + B)
    pe = F.fn(pcs[0].fq + '.__init__')
    v = F.stored(pe, 'exports')
    ok = v is not None and any(a.startswith('alloc:') for a in v) and \
        not any(a.startswith('param:') for a in v)
    ctx.ob(R, 'PathEntry|fresh-exports', ok, pe.node,
           'entries share an exports dict')
    v = F.stored(pe, 'path')
    ctx.ob(R, 'PathEntry|path', v is not None and param_of(v, 'path'),
           pe.node, '')
    sm = F.fn('bfg9000.builtins.core:submodule')
    r = F.returns(sm)
    ok = has(r, 'execute_file()', 'exports') or any(
        re.search(r'execute_file\(.*\)\.exports$', a) for a in r) or (
            has_call(r, 'push_path') and has(r, 'exports'))
    ctx.ob(R, 'submodule|returns-exports-of-executed-file', ok, sm.node,
           'submodule() does not return the exports of the entry pushed '
           'for the file it executed')
    efs = F.calls_to(sm, 'execute_file', depth=1)
    ok = bool(efs) and all(
        has(e.arg(1), "['relpath']") and has(e.arg(1), 'filename') and
        param_of(e.arg(1), 'path') and param_of(e.arg(0), 'context')
        for e in efs)
    ctx.ob(R, 'submodule|path-relative-to-caller', ok, sm.node,
           'the submodule file is not <relpath(path)>/<context.filename>')
    exf = F.fn('bfg9000.builtins.core:export')
    ok = any(has(e.recv(), 'context.exports') and param_of(
        e.all_args(), 'kwargs')
        for e in F.effects(exf, lambda e: e.name == 'update', depth=0)) or \
        any(has(t, 'context.exports') and param_of(v, 'kwargs')
            for t, v, n in F.stores(exf))          # exports[k] = v loop
    ctx.ob(R, 'export|innermost-entry', ok, exf.node,
           'export() does not write into the current entry\'s exports')
    ep = F.fn(B + 'StackContext.exports')
    r = F.returns(ep)
    ok = has(r, 'self', 'path_stack[-1]', 'exports')
    rs = [n for n in walk_no_nested(ep.node) if isinstance(n, ast.Raise)]
    ok = ok and bool(rs) and any(
        op == 'Eq' and (has(l, 'path_stack') and has_const(r_, 1) or
                        has(r_, 'path_stack') and has_const(l, 1))
        for n in rs for op, l, r_ in F.guard_compares(n, ep))
    ctx.ob(R, 'StackContext.exports|top-of-stack', ok, ep.node,
           'exports is not the innermost entry\'s (or root scripts may '
           'export)')
    p = F.fn(B + 'StackContext.path')
    ok = has(F.returns(p), 'self', 'path_stack[-1]', 'path')
    ctx.ob(R, 'StackContext.path|top-of-stack', ok, p.node,
           'the current path is not the innermost entry\'s')


def rel_resolve(ctx):
    R = 'REL-RESOLVE'
    ctx.rule(R, 'input paths resolve against the directory of the running '
             'script, output paths against the matching build '
             'subdirectory')
    F = _facts(ctx)
    P = 'bfg9000.builtins.path:'
    rp = F.fn(P + 'relpath')
    es = F.calls_to(rp, 'ensure', depth=1)
    ok = bool(es) and all(
        param_of(e.arg(0), 'path') and has(e.arg(1), 'context', 'path',
                                           'parent()') and
        not has(e.arg(1), 'reroot()') and
        param_of(e.arg(2, kw='strict'), 'strict') for e in es) and \
        has_call(F.returns(rp), 'ensure')
    ctx.ob(R, 'relpath|against-script-directory', ok, rp.node,
           'input paths are not resolved against the directory of the '
           'running script')
    bp = F.fn(P + 'buildpath')
    es = F.calls_to(bp, 'ensure', depth=1)
    ok = bool(es) and all(
        param_of(e.arg(0), 'path') and has(
            e.arg(1), 'context', 'path', 'parent()', 'reroot()') and
        param_of(e.arg(2, kw='strict'), 'strict') for e in es) and \
        has_call(F.returns(bp), 'ensure')
    ctx.ob(R, 'buildpath|against-matching-build-directory', ok, bp.node,
           'output paths are not resolved against the build directory '
           'matching the running script')
    rn = F.fn(P + 'relname')
    ok = has(F.returns(rn), "['relpath']", 'suffix')
    ctx.ob(R, 'relname|suffix-of-relpath', ok, rn.node,
           'relative names are not the suffix of the script-relative path')
    ex = F.fn('bfg9000.build:_execute_script')
    execs = F.effects(ex, lambda e: e.name == 'exec' and isinstance(
        e.call.func, ast.Name), depth=2)
    ok = bool(execs) and all(
        has_call(e.withs(), 'pushd') and has(e.withs(), 'path', 'parent()',
                                             'string()') for e in execs)
    ctx.ob(R, '_execute_script|cwd-is-script-directory', ok, ex.node,
           'the script does not run with its own directory as cwd')
    rel = [e for e in F.effects(ex, lambda e: e.name in (
        'relpath', 'abspath', 'getcwd', 'realpath'), depth=1)
        if any(h.startswith('os.') for h in e.heads()) and
        e.fn.module is ex.module]
    ok = all(has_call(e.withs(), 'pushd') for e in rel)
    ctx.ob(R, '_execute_script|cwd-relative-values-computed-inside-pushd',
           ok, ex.node, 'a value that depends on the current directory '
           '(os.path.relpath for __file__) is computed before the '
           'directory of the script is entered: it is relative to the '
           'including script')


def _sub_semantics(ctx, F, pf):
    """Evaluate the constant regular expression and replacement template of
    ToggleAction._prefix on the two spellings (constant folding of the
    repository's literals; nothing of the repository is executed)."""
    subs = F.effects(pf, lambda e: e.name == 'sub', depth=1)
    if len(subs) != 1:
        return False
    c = subs[0].call

    def const_of(x):
        v = const_eval(ctx.repo, pf.module, x)
        if (v is None or not (isinstance(v, str) or hasattr(
                v, 'pattern'))) and isinstance(x, ast.Name):
            v = const_eval(ctx.repo, pf.module, Q.inline(pf.node, x))
        return v
    # re.sub(pattern, repl, s)  or  <compiled constant>.sub(repl, s)
    recv = c.func.value if isinstance(c.func, ast.Attribute) else None
    rc = const_of(recv) if recv is not None else None
    if hasattr(rc, 'pattern') and len(c.args) >= 2:
        pat, repl_e = rc, c.args[0]
    elif len(c.args) >= 3:
        pat, repl_e = const_of(c.args[0]), c.args[1]
    else:
        return False
    pname = Q.params(pf.node)[-1]
    repl = subst_eval(ctx.repo, pf.module, Q.inline(pf.node, repl_e)
                      if isinstance(repl_e, ast.Name) else repl_e,
                      {pname: 'P-'})
    if hasattr(pat, 'pattern'):
        pat = pat.pattern
    if not isinstance(pat, str) or not isinstance(repl, str):
        return False
    try:
        return re.sub(pat, repl, '--foo') == '--P-foo' and \
            re.sub(pat, repl, '--x-foo') == '--x-P-foo' and \
            re.sub(pat, repl, '--a--x-b') == '--P-a--x-b'
    except re.error:
        return False


def x_alias(ctx):
    R = 'X-ALIAS'
    ctx.rule(R, 'project arguments accept --name and --x-name; toggle '
             'actions insert enable-/disable-/with-/without- after an '
             'optional x- group; extra args are saved and re-parsed on '
             'regeneration')
    repo = ctx.repo
    F = _facts(ctx)
    A = 'bfg9000.arguments.parser:'
    au = F.fn(A + 'add_user_argument')
    adds = F.calls_to(au, 'add_argument', depth=1)
    a = set()
    for e in adds:
        a |= e.all_args()
    ok = bool(adds) and has_const(a, '--x-') and param_of(a, 'names') and \
        not has_call(a, 'if') and has_call(F.returns(au), 'add_argument')
    ctx.ob(R, 'add_user_argument|x-spelling-for-every-name', ok, au.node,
           'the --x- alias is not added for every name')
    # the literal, or a name of a module-level constant holding it
    xs = [n for n in ast.walk(au.node)
          if isinstance(n, ast.Constant) and n.value == '--x-' or
          isinstance(n, ast.Name) and isinstance(n.ctx, ast.Load) and
          const_eval(repo, au.module, n) == '--x-']
    every = False
    for n in xs:
        p = getattr(n, '_parent', None)
        if isinstance(p, (ast.BinOp, ast.JoinedStr, ast.Call)) and \
                not (isinstance(p, ast.Call) and Q.callee_attr(p) ==
                     'startswith'):
            at = F.atoms(p, au)
            if has(direct(at), 'names') and not any(
                    a.startswith('names[') for a in at):
                every = True
    ctx.ob(R, 'add_user_argument|x-spelling-derived-from-each-name', every,
           au.node, 'the --x- alias is built from one selected name, not '
           'from each of them')
    ok = any(any(op == 'Eq' and (has(l, 'usage') and has_const(r, 'parse')
                                 or has(r, 'usage') and has_const(l, 'parse'))
                 for op, l, r in F.guard_compares(n, au)) for n in xs)
    ctx.ob(R, 'add_user_argument|only-when-parsing', ok, au.node,
           'aliases are added while generating help, too (or never)')
    ok = any(has_const(F.control(n, au), '--x-')
             for n in walk_no_nested(au.node) if isinstance(n, ast.Raise))
    ctx.ob(R, 'add_user_argument|x-prefix-reserved', ok, au.node,
           'a project may define an argument in the reserved --x- '
           'namespace')
    pf = F.fn(A + 'ToggleAction._prefix')
    ctx.ob(R, 'ToggleAction._prefix|optional-x-group-kept',
           _sub_semantics(ctx, F, pf), pf.node,
           'enable-/with- prefixes are not inserted after an optional x- '
           'group')
    ti = F.fn(A + 'ToggleAction.__init__')
    t = F.stored(ti, 'true_strings') or set()
    f = F.stored(ti, 'false_strings') or set()
    ok = has_call(t, '_prefix') and has(t, '_true_prefix') and param_of(
        t, 'option_strings') and not has(t, '_false_prefix') and \
        has_call(f, '_prefix') and has(f, '_false_prefix') and param_of(
            f, 'option_strings') and not has(f, '_true_prefix')
    sup = [e for e in F.effects(ti, lambda e: e.name == '__init__', depth=0)]
    ok = ok and bool(sup) and all(
        # the stored attributes (checked above) or the lists themselves
        has(e.arg(0), 'true_strings') and has(e.arg(0), 'false_strings') or
        has(e.arg(0), '_true_prefix') and has(e.arg(0), '_false_prefix')
        and has_call(e.arg(0), '_prefix') for e in sup)
    ctx.ob(R, 'ToggleAction.__init__|both-spellings-both-polarities', ok,
           ti.node, 'the action does not register the positive and the '
           'negative spelling of every option string')
    tc = F.fn(A + 'ToggleAction.__call__')
    st = [v for t_, v, n in F.stores(tc) if has(t_, 'namespace')] + [
        e.arg(2) for e in F.effects(tc, lambda e: e.name == 'setattr',
                                    depth=0)
        if param_of(e.arg(0), 'namespace')]
    ok = bool(st) and all(param_of(v, 'option_string') and has(
        v, 'self', 'true_strings') and not has(v, 'false_strings')
        for v in st)
    ctx.ob(R, 'ToggleAction.__call__|polarity-from-spelling', ok, tc.node,
           'the stored value is not "the spelling used is a positive one"')
    ar = F.fn('bfg9000.builtins.user_arguments:argument')
    es = F.calls_to(ar, 'add_user_argument', depth=1)
    ok = bool(es) and all(
        has(e.arg(0), 'context', 'parser') and has_const(
            e.all_args(), '--') and param_of(e.all_args(), 'args')
        for e in es)
    ctx.ob(R, 'argument|goes-through-add_user_argument', ok, ar.node,
           'argument() does not define --<name> through add_user_argument')
    eo = F.fn('bfg9000.build:_execute_options')
    ok = any(has(t_, 'usage') and param_of(v, 'usage')
             for t_, v, n in F.stores(eo))
    ctx.ob(R, '_execute_options|usage-set-on-group', ok, eo.node,
           'the parse/help mode is not passed to the argument group')
    cb = F.fn('bfg9000.build:configure_build')
    ok = any(has(e.arg(0), 'extra_args')
             for e in F.calls_to(cb, 'parse_args', depth=1))
    ctx.ob(R, 'configure_build|re-parses-saved-args', ok, cb.node,
           'project arguments are not re-parsed from the saved '
           'configuration')
    sv = F.fn('bfg9000.environment:Environment.save')
    ld = F.fn('bfg9000.environment:Environment.load')
    top = c09._dumped_record(F, sv)
    saved = F.flow.subrecord(top, 'data') if top else None
    restored = c09._attrs_stored(F, ld, lambda b: '__new__(' in b)
    ok = bool(saved) and has(F.flow.rec_atoms(saved, 'extra_args'), 'self',
                             'extra_args') and any(
        "['extra_args']" in x for x in restored.get('extra_args', ()))
    ctx.ob(R, 'Environment|extra_args-saved-and-loaded', ok, sv.node,
           'project arguments are not part of the saved configuration')
    cf = F.fn('bfg9000.driver:configure')
    ok = any(param_of(e.all_args(), 'extra')
             for e in F.calls_to(cf, 'finalize_environment', depth=0))
    ctx.ob(R, 'configure|extra-args-captured', ok, cf.node,
           'project arguments given at configure time are not captured')
    av = F.fn('bfg9000.builtins.user_arguments:argv')
    ok = has(F.returns(av), 'context', 'argv')
    ctx.ob(R, 'argv|from-context', ok, av.node,
           'argv is not the parsed project arguments of the context')


def check(ctx):
    ctx.not_decided += [
        'visibility of variables/exports over arbitrary submodule nesting '
        '(run-time probes)', 'argparse\'s own parsing behaviour']
    exec_scope(ctx)
    push_path(ctx)
    rel_resolve(ctx)
    x_alias(ctx)
