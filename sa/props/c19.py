"""C19 -- Scripts are isolated and relative: submodules, options, user
arguments.

Decided: EXEC-SCOPE (the script exec gets a fresh dict display as globals;
the only other exec expands a constant template), PUSH-PATH (exec inside
push_path; submodule returns the exports of the entry pushed for that file;
path stack popped in finally), REL-RESOLVE (relpath/buildpath resolve against
context.path.parent()), X-ALIAS (--x- spellings added for every name; toggle
prefixes keep the x- group; extra_args saved and re-parsed).
Not decided: visibility probes over arbitrary nesting; argparse behaviour.
"""
import ast

from ..consteval import const_eval
from ..index import unparse, walk_no_nested
from .. import query as Q
from .. import rx
from ..rules import regen


def exec_scope(ctx):
    R = 'EXEC-SCOPE'
    ctx.rule(R, 'every executed script gets a fresh globals dict built at '
             'the exec call site (no dict shared between scripts); no other '
             'exec/eval of script-controlled text exists')
    repo = ctx.repo
    sites = []
    for m, c in Q.all_calls(repo):
        if isinstance(c.func, ast.Name) and c.func.id in ('exec', 'eval'):
            sites.append((m, c))
    ctx.require_min(R, len(sites), 1, 'exec/eval sites')
    for m, c in sites:
        fn = repo.enclosing_func(c)
        key = '{}|{}'.format(fn.fq if fn else m.name, c.func.id)
        if fn is not None and fn.fq == 'bfg9000.build:_execute_script':
            g = c.args[1] if len(c.args) > 1 else None
            ok = isinstance(g, ast.Dict) and len(c.args) == 2
            ctx.ob(R, key + '|fresh-globals-dict', ok, c,
                   'the script is executed with a globals object that is '
                   'not a fresh dict display: variables leak between '
                   'scripts')
            if isinstance(g, ast.Dict):
                keys = [const_eval(repo, m, k) for k in g.keys
                        if k is not None]
                ok = set(keys) == {'__file__', '__builtins__'} and \
                    None not in g.keys
                ctx.ob(R, key + '|globals-content', ok, c,
                       'globals contain {} (expected only __file__ and '
                       '__builtins__)'.format(keys))
                bi = [unparse(v) for k, v in zip(g.keys, g.values)
                      if const_eval(repo, m, k) == '__builtins__']
                ctx.ob(R, key + '|builtins-from-context',
                       bi == ['context.builtins'], c, '')
        elif fn is not None and fn.fq == \
                'bfg9000.options:OptionMeta.__new__':
            a = c.args[0] if c.args else None
            ok = isinstance(a, ast.Call) and Q.callee_attr(a) == 'format' \
                and isinstance(const_eval(repo, m, a.func.value), str)
            ctx.ob(R, key + '|constant-template', ok, c,
                   'OptionMeta exec no longer expands a constant template')
        else:
            ctx.ob(R, key, False, c, 'new exec/eval site')
    # context.builtins is bound per context object
    bc = repo.method('bfg9000.builtins.builtin:BaseContext', '__init__')
    ok = 'self.builtins = _allbuiltins[self.kind].bind(self, ' \
        'python_builtins)' in unparse(bc.node)
    ctx.ob(R, 'BaseContext.__init__|builtins-bound-to-context', ok, bc.node,
           '')
    bd = repo.method('bfg9000.builtins.builtin:Builtins', 'bind')
    ok = isinstance(Q.returns(bd.node)[0].value, ast.Dict)
    ctx.ob(R, 'Builtins.bind|fresh-dict', ok, bd.node,
           'bind() returns a shared object')


def push_path(ctx):
    R = 'PUSH-PATH'
    ctx.rule(R, 'a script runs inside push_path(path); the path stack entry '
             'is popped on every exit (finally); submodule returns the '
             'exports of exactly the entry pushed for that file; export '
             'writes into the innermost entry; root scripts cannot export')
    repo = ctx.repo
    ex = repo.func('bfg9000.build:_execute_script')
    withs = [n for n in walk_no_nested(ex.node) if isinstance(n, ast.With)]
    ok = len(withs) == 1 and any(
        unparse(i.context_expr) == 'context.push_path(path)' and
        i.optional_vars is not None and unparse(i.optional_vars) == 'p'
        for i in withs[0].items)
    ctx.ob(R, '_execute_script|with-push_path-as-p', ok, ex.node, '')
    rets = Q.returns(ex.node)
    ok = len(rets) == 1 and unparse(rets[0].value) == 'p'
    ctx.ob(R, '_execute_script|returns-pushed-entry', ok, ex.node,
           'the entry returned is not the one pushed for this script')
    pp = repo.method('bfg9000.builtins.builtin:StackContext', 'push_path')
    tries = [n for n in walk_no_nested(pp.node) if isinstance(n, ast.Try)]
    ok = len(tries) == 1 and any(unparse(s) == 'self.path_stack.pop()'
                                 for s in tries[0].finalbody) and any(
        isinstance(s, ast.Expr) and isinstance(s.value, ast.Yield) and
        unparse(s.value.value) == 'self.path_stack[-1]'
        for s in tries[0].body)
    ctx.ob(R, 'push_path|yield-top-pop-in-finally', ok, pp.node,
           'the path stack is not restored when a script raises')
    ok = 'self.path_stack.append(self.PathEntry(path))' in unparse(pp.node)
    ctx.ob(R, 'push_path|fresh-entry', ok, pp.node,
           'a new entry (with empty exports) is not pushed per script')
    pe = repo.cls('bfg9000.builtins.builtin:StackContext.PathEntry')
    ok = 'self.exports = {}' in unparse(pe.node)
    ctx.ob(R, 'PathEntry|fresh-exports', ok, pe.node, '')
    sm = repo.func('bfg9000.builtins.core:submodule')
    rets = Q.returns(sm.node)
    ok = len(rets) == 1 and unparse(rets[0].value) == \
        'build.execute_file(context, path, run_hooks=False).exports'
    ctx.ob(R, 'submodule|returns-exports-of-executed-file', ok, sm.node, '')
    vals = [unparse(v) for v in Q.local_assignments(sm.node, 'path')
            if v is not None]
    ok = vals == ["context['relpath'](path).append(context.filename)"]
    ctx.ob(R, 'submodule|path-relative-to-caller', ok, sm.node,
           'submodule path is resolved as {}'.format(vals))
    exf = repo.func('bfg9000.builtins.core:export')
    ok = 'context.exports.update(kwargs)' in unparse(exf.node)
    ctx.ob(R, 'export|innermost-entry', ok, exf.node, '')
    ep = repo.method('bfg9000.builtins.builtin:StackContext', 'exports')
    ok = 'len(self.path_stack) == 1' in unparse(ep.node) and \
        'return self.path_stack[-1].exports' in unparse(ep.node)
    ctx.ob(R, 'StackContext.exports|top-of-stack', ok, ep.node, '')
    p = repo.method('bfg9000.builtins.builtin:StackContext', 'path')
    ok = 'return self.path_stack[-1].path' in unparse(p.node)
    ctx.ob(R, 'StackContext.path|top-of-stack', ok, p.node, '')


def rel_resolve(ctx):
    R = 'REL-RESOLVE'
    ctx.rule(R, 'input paths resolve against the directory of the running '
             'script, output paths against the matching build '
             'subdirectory')
    repo = ctx.repo
    P = 'bfg9000.builtins.path:'
    rp = repo.func(P + 'relpath')
    rets = Q.returns(rp.node)
    ok = len(rets) == 1 and unparse(rets[0].value) == \
        '_path.Path.ensure(path, context.path.parent(), strict=strict)'
    ctx.ob(R, 'relpath|against-script-directory', ok, rp.node, '')
    bp = repo.func(P + 'buildpath')
    vals = [unparse(v) for v in Q.local_assignments(bp.node, 'base')
            if v is not None]
    ok = vals == ['context.path.parent().reroot()'] and \
        '_path.Path.ensure(path, base, strict=strict)' in unparse(bp.node)
    ctx.ob(R, 'buildpath|against-matching-build-directory', ok, bp.node, '')
    rn = repo.func(P + 'relname')
    ok = "context['relpath'](i).suffix" in unparse(rn.node)
    ctx.ob(R, 'relname|suffix-of-relpath', ok, rn.node, '')
    pd = repo.func('bfg9000.build:_execute_script')
    ok = 'pushd(path.parent().string(context.env.base_dirs))' in unparse(
        pd.node)
    ctx.ob(R, '_execute_script|cwd-is-script-directory', ok, pd.node, '')


def x_alias(ctx):
    R = 'X-ALIAS'
    ctx.rule(R, 'project arguments accept --name and --x-name; toggle '
             'actions insert enable-/disable-/with-/without- after an '
             'optional x- group; extra args are saved and re-parsed on '
             'regeneration')
    repo = ctx.repo
    au = repo.func('bfg9000.arguments.parser:add_user_argument')
    t = unparse(au.node)
    ok = "names += tuple(('--x-' + i[2:] for i in names))" in t
    ctx.ob(R, 'add_user_argument|x-spelling-for-every-name', ok, au.node,
           'the --x- alias is not added for every name')
    ok = "if parser.usage == 'parse':" in t
    ctx.ob(R, 'add_user_argument|only-when-parsing', ok, au.node, '')
    ok = "i.startswith('--x-')" in t and 'raise ValueError' in t
    ctx.ob(R, 'add_user_argument|x-prefix-reserved', ok, au.node, '')
    pf = repo.method('bfg9000.arguments.parser:ToggleAction', '_prefix')
    subs = [c for c in Q.calls(pf.node) if Q.callee_attr(c) == 'sub']
    ok = False
    if len(subs) == 1:
        pat = const_eval(repo, pf.module, subs[0].args[0])
        if isinstance(pat, str):
            import re._constants as sc
            p = list(rx.parse(pat))
            # ^-- followed by optional group x-
            ok = pat == '(^--(x-)?)'
            repl = unparse(subs[0].args[1])
            ok = ok and repl == "'\\\\1' + prefix"
    ctx.ob(R, 'ToggleAction._prefix|optional-x-group-kept', ok, pf.node,
           'enable-/with- prefixes are not inserted after an optional x- '
           'group')
    ti = repo.method('bfg9000.arguments.parser:ToggleAction', '__init__')
    t = unparse(ti.node)
    ok = 'self._prefix(i, self._true_prefix) for i in option_strings' in t \
        and 'self._prefix(i, self._false_prefix) for i in option_strings' \
        in t and 'option_strings = self.true_strings + self.false_strings' \
        in t
    ctx.ob(R, 'ToggleAction.__init__|both-spellings-both-polarities', ok,
           ti.node, '')
    tc = repo.method('bfg9000.arguments.parser:ToggleAction', '__call__')
    ok = 'value = option_string in self.true_strings' in unparse(tc.node)
    ctx.ob(R, 'ToggleAction.__call__|polarity-from-spelling', ok, tc.node,
           '')
    ar = repo.func('bfg9000.builtins.user_arguments:argument')
    ok = "names = ['--' + i for i in args]" in unparse(ar.node) and \
        'add_user_argument(context.parser, *names, **kwargs)' in unparse(
            ar.node)
    ctx.ob(R, 'argument|goes-through-add_user_argument', ok, ar.node, '')
    eo = repo.func('bfg9000.build:_execute_options')
    ok = 'group.usage = usage' in unparse(eo.node)
    ctx.ob(R, '_execute_options|usage-set-on-group', ok, eo.node, '')
    cb = repo.func('bfg9000.build:configure_build')
    ok = 'parser.parse_args(env.extra_args)' in unparse(cb.node)
    ctx.ob(R, 'configure_build|re-parses-saved-args', ok, cb.node,
           'project arguments are not re-parsed from the saved '
           'configuration')
    sv = repo.method('bfg9000.environment:Environment', 'save')
    ld = repo.method('bfg9000.environment:Environment', 'load')
    ok = "'extra_args': self.extra_args" in unparse(sv.node) and \
        "'extra_args'" in unparse(ld.node)
    ctx.ob(R, 'Environment|extra_args-saved-and-loaded', ok, sv.node, '')
    cf = repo.func('bfg9000.driver:configure')
    ok = 'finalize_environment(env, args, extra)' in unparse(cf.node)
    ctx.ob(R, 'configure|extra-args-captured', ok, cf.node, '')
    av = repo.func('bfg9000.builtins.user_arguments:argv')
    ok = 'return context.argv' in unparse(av.node)
    ctx.ob(R, 'argv|from-context', ok, av.node, '')


def check(ctx):
    ctx.not_decided += [
        'visibility of variables/exports over arbitrary submodule nesting '
        '(run-time probes)', 'argparse\'s own parsing behaviour']
    exec_scope(ctx)
    push_path(ctx)
    rel_resolve(ctx)
    x_alias(ctx)
