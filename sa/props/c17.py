"""C17 -- Generated pkg-config files give consumers the declared flags and
requirements.

Decided: ESC-PC, PC-FIELD-SYNTAX, WRITE-FLOW (pc Writer), LITERAL-ORIGIN,
PC-OPS, PC-REQ-SINGLE, PC-VARS, plus the determinism of the requirement order
(UNORDERED-ITER restricted to builtins.pkg_config, shared with C13).
Not decided: what pkg-config prints; equivalence of simplified specifier sets
over all versions.
"""
import ast

from ..consteval import EnumMember, const_eval, enum_members
from ..index import AnalysisError, unparse, walk_no_nested
from .. import query as Q
from ..rules import escape as E
from .. import substchain
from .. import tables as T

PKG = 'bfg9000.builtins.pkg_config'
PC_FUNCS = [PKG + ':PkgConfigWriter._write_variable',
            PKG + ':PkgConfigWriter._write_field']

SHELL_FIELDS = {'Cflags', 'Libs', 'Libs.private'}
TEXT_FIELDS = {'Name', 'Description', 'URL', 'Version'}
PKGCONFIG_OPERATORS = {'=', '!=', '<', '<=', '>', '>='}   # pc(5)


def esc_pc(ctx):
    R = 'ESC-PC'
    ctx.rule(R, 'every value written into a .pc file escapes the characters '
             'pkg-config treats specially on a line (#)')
    repo = ctx.repo
    table, members = E.escape_table(repo, E.PC_SYN)
    sites = E.emission_sites(ctx, PC_FUNCS, E.PC_SYN, members, E.classify_pc)
    ctx.require_min(R, len(sites), 4, 'pc emission sites')
    E.esc_rule(ctx, R, sites, table, only_contexts={'PC_VALUE'})
    # names are constants / enum names
    for f, t, cs in sites:
        if 'PC_NAME' in cs:
            ctx.ob(R, f.fq + '|name-written-as-variable-syntax',
                   t.syntaxes == {'variable'}, t.node,
                   'field/variable name is not written with Syntax.variable')
    return sites


def field_syntax(ctx):
    R = 'PC-FIELD-SYNTAX'
    ctx.rule(R, 'fields that pkg-config splits with sh rules (Cflags, Libs, '
             'Libs.private) are written with Syntax.shell; descriptive fields '
             '(Name, Description, URL, Version) with Syntax.variable')
    repo = ctx.repo
    f = repo.method(PKG + ':PkgConfigWriter', '_write')
    seen = set()
    for c in Q.calls(f.node):
        if unparse(c.func) != 'self._write_field' or len(c.args) < 3:
            continue
        name = const_eval(repo, f.module, c.args[1])
        if not isinstance(name, str):
            raise AnalysisError('_write: non-constant field name')
        syn = Q.arg(c, 3, 'syntax')
        member = 'variable'
        if syn is not None:
            v = const_eval(repo, f.module, syn)
            if not isinstance(v, EnumMember):
                raise AnalysisError('_write: cannot evaluate syntax of ' +
                                    name)
            member = v.name
        seen.add(name)
        if name in SHELL_FIELDS:
            ctx.ob(R, name, member == 'shell', c,
                   '{} is written with Syntax.{}: flags with spaces/quotes '
                   'are not sh-quoted'.format(name, member))
        elif name in TEXT_FIELDS:
            ctx.ob(R, name, member == 'variable', c,
                   '{} is written with Syntax.{}: free text would be '
                   'sh-quoted'.format(name, member))
        else:
            ctx.ob(R, name, member in ('shell', 'variable'), c, '')
    for n in sorted((SHELL_FIELDS | TEXT_FIELDS | {
            'Requires', 'Requires.private', 'Conflicts'}) - seen):
        ctx.ob(R, n + '|present', False, f.node,
               'field {} is no longer written'.format(n))
    # the flags come from the compiler/linker in pkg-config mode
    txt = unparse(f.node)
    for var, src in (('cflags', "compiler.flags(compile_options, "
                                "mode='pkg-config')"),
                     ('ldflags', "linker.flags(link_options, "
                                 "mode='pkg-config')")):
        vals = [unparse(v) for v in Q.local_assignments(f.node, var)
                if v is not None]
        ctx.ob(R, var + '|from-' + src.split('(')[0], any(
            src in v for v in vals), f.node,
            '{} is not computed by {}'.format(var, src))
    for fld, var in (('Cflags', 'cflags'), ('Libs', 'ldflags'),
                     ('Libs.private', 'ldflags_private')):
        hit = [c for c in Q.calls(f.node) if unparse(c.func) ==
               'self._write_field' and len(c.args) >= 3 and const_eval(
                   repo, f.module, c.args[1]) == fld]
        ctx.ob(R, fld + '|value', len(hit) == 1 and unparse(
            hit[0].args[2]) == var, f.node,
            '{} is not written from {}'.format(fld, var))


def pc_ops(ctx):
    R = 'PC-OPS'
    ctx.rule(R, 'every comparison operator that survives simplify_specifiers '
             'maps through SimpleRequirement._safe_str into pkg-config\'s '
             'operator set; every other operator is rejected')
    repo = ctx.repo
    f = repo.func('bfg9000.versioning:simplify_specifiers')
    loops = [n for n in walk_no_nested(f.node) if isinstance(n, ast.For)]
    Q.require(loops, 'simplify_specifiers: no loop over the specifiers')
    accepted = set()
    rejected_else = False
    for lp in loops:
        for st in lp.body:
            if isinstance(st, ast.If):
                cur = st
                while True:
                    for n in ast.walk(cur.test):
                        if isinstance(n, ast.Compare) and 'operator' in \
                                unparse(n.left):
                            v = const_eval(repo, f.module, n.comparators[0])
                            if isinstance(v, str):
                                accepted.add(v)
                            elif isinstance(v, (list, tuple)):
                                accepted |= set(v)
                    if len(cur.orelse) == 1 and isinstance(
                            cur.orelse[0], ast.If):
                        cur = cur.orelse[0]
                    else:
                        rejected_else = any(isinstance(s, ast.Raise)
                                            for s in cur.orelse)
                        break
    Q.require(accepted, 'simplify_specifiers: operator dispatch not found')
    ctx.ob(R, 'simplify_specifiers|other-operators-rejected', rejected_else,
           f.node, 'operators outside {} are not rejected'.format(
               sorted(accepted)))
    s = repo.method(PKG + ':SimpleRequirement', '_safe_str')
    mapping = {}
    for n in walk_no_nested(s.node):
        if isinstance(n, ast.If) and isinstance(n.test, ast.Compare) and \
                unparse(n.test.left) == 'op':
            k = const_eval(repo, s.module, n.test.comparators[0])
            for st in n.body:
                if isinstance(st, ast.Assign) and unparse(
                        st.targets[0]) == 'op':
                    mapping[k] = const_eval(repo, s.module, st.value)
    for op in sorted(accepted):
        out = mapping.get(op, op)
        ctx.ob(R, 'operator|' + op, out in PKGCONFIG_OPERATORS, s.node,
               'specifier operator {!r} is written as {!r}, which is not a '
               'pkg-config operator'.format(op, out))
    # op source is the specifier's operator
    vals = [unparse(v) for v in Q.local_assignments(s.node, 'op')
            if v is not None]
    ctx.ob(R, '_safe_str|op-from-specifier',
           'self.version.operator' in vals, s.node,
           'operator is not taken from the specifier')
    fm = [c for c in Q.calls(s.node) if Q.callee_attr(c) == 'format']
    ok = False
    for c in fm:
        kw = {k.arg: unparse(k.value) for k in c.keywords}
        tmpl = const_eval(repo, s.module, c.func.value)
        if kw == {'name': 'self.name', 'op': 'op',
                  'version': 'self.version.version'} and \
                tmpl == '{name} {op} {version}':
            ok = True
    ctx.ob(R, '_safe_str|name-op-version', ok, s.node,
           'requirement is not rendered as "<name> <op> <version>"')


def bound_tiebreak(ctx):
    R = 'PC-BOUND-TIEBREAK'
    ctx.rule(R, 'when two bounds meet on the same version, '
             'simplify_specifiers keeps the stricter one: the sort key ranks '
             '> above >= (lower bounds are combined with max) and < below <= '
             '(upper bounds with min)')
    from ..consteval import UNKNOWN, subst_eval
    repo = ctx.repo
    f = repo.func('bfg9000.versioning:simplify_specifiers')
    keys = [n for n in ast.walk(f.node) if isinstance(n, ast.FunctionDef) and
            n.name == 'key']
    Q.require(len(keys) == 1, 'simplify_specifiers: key() not found')
    ret = Q.returns(keys[0])
    Q.require(len(ret) == 1 and isinstance(ret[0].value, ast.Tuple) and
              len(ret[0].value.elts) == 2, 'key(): (version, rank) expected')
    rank = {}
    for op in ('>', '>=', '<', '<='):
        v = subst_eval(repo, f.module, ret[0].value.elts[1],
                       {'s.operator': op})
        rank[op] = v
    ctx.stat('specifier_rank', {k: repr(v) for k, v in rank.items()})
    ok = all(isinstance(v, int) for v in rank.values())
    ctx.ob(R, 'key|rank-evaluates', ok, keys[0], 'rank is {}'.format(rank))
    if ok:
        ctx.ob(R, 'lower-bound|>-beats->=', rank['>'] > rank['>='], keys[0],
               'for equal versions max() keeps >= over >: the excluded '
               'version is accepted')
        ctx.ob(R, 'upper-bound|<-beats-<=', rank['<'] < rank['<='], keys[0],
               'for equal versions min() keeps <= over <: the excluded '
               'version is accepted')
    t = unparse(f.node)
    ok = 'gt = i if gt is None else max(gt, i, key=key)' in t and \
        'lt = i if lt is None else min(lt, i, key=key)' in t
    ctx.ob(R, 'bounds|max-for-lower,min-for-upper', ok, f.node,
           'lower bounds are not combined with max / upper with min')
    ok = unparse(ret[0].value.elts[0]) == 's.version'
    ctx.ob(R, 'key|version-first', ok, keys[0], '')


def req_single(ctx):
    R = 'PC-REQ-SINGLE'
    ctx.rule(R, 'Requires / Requires.private entries carry at most one '
             'version constraint each (pkg-config has no conjunction): '
             'split(single=True); Conflicts may carry several')
    repo = ctx.repo
    f = repo.method(PKG + ':PkgConfigInfo', 'finalize')
    dicts = [n for n in ast.walk(f.node) if isinstance(n, ast.Dict)]
    found = {}
    for d in dicts:
        for k, v in zip(d.keys, d.values):
            kk = const_eval(repo, f.module, k) if k is not None else None
            if kk in ('requires', 'requires_private', 'conflicts'):
                found[kk] = v
    for k in ('requires', 'requires_private'):
        v = found.get(k)
        ok = v is not None and isinstance(v, ast.Call) and \
            Q.callee_attr(v) == 'split' and const_eval(
                repo, f.module, Q.arg(v, 0, 'single') or ast.Constant(
                    False)) is True
        ctx.ob(R, k, ok, f.node, '{} is not split(single=True)'.format(k))
    sp = repo.method(PKG + ':Requirement', 'split')
    guards = [n for n in walk_no_nested(sp.node) if isinstance(n, ast.If) and
              'single' in unparse(n.test) and any(isinstance(s, ast.Raise)
                                                  for s in n.body)]
    ok = bool(guards) and 'len(specs) > 1' in unparse(guards[0].test)
    ctx.ob(R, 'Requirement.split|single-raises', ok, sp.node,
           'split(single=True) does not reject multiple specifiers')
    # merge: requires_private entries also in requires are merged
    ok = any(unparse(c.func) == 'requires.merge_from' for c in
             Q.calls(f.node))
    ctx.ob(R, 'finalize|public-private-merge', ok, f.node,
           'requires and requires_private are not merged')
    # conflicting specifier sets are rejected at configure time: the `&`
    # of version sets + simplify (raises 'inconsistent')
    sim = repo.func('bfg9000.versioning:simplify_specifiers')
    raises = [n for n in ast.walk(sim.node) if isinstance(n, ast.Raise)]
    ctx.ob(R, 'simplify_specifiers|inconsistent-raises', len(raises) >= 4,
           sim.node, 'inconsistent specifier sets are no longer rejected')


def pc_vars(ctx):
    R = 'PC-VARS'
    ctx.rule(R, 'each .pc variant defines the variables its paths can '
             'reference: all install roots (bindir exempt) when installed, '
             'srcdir and builddir when uninstalled; names agree with '
             'shell.syntax.path_vars')
    repo = ctx.repo
    f = repo.method(PKG + ':PkgConfigWriter', '_write')
    branch = [n for n in walk_no_nested(f.node) if isinstance(n, ast.If) and
              unparse(n.test) == 'installed' and any(
                  isinstance(s, ast.For) for s in n.body)]
    Q.require(len(branch) == 1, '_write: installed/uninstalled variable '
              'block not found')
    b = branch[0]
    loop = [s for s in b.body if isinstance(s, ast.For)][0]
    ok = unparse(loop.iter).endswith('InstallRoot')
    excl = set()
    inner = loop.body
    if len(inner) == 1 and isinstance(inner[0], ast.If):
        t = inner[0].test
        if isinstance(t, ast.Compare) and isinstance(t.ops[0], ast.NotEq):
            v = const_eval(repo, f.module, t.comparators[0])
            if isinstance(v, EnumMember):
                excl.add(v.name)
        inner = inner[0].body
    wv = [c for s in inner for c in ast.walk(s) if isinstance(c, ast.Call)
          and unparse(c.func) == 'self._write_variable']
    ok = ok and len(wv) == 1 and unparse(wv[0].args[1]) == 'i.name' and \
        unparse(wv[0].args[2]) == 'env.install_dirs[i]'
    ctx.ob(R, 'installed|all-install-roots', ok and excl <= {'bindir'},
           loop, 'installed variant does not define every install root '
           '(excluded: {})'.format(sorted(excl)))
    names = set()
    for s in b.orelse:
        for c in ast.walk(s):
            if isinstance(c, ast.Call) and unparse(c.func) == \
                    'self._write_variable' and len(c.args) >= 2:
                v = const_eval(repo, f.module, c.args[1])
                if isinstance(v, str):
                    names.add(v)
    ctx.ob(R, 'uninstalled|srcdir+builddir', {'srcdir', 'builddir'} <= names,
           b, 'uninstalled variant defines {}'.format(sorted(names)))
    # builddir relative to the .pc file
    bd = [c for s in b.orelse for c in ast.walk(s) if isinstance(c, ast.Call)
          and unparse(c.func) == 'self._write_variable' and const_eval(
              repo, f.module, c.args[1]) == 'builddir']
    ok = len(bd) == 1 and '${pcfiledir}' in unparse(bd[0].args[2]) and \
        'self.directory' in unparse(bd[0].args[2])
    ctx.ob(R, 'uninstalled|builddir-relative-to-pcfiledir', ok, b,
           'builddir is not defined relative to ${pcfiledir}')
    # path_vars naming
    m = repo.module(E.PC_SYN)
    pv = m.assigns.get('path_vars')
    ok = pv is not None and isinstance(pv, ast.DictComp) and unparse(
        pv.value) == 'Variable(i.name)' and unparse(pv.key) == 'i'
    src = unparse(pv) if pv is not None else ''
    ok = ok and 'Root.srcdir' in src and 'Root.builddir' in src and \
        'InstallRoot' in src
    ctx.ob(R, 'path_vars|named-after-roots', ok, None,
           'shell.syntax.path_vars no longer maps every root to a variable '
           'of the same name')
    # installed variant installifies every path
    vals = [unparse(v) for v in Q.local_assignments(f.node, 'installify_fn')
            if v is not None]
    ctx.ob(R, 'installed|paths-installified',
           vals == ['self._installify if installed else identity'], f.node,
           'installed variant does not map paths to their installed '
           'location')


def check(ctx):
    from ..rules import unordered
    ctx.not_decided += [
        'what the real pkg-config prints for the file',
        'equivalence of the simplified specifier set with the given one over '
        'all versions']
    esc_pc(ctx)
    field_syntax(ctx)
    E.write_flow(ctx, E.PC_SYN, {'shell'}, has_escape=False)
    E.literal_origin(ctx)
    pc_ops(ctx)
    req_single(ctx)
    bound_tiebreak(ctx)
    pc_vars(ctx)
    unordered.check(ctx, modules={'bfg9000.builtins.pkg_config',
                                  'bfg9000.versioning'})
