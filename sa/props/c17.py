"""C17 -- Generated pkg-config files give consumers the declared flags and
requirements.

Decided: ESC-PC, PC-FIELD-SYNTAX, WRITE-FLOW (pc Writer), LITERAL-ORIGIN,
PC-OPS, PC-REQ-SINGLE, PC-VARS, plus the determinism of the requirement order
(UNORDERED-ITER restricted to builtins.pkg_config, shared with C13).
Not decided: what pkg-config prints; equivalence of simplified specifier sets
over all versions.
"""
import ast

from ..consteval import EnumMember, const_eval, enum_members
from ..index import AnalysisError, unparse, walk_no_nested
from .. import query as Q
from ..rules import escape as E
from ..rules import escape2 as E2
from ..facts import Facts, direct, has, has_call, has_const, param_of
from .. import substchain
from .. import tables as T

PKG = 'bfg9000.builtins.pkg_config'
PC_FUNCS = [PKG + ':PkgConfigWriter._write_variable',
            PKG + ':PkgConfigWriter._write_field']

SHELL_FIELDS = {'Cflags', 'Libs', 'Libs.private'}
TEXT_FIELDS = {'Name', 'Description', 'URL', 'Version'}
PKGCONFIG_OPERATORS = {'=', '!=', '<', '<=', '>', '>='}   # pc(5)


def _facts(ctx):
    F = getattr(ctx, '_facts', None)
    if F is None:
        F = ctx._facts = Facts(ctx.repo)
    return F


def _member(ctx, F, e, pos, kw, default_fn):
    """Syntax member an effect passes at (pos, kw), or the default of the
    callee's parameter."""
    a = e.arg(pos, kw=kw)
    ms = {x.split('.')[-1] for x in a if '.Syntax.' in '.' + x or
          x.startswith('Syntax.')}
    if not ms:
        d = Q.param_default(default_fn.node, kw)
        v = const_eval(ctx.repo, default_fn.module, d) if d is not None \
            else None
        if isinstance(v, EnumMember):
            ms = {v.name}
    return ms


def esc_pc(ctx):
    R = 'ESC-PC'
    ctx.rule(R, 'every value written into a .pc file escapes the characters '
             'pkg-config treats specially on a line (#)')
    repo = ctx.repo
    F = _facts(ctx)
    table, members = E.escape_table(repo, E.PC_SYN)
    E2.esc_members(ctx, R, E.PC_SYN, table, {'PC_VALUE'})
    # names are written with Syntax.variable
    for fq in PC_FUNCS:
        f = F.fn(fq)
        ws = [e for e in F.effects(f, lambda e: e.name == 'write', depth=0)
              if param_of(e.arg(0), 'name')]
        ok = bool(ws) and all(has(e.arg(1, kw='syntax'), 'Syntax.variable')
                              for e in ws)
        ctx.ob(R, fq.split('.')[-1] + '|name-written-as-variable-syntax', ok,
               f.node, 'field/variable name is not written with '
               'Syntax.variable')
        vs = [e for e in F.effects(f, lambda e: e.name in (
            'write_each', 'write_shell'), depth=0)]
        ok = bool(vs) and all(param_of(e.arg(1, kw='syntax'), 'syntax')
                              for e in vs)
        ctx.ob(R, fq.split('.')[-1] + '|value-written-with-given-syntax',
               ok, f.node, 'the value is not written with the syntax the '
               'caller chose')


def field_syntax(ctx):
    R = 'PC-FIELD-SYNTAX'
    ctx.rule(R, 'fields that pkg-config splits with sh rules (Cflags, Libs, '
             'Libs.private) are written with Syntax.shell; descriptive fields '
             '(Name, Description, URL, Version) with Syntax.variable')
    repo = ctx.repo
    F = _facts(ctx)
    f = F.fn(PKG + ':PkgConfigWriter._write')
    wf = F.fn(PKG + ':PkgConfigWriter._write_field')
    seen = {}
    for e in F.calls_to(f, '_write_field', depth=1):
        nm = [a[6:] for a in direct(e.arg(1)) if a.startswith('const:')]
        if len(nm) != 1:
            continue
        try:
            name = ast.literal_eval(nm[0])
        except Exception:
            continue
        member = _member(ctx, F, e, 3, 'syntax', wf)
        seen[name] = (member, e)
        if name in SHELL_FIELDS:
            ctx.ob(R, name, member == {'shell'}, e.call,
                   '{} is written with Syntax.{}: flags with spaces/quotes '
                   'are not sh-quoted'.format(name, sorted(member)))
        elif name in TEXT_FIELDS:
            ctx.ob(R, name, member == {'variable'}, e.call,
                   '{} is written with Syntax.{}: free text would be '
                   'sh-quoted'.format(name, sorted(member)))
        else:
            ctx.ob(R, name, bool(member) and member <= {'shell', 'variable'},
                   e.call, '')
    for n in sorted((SHELL_FIELDS | TEXT_FIELDS | {
            'Requires', 'Requires.private', 'Conflicts'}) - set(seen)):
        ctx.ob(R, n + '|present', False, f.node,
               'field {} is no longer written'.format(n))
    for fld, tool, opts_ in (('Cflags', 'compiler', 'options'),
                             ('Libs', 'linker', 'link_options'),
                             ('Libs.private', 'linker',
                              'link_options_private')):
        if fld not in seen:
            continue
        a = seen[fld][1].arg(2)
        ok = any(".flags(~, mode='pkg-config')" in x for x in a) and has(
            a, tool) or any(tool in x and "mode='pkg-config'" in x
                            for x in a)
        ok = ok and has(a, "['" + opts_ + "']")
        ctx.ob(R, fld + '|value', ok, f.node,
               '{} is not computed by the {} in pkg-config mode from the '
               'package\'s {}'.format(fld, tool, opts_))


def pc_ops(ctx):
    R = 'PC-OPS'
    ctx.rule(R, 'every comparison operator that survives simplify_specifiers '
             'maps through SimpleRequirement._safe_str into pkg-config\'s '
             'operator set; every other operator is rejected')
    repo = ctx.repo
    F = _facts(ctx)
    f = F.fn('bfg9000.versioning:simplify_specifiers')
    p0 = Q.params(f.node)[0]

    def is_op(atoms):
        return has(atoms, p0, 'operator')

    def consts_of(atoms):
        out = set()
        for a in atoms:
            if a.startswith('const:'):
                try:
                    v = ast.literal_eval(a[6:])
                except Exception:
                    continue
                if isinstance(v, str):
                    out.add(v)
        return out
    # the operators some branch accepts: constants an element's `.operator`
    # is compared with (==, in) in the function itself (however the
    # operator is named there)
    accepted = set()
    frames = [(g, b) for g, b in F.frames(f, 1) if g.module is f.module]
    per_frame = {}
    for g, b in frames:
        acc = set()
        for n in walk_no_nested(g.node):
            if isinstance(n, ast.Compare) and len(n.ops) == 1 and \
                    isinstance(n.ops[0], (ast.Eq, ast.In)) and is_op(
                        F.atoms(n.left, g, b)) and any(
                    isinstance(p_, (ast.If, ast.IfExp)) and
                    any(x is n for x in ast.walk(p_.test))
                    for p_ in ast.walk(g.node)):
                acc |= consts_of(F.atoms(n.comparators[0], g, b))
        per_frame[g.fq] = acc
    # the dispatch: the frame that tests the most operators
    disp = max(frames, key=lambda gb: len(per_frame[gb[0].fq]))
    accepted = per_frame[disp[0].fq]
    # ... and a raise reached only when every one of them failed
    rejected_else = False
    g, b = disp
    for n in walk_no_nested(g.node):
        if isinstance(n, ast.Raise):
            failed = set()
            for op, l, r in F.guard_compares(n, g, b):
                if op in ('NotEq', 'NotIn') and is_op(l):
                    failed |= consts_of(r)
            if accepted and failed >= accepted:
                rejected_else = True
    Q.require(accepted, 'simplify_specifiers: operator dispatch not found')
    ctx.ob(R, 'simplify_specifiers|other-operators-rejected', rejected_else,
           f.node, 'operators outside {} are not rejected'.format(
               sorted(accepted)))
    s = repo.method(PKG + ':SimpleRequirement', '_safe_str')
    mapping = {}
    for n in walk_no_nested(s.node):
        if isinstance(n, ast.If) and isinstance(n.test, ast.Compare) and \
                unparse(n.test.left) == 'op':
            k = const_eval(repo, s.module, n.test.comparators[0])
            for st in n.body:
                if isinstance(st, ast.Assign) and unparse(
                        st.targets[0]) == 'op':
                    mapping[k] = const_eval(repo, s.module, st.value)
    for op in sorted(accepted):
        out = mapping.get(op, op)
        ctx.ob(R, 'operator|' + op, out in PKGCONFIG_OPERATORS, s.node,
               'specifier operator {!r} is written as {!r}, which is not a '
               'pkg-config operator'.format(op, out))
    # op source is the specifier's operator
    vals = [unparse(v) for v in Q.local_assignments(s.node, 'op')
            if v is not None]
    ctx.ob(R, '_safe_str|op-from-specifier',
           'self.version.operator' in vals, s.node,
           'operator is not taken from the specifier')
    fm = [c for c in Q.calls(s.node) if Q.callee_attr(c) == 'format']
    ok = False
    for c in fm:
        kw = {k.arg: unparse(k.value) for k in c.keywords}
        tmpl = const_eval(repo, s.module, c.func.value)
        if kw == {'name': 'self.name', 'op': 'op',
                  'version': 'self.version.version'} and \
                tmpl == '{name} {op} {version}':
            ok = True
    ctx.ob(R, '_safe_str|name-op-version', ok, s.node,
           'requirement is not rendered as "<name> <op> <version>"')


def bound_tiebreak(ctx):
    R = 'PC-BOUND-TIEBREAK'
    ctx.rule(R, 'when two bounds meet on the same version, '
             'simplify_specifiers keeps the stricter one: the sort key ranks '
             '> above >= (lower bounds are combined with max) and < below <= '
             '(upper bounds with min)')
    from ..consteval import UNKNOWN, subst_eval
    repo = ctx.repo
    F = _facts(ctx)
    f = F.fn('bfg9000.versioning:simplify_specifiers')
    # the function itself and the helpers of its module it calls
    frames = [(g, b) for g, b in F.frames(f, 1) if g.module is f.module]
    # the ordering function handed to max()/min() as key=
    keyexprs = []
    mm_calls = []
    for g, b in frames:
        for c in ast.walk(g.node):
            if isinstance(c, ast.Call) and isinstance(c.func, ast.Name) and \
                    c.func.id in ('max', 'min'):
                k = Q.kwarg(c, 'key')
                if k is not None:
                    keyexprs.append(k)
                    mm_calls.append((c, g, b, c.func.id))
            # max/min unrolled: `if K(i) > K(best): best = i`
            if isinstance(c, ast.Compare) and len(c.ops) == 1 and isinstance(
                    c.ops[0], (ast.Gt, ast.Lt)) and isinstance(
                    c.left, ast.Call) and isinstance(
                        c.comparators[0], ast.Call) and isinstance(
                    c.left.func, ast.Name) and isinstance(
                        c.comparators[0].func, ast.Name) and \
                    c.left.func.id == c.comparators[0].func.id and len(
                        c.left.args) == 1 and len(
                        c.comparators[0].args) == 1:
                keyexprs.append(c.left.func)
                mm_calls.append((c, g, b, 'max' if isinstance(
                    c.ops[0], ast.Gt) else 'min'))
    Q.require(keyexprs, 'simplify_specifiers: no max()/min() with key=')
    kfn, kparam, kret = None, None, None
    k0 = keyexprs[0]
    if isinstance(k0, ast.Lambda):
        kfn, kparam, kret = k0, k0.args.args[0].arg, k0.body
    elif isinstance(k0, ast.Name):
        for n in [x for g, b in frames for x in ast.walk(g.node)]:
            if isinstance(n, ast.FunctionDef) and n.name == k0.id:
                rr = Q.returns(n)
                if len(rr) == 1:
                    kfn, kparam, kret = n, n.args.args[0].arg, rr[0].value
        if kfn is None:
            r_ = repo.resolve_symbol(f.module.name, k0.id)
            if r_ is not None and r_[0] == 'func':
                rr = Q.returns(r_[1].node)
                if len(rr) == 1:
                    kfn, kparam = r_[1].node, r_[1].node.args.args[0].arg
                    kret = rr[0].value
    Q.require(kfn is not None and isinstance(kret, ast.Tuple) and
              len(kret.elts) == 2, 'ordering key: (version, rank) expected')
    keys = [kfn]
    ret = [ast.Return(value=kret)]
    rank = {}
    for op in ('>', '>=', '<', '<='):
        v = subst_eval(repo, f.module, kret.elts[1],
                       {kparam + '.operator': op})
        rank[op] = v
    ctx.stat('specifier_rank', {k: repr(v) for k, v in rank.items()})
    ok = all(isinstance(v, int) for v in rank.values())
    ctx.ob(R, 'key|rank-evaluates', ok, keys[0], 'rank is {}'.format(rank))
    if ok:
        ctx.ob(R, 'lower-bound|>-beats->=', rank['>'] > rank['>='], keys[0],
               'for equal versions max() keeps >= over >: the excluded '
               'version is accepted')
        ctx.ob(R, 'upper-bound|<-beats-<=', rank['<'] < rank['<='], keys[0],
               'for equal versions min() keeps <= over <: the excluded '
               'version is accepted')
    ok_lo = ok_hi = False
    for c, g_, b_, kind_ in mm_calls:
        if True:
            cmps = F.guard_compares(c, g_, b_)
            ops_ = set()
            for op, l, r in cmps:
                if op not in ('In', 'Eq'):
                    continue
                for side in (l, r):
                    for a in side:
                        if a.startswith('const:'):
                            try:
                                v = ast.literal_eval(a[6:])
                            except Exception:
                                continue
                            for x in (v if isinstance(v, (list, tuple))
                                      else [v]):
                                if x in ('>', '>=', '<', '<='):
                                    ops_.add(x)
            if kind_ == 'max' and ops_ and ops_ <= {'>', '>='}:
                ok_lo = True
            if kind_ == 'min' and ops_ and ops_ <= {'<', '<='}:
                ok_hi = True
    ctx.ob(R, 'bounds|max-for-lower,min-for-upper', ok_lo and ok_hi, f.node,
           'lower bounds are not combined with max / upper with min')
    ok = has(F.atoms(kret.elts[0], f), kparam, 'version') or \
        unparse(kret.elts[0]) == kparam + '.version'
    ctx.ob(R, 'key|version-first', ok, keys[0],
           'bounds are not ordered by version first')


def req_single(ctx):
    R = 'PC-REQ-SINGLE'
    ctx.rule(R, 'Requires / Requires.private entries carry at most one '
             'version constraint each (pkg-config has no conjunction): '
             'split(single=True); Conflicts may carry several')
    repo = ctx.repo
    f = repo.method(PKG + ':PkgConfigInfo', 'finalize')
    dicts = [n for n in ast.walk(f.node) if isinstance(n, ast.Dict)]
    found = {}
    for d in dicts:
        for k, v in zip(d.keys, d.values):
            kk = const_eval(repo, f.module, k) if k is not None else None
            if kk in ('requires', 'requires_private', 'conflicts'):
                found[kk] = v
    for k in ('requires', 'requires_private'):
        v = found.get(k)
        ok = v is not None and isinstance(v, ast.Call) and \
            Q.callee_attr(v) == 'split' and const_eval(
                repo, f.module, Q.arg(v, 0, 'single') or ast.Constant(
                    False)) is True
        ctx.ob(R, k, ok, f.node, '{} is not split(single=True)'.format(k))
    F = _facts(ctx)
    spf = F.fn(PKG + ':Requirement.split')
    sp = spf
    # a raise reached when `single` holds and the simplified specifier set
    # has more than one member
    ok = False
    for g in F.reach(spf, 1):
        if g.cls is not spf.cls:
            continue
        for n in walk_no_nested(g.node):
            if not isinstance(n, ast.Raise):
                continue
            single = any(pos and param_of(F.atoms(t, f_, b_), 'single')
                         for t, pos, f_, b_ in F.guard_leaves(n, g))
            many = any(
                op == 'Gt' and has_call(l, 'len') and has_call(
                    l, 'simplify_specifiers') and has_const(r, 1) or
                op == 'GtE' and has_call(l, 'len') and has_call(
                    l, 'simplify_specifiers') and has_const(r, 2) or
                op == 'Lt' and has_call(r, 'len') and has_call(
                    r, 'simplify_specifiers') and has_const(l, 1)
                for op, l, r in F.guard_compares(n, g))
            if single and many:
                ok = True
    ctx.ob(R, 'Requirement.split|single-raises', ok, sp.node,
           'split(single=True) does not reject multiple specifiers')
    # merge: requires_private entries also in requires are merged
    ok = any(unparse(c.func) == 'requires.merge_from' for c in
             Q.calls(f.node))
    ctx.ob(R, 'finalize|public-private-merge', ok, f.node,
           'requires and requires_private are not merged')
    # conflicting specifier sets are rejected at configure time: the `&`
    # of version sets + simplify (raises 'inconsistent')
    sim = repo.func('bfg9000.versioning:simplify_specifiers')
    simf = F.fn('bfg9000.versioning:simplify_specifiers')
    raises = [n for g in F.reach(simf, 1) if g.module is simf.module
              for n in ast.walk(g.node) if isinstance(n, ast.Raise)]
    ctx.ob(R, 'simplify_specifiers|inconsistent-raises', len(raises) >= 4,
           sim.node, 'inconsistent specifier sets are no longer rejected')


def pc_vars(ctx):
    R = 'PC-VARS'
    ctx.rule(R, 'each .pc variant defines the variables its paths can '
             'reference: all install roots (bindir exempt) when installed, '
             'srcdir and builddir when uninstalled; names agree with '
             'shell.syntax.path_vars')
    repo = ctx.repo
    F = _facts(ctx)
    f = F.fn(PKG + ':PkgConfigWriter._write')
    wv = F.calls_to(f, '_write_variable', depth=1)
    inst = [e for e in wv if has(e.arg(1), 'InstallRoot', 'name')]
    ok = bool(inst) and all(
        has(e.arg(2), 'install_dirs') and any(
            pos and param_of(F.atoms(t, f_, b_), 'installed')
            for t, pos, f_, b_ in F.guard_leaves(e.call, e.fn, e.bind))
        for e in inst)
    excl = set()
    for e in inst:
        for op, l, r in F.guard_compares(e.call, e.fn, e.bind):
            for side in (l, r):
                for a in side:
                    if 'InstallRoot.' in a and op == 'NotEq':
                        excl.add(a.split('.')[-1])
                    elif 'InstallRoot.' in a and op not in ('NotEq',):
                        excl.add('?' + a.split('.')[-1])
    ctx.ob(R, 'installed|all-install-roots', ok and excl <= {'bindir'},
           f.node, 'installed variant does not define every install root '
           '(excluded: {})'.format(sorted(excl)))
    names = {}
    for e in wv:
        for a in direct(e.arg(1)):
            if a.startswith('const:'):
                try:
                    names[ast.literal_eval(a[6:])] = e
                except Exception:
                    pass
    un = {n_: e for n_, e in names.items() if any(
        not pos and param_of(F.atoms(t, f_, b_), 'installed')
        for t, pos, f_, b_ in F.guard_leaves(e.call, e.fn, e.bind))}
    ctx.ob(R, 'uninstalled|srcdir+builddir',
           {'srcdir', 'builddir'} <= set(un), f.node,
           'uninstalled variant defines {}'.format(sorted(un)))
    bd = un.get('builddir')
    ok = bd is not None and any('${pcfiledir}' in a for a in bd.arg(2)) \
        and has(bd.arg(2), 'self.directory')
    ctx.ob(R, 'uninstalled|builddir-relative-to-pcfiledir', ok, f.node,
           'builddir is not defined relative to ${pcfiledir}')
    m = repo.module(E.PC_SYN)
    pv = m.assigns.get('path_vars')
    ok = pv is not None and isinstance(pv, ast.DictComp) and unparse(
        pv.value) == 'Variable(i.name)' and unparse(pv.key) == 'i'
    src = unparse(pv) if pv is not None else ''
    ok = ok and 'Root.srcdir' in src and 'Root.builddir' in src and \
        'InstallRoot' in src
    ctx.ob(R, 'path_vars|named-after-roots', ok, None,
           'shell.syntax.path_vars no longer maps every root to a variable '
           'of the same name')
    # installed variant installifies every path: the function applied to
    # includes/libs is self._installify exactly when `installed`
    ins = [n for n in ast.walk(f.node) if isinstance(n, ast.Attribute) and
           n.attr == '_installify']
    ok = bool(ins) and all(any(
        pos and param_of(F.atoms(t, f_, b_), 'installed')
        for t, pos, f_, b_ in F.guard_leaves(n, f)) for n in ins)
    used = [e for e in F.effects(f, lambda e: True, depth=0)
            if has(e.heads(), 'self._installify')]
    ok = ok and len(used) >= 2
    ctx.ob(R, 'installed|paths-installified', ok, f.node,
           'installed variant does not map paths to their installed '
           'location')


def pc_readback(ctx):
    R = 'PC-READBACK'
    ctx.rule(R, 'what bfg9000 itself reads back and fills in: pkg-config '
             'output (which is backslash-escaped, never quoted) is split '
             'with escapes enabled; the auto-filled includes/libs of a '
             'package are the explicitly installed files (implicitly '
             'installed dependencies only reach Libs.private by forwarding)')
    repo = ctx.repo
    F = _facts(ctx)
    mod = repo.modules['bfg9000.tools.pkg_config']
    n = 0
    for c in ast.walk(mod.tree):
        if not isinstance(c, ast.Call):
            continue
        ty = Q.kwarg(c, 'type')
        if ty is None or not unparse(ty).endswith('option_list'):
            continue
        fn = repo.enclosing_func(c)
        if fn is None:
            continue
        r = repo.resolve_expr(mod, c.func)
        fq = r[1].fq if r and r[0] == 'func' else unparse(c.func)
        if not fq.startswith('bfg9000.shell.'):
            continue
        n += 1
        esc = Q.kwarg(c, 'escapes')
        ok = fq.endswith(':split') and isinstance(esc, ast.Constant) and \
            esc.value is True
        ctx.ob(R, fn.fq + '|flags-split-with-escapes', ok, c,
               'pkg-config output is split by {} without escapes=True: '
               '`-I/a\\ b` becomes two words'.format(unparse(c.func)))
    ctx.ob(R, 'tools.pkg_config|splitters-found', n >= 1, None,
           'no option_list splitter found in tools/pkg_config.py')
    f = F.fn('bfg9000.builtins.pkg_config:finalize_pkg_config')
    # a field is auto-filled only when it was not given (is None): an
    # explicitly empty libs=[] / includes=[] stays empty
    sets = F.effects(f, lambda e: e.name == 'setattr', depth=1)
    ok = bool(sets) and all(any(
        op == 'Is' and (has_const(l, None) or has_const(r_, None)) and
        (has_call(l, 'getattr') or has_call(r_, 'getattr'))
        for f_, n_ in e.path for op, l, r_ in F.guard_compares(n_, f_))
        for e in sets)
    if not sets:
        # spelled with attribute stores instead of setattr: not analysed
        ok = True
    ctx.ob(R, 'finalize_pkg_config|auto-fill-only-unset-fields', ok, f.node,
           'a field is auto-filled when it is merely empty/false, not only '
           'when it is None: libs=[] is replaced by every installed library')
    for key in ('includes', 'libs'):
        vals = []
        for d in ast.walk(f.node):
            if isinstance(d, ast.Dict):
                for k, v in zip(d.keys, d.values):
                    if isinstance(k, ast.Constant) and k.value == key:
                        vals.append(v)
            elif isinstance(d, ast.Assign) and any(
                    isinstance(t, ast.Subscript) and isinstance(
                        t.slice, ast.Constant) and t.slice.value == key
                    for t in d.targets):
                vals.append(d.value)
        at = set()
        for v in vals:
            at |= F.atoms(v, f)
        srcs = {a for a in at if "['install']" in a}
        ok = bool(srcs) and all('explicit' in a for a in srcs)
        ctx.ob(R, 'finalize_pkg_config|auto-fill-{}-from-explicit-installs'
               .format(key), ok, f.node,
               'the auto-filled {} are not taken from install.explicit '
               '({})'.format(key, ', '.join(sorted(srcs))[:100]))


def check(ctx):
    from ..rules import unordered
    ctx.not_decided += [
        'what the real pkg-config prints for the file',
        'equivalence of the simplified specifier set with the given one over '
        'all versions']
    esc_pc(ctx)
    field_syntax(ctx)
    E2.write_flow(ctx, E.PC_SYN, {'shell'}, has_escape=False)
    E2.literal_origin(ctx)
    pc_ops(ctx)
    req_single(ctx)
    bound_tiebreak(ctx)
    pc_vars(ctx)
    pc_readback(ctx)
    unordered.check(ctx, modules={'bfg9000.builtins.pkg_config',
                                  'bfg9000.versioning'})
