"""C18 -- The source distribution contains everything the build reads from
srcdir.

Decided: SOURCE-REGISTRATION, REGEN-INPUTS (executed scripts are bootstrap
paths, which are sources), CACHE-REPLAY (found + extra entries are registered
on the cached path too). Not decided: archive contents; "the unpacked archive
configures equivalently".
"""
from ..rules import regen


def check(ctx):
    ctx.not_decided += [
        'the contents of the archive doppel produces',
        'that the unpacked archive configures to an equivalent build']
    regen.source_registration(ctx)
    regen.regen_inputs(ctx)
    regen.cache_replay(ctx)
    from ..rules import pathops
    pathops.check(ctx)
