"""C14 -- Linked binaries build, run in place, and survive moving the build
dir.

Decided (thin, necessary conditions only): FORWARD-FIELDS -- every slot of
ForwardOptions is filled for static libraries and consumed by the final link
/ pkg-config; recursion follows forwarded libs; dependents precede their
dependencies. RPATH-ORIGIN -- the only rpath producer for build-dir libraries
returns an $ORIGIN-relative path; shared libraries always get a soname.
Not decided: linking and running real binaries, ordering for arbitrary DAGs.
"""
import ast

from ..consteval import const_eval
from ..index import unparse, walk_no_nested
from .. import query as Q

OPT = 'bfg9000.options:'
LK = 'bfg9000.builtins.link:'


def forward_fields(ctx):
    R = 'FORWARD-FIELDS'
    ctx.rule(R, 'every slot of ForwardOptions is written by the static link '
             'step and read by the consuming link step; ForwardOptions.'
             'recurse merges each library\'s options and recurses into its '
             'forwarded libs; the final lib list is user libs followed by '
             'forwarded libs')
    repo = ctx.repo
    fo = repo.cls(OPT + 'ForwardOptions')
    slots = const_eval(repo, fo.module, fo.attrs['__slots__'])
    Q.require(isinstance(slots, list) and len(slots) == 4,
              'ForwardOptions.__slots__')
    so = repo.method(LK + 'StaticLink', '_fill_output')
    written = set()
    for c in Q.calls(so.node):
        if unparse(c.func) == 'opts.ForwardOptions':
            written |= {k.arg for k in c.keywords}
    for n in ast.walk(so.node):
        if isinstance(n, ast.Attribute) and unparse(n.value) == \
                'primary.forward_opts':
            written.add(n.attr)
    li = repo.method(LK + 'Link', '__init__')
    dl = repo.method(LK + 'DynamicLink', '_fill_options')
    read = set()
    for f in (li, dl):
        for n in ast.walk(f.node):
            if isinstance(n, ast.Attribute) and unparse(n.value) == \
                    'forward_opts':
                read.add(n.attr)
    for s in slots:
        ctx.ob(R, 'slot|{}|written-by-static-link'.format(s), s in written,
               so.node, 'ForwardOptions.{} is never filled for a static '
               'library'.format(s))
        ctx.ob(R, 'slot|{}|read-by-final-link'.format(s), s in read, li.node,
               'ForwardOptions.{} is never consumed by a link step'.format(s))
    # values forwarded are the user's direct requirements
    for c in Q.calls(so.node):
        if unparse(c.func) == 'opts.ForwardOptions':
            kw = {k.arg: unparse(k.value) for k in c.keywords}
            ok = kw == {'link_options': 'self.user_options',
                        'libs': 'self.user_libs',
                        'packages': 'self.user_packages'}
            ctx.ob(R, 'StaticLink._fill_output|forwards-user-requirements',
                   ok, c, 'forwarded {}'.format(kw))
    rec = repo.method(OPT + 'ForwardOptions', 'recurse')
    t = unparse(rec.node)
    ok = 'result.update(forward_opts)' in t and \
        'do_recurse(result, forward_opts.libs)' in t and \
        "getattr(i, 'forward_opts', None)" in t
    ctx.ob(R, 'ForwardOptions.recurse|transitive', ok, rec.node,
           'requirements of static libraries are not collected '
           'transitively')
    up = repo.method(OPT + 'ForwardOptions', 'update')
    ok = 'for i in self.__slots__' in unparse(up.node) and \
        'getattr(self, i).extend(getattr(rhs, i))' in unparse(up.node)
    ctx.ob(R, 'ForwardOptions.update|all-slots', ok, up.node,
           'update() does not merge every slot')
    vals = {}
    for n in ast.walk(li.node):
        if isinstance(n, ast.Assign):
            vals[unparse(n.targets[0])] = unparse(n.value)
    ok = vals.get('forward_opts') == \
        'opts.ForwardOptions.recurse(self.user_libs)'
    ctx.ob(R, 'Link.__init__|recurse-over-user-libs', ok, li.node, '')
    ok = vals.get('self.libs') == 'self.user_libs + forward_opts.libs'
    ctx.ob(R, 'Link.__init__|dependents-before-dependencies', ok, li.node,
           'link order is {}: static libraries must precede the libraries '
           'they need'.format(vals.get('self.libs')))
    ok = vals.get('self.packages') == \
        'self.user_packages + forward_opts.packages'
    ctx.ob(R, 'Link.__init__|packages-forwarded', ok, li.node, '')
    ok = 'compile_opts.extend(forward_opts.compile_options)' in unparse(
        li.node)
    ctx.ob(R, 'Link.__init__|compile-options-forwarded', ok, li.node, '')
    ok = 'forward_opts.link_options' in unparse(dl.node) and \
        '(opts.lib(i) for i in self.libs)' in unparse(dl.node)
    ctx.ob(R, 'DynamicLink._fill_options|libs+forwarded-link-options', ok,
           dl.node, 'the final link does not receive every (forwarded) '
           'library / link option')
    # de-duplicating option list keeps first occurrence
    ap = repo.method(OPT + 'option_list', 'append')
    ok = 'not any((option.matches(i) for i in self._options))' in unparse(
        ap.node) and 'stringy_types' in unparse(ap.node)
    ctx.ob(R, 'option_list.append|dedup-semantic-options-only', ok, ap.node,
           'option_list.append changed its de-duplication')
    # runtime deps
    fo_ = repo.method(LK + 'DynamicLink', '_fill_output')
    ok = 'runtime_deps.extend((i.runtime_file for i in self.libs if ' \
        'i.runtime_file))' in unparse(fo_.node)
    ctx.ob(R, 'DynamicLink._fill_output|runtime-deps', ok, fo_.node,
           'shared libraries needed at run time are not recorded')
    ok = 'primary.linktime_deps.extend(self.user_libs)' in unparse(so.node)
    ctx.ob(R, 'StaticLink._fill_output|linktime-deps', ok, so.node, '')


def rpath_origin(ctx):
    R = 'RPATH-ORIGIN'
    ctx.rule(R, 'run-time search paths to project shared libraries are '
             'relative to $ORIGIN; shared libraries get a soname whenever an '
             'output is known; -rpath flags are emitted from the collected '
             'rpaths')
    repo = ctx.repo
    lr = repo.func('bfg9000.tools.patchelf:local_rpath')
    hit = [n for n in ast.walk(lr.node) if isinstance(n, ast.Assign) and
           isinstance(n.value, ast.Call) and Q.callee_attr(n.value) ==
           'relpath']
    ok = len(hit) == 1 and unparse(Q.kwarg(hit[0].value, 'prefix') or
                                   ast.Constant(0)) == "'$ORIGIN'" and \
        unparse(hit[0].value.args[0]) == 'output.path.parent()'
    ctx.ob(R, 'local_rpath|$ORIGIN-relative', ok, lr.node,
           'rpath to a build-dir library is not relative to $ORIGIN of the '
           'output')
    if hit:
        par = hit[0]._parent
        ok = isinstance(par, ast.If) and unparse(par.test) == \
            'rpath.root == output.path.root'
        ctx.ob(R, 'local_rpath|same-root-branch', ok, hit[0], '')
    ok = "rpath.root != Root.absolute and rpath.root not in InstallRoot" in \
        unparse(lr.node)
    ctx.ob(R, 'local_rpath|only-absolute-kept', ok, lr.node,
           'absolute rpaths are produced for non-absolute libraries')
    ok = unparse(lr.node.body[0]).startswith(
        'if not library.runtime_file:')
    ctx.ob(R, 'local_rpath|static-libs-skip', ok, lr.node, '')
    # relpath(prefix=...) joins the prefix
    rp = repo.method('bfg9000.platforms.basepath:BasePath', 'relpath')
    ok = 'posixpath.join(prefix, rel)' in unparse(rp.node) and \
        'if prefix and rel == posixpath.curdir:' in unparse(rp.node)
    ctx.ob(R, 'BasePath.relpath|prefix', ok, rp.node, '')
    fl = repo.method('bfg9000.tools.cc.linker:CcLinker', 'flags')
    t = unparse(fl.node)
    ok = 'rp, rplink = self._local_rpath(i.library, output)' in t and \
        'rpaths.extend(iterate(rp))' in t and \
        "flags.append('-Wl,-rpath,' + safe_str.join(rpaths, ':'))" in t
    ctx.ob(R, 'CcLinker.flags|rpath-from-libs', ok, fl.node,
           'the rpath of each linked library is not turned into a '
           '-Wl,-rpath flag')
    lrp = repo.method('bfg9000.tools.cc.linker:CcLinker', '_local_rpath')
    ok = 'patchelf.local_rpath(self.env, library, output)' in unparse(
        lrp.node)
    ctx.ob(R, 'CcLinker._local_rpath|uses-local_rpath', ok, lrp.node, '')
    sf = repo.method('bfg9000.tools.cc.linker:CcSharedLibraryLinker',
                     'flags')
    ok = any(isinstance(n, ast.If) and unparse(n.test) == 'output' and
             'flags.extend(self._soname(first(output)))' in unparse(n)
             for n in walk_no_nested(sf.node))
    ctx.ob(R, 'CcSharedLibraryLinker.flags|soname', ok, sf.node,
           'shared libraries are linked without a soname (raw-path linking '
           'would record the build path)')
    sn = repo.method('bfg9000.tools.cc.linker:CcSharedLibraryLinker',
                     '_soname')
    ok = "['-Wl,-soname,' + soname.path.basename()]" in unparse(sn.node)
    ctx.ob(R, 'CcSharedLibraryLinker._soname|basename', ok, sn.node,
           'soname is not the bare file name')
    ll = repo.method('bfg9000.tools.cc.linker:CcLinker', '_link_lib')
    ok = 'if raw_link and library.creator:' in unparse(ll.node)
    ctx.ob(R, 'CcLinker._link_lib|raw-path-only-for-own-shared-libs', ok,
           ll.node, '')


def link_words(ctx):
    R = 'LINK-WORDS-KEPT'
    ctx.rule(R, 'every word returned by _link_lib reaches the link line '
             '(no de-duplication of words: -Wl,--whole-archive / '
             '--no-whole-archive pairs and repeated -framework / -u words '
             'must survive); forwarded options are merged without dropping '
             'repeated words')
    repo = ctx.repo
    lf = repo.method('bfg9000.tools.cc.linker:CcLinker', 'lib_flags')
    ext = [c for c in Q.calls(lf.node) if unparse(c.func) == 'flags.extend']
    ok = len(ext) == 1 and isinstance(ext[0].args[0], ast.Call) and \
        unparse(ext[0].args[0].func) == 'self._link_lib'
    ctx.ob(R, 'CcLinker.lib_flags|extend(_link_lib(...))', ok, lf.node,
           'the words of a library are filtered before they reach the link '
           'line: {}'.format(unparse(ext[0].args[0])[:80] if ext else None))
    up = repo.method(OPT + 'ForwardOptions', 'update')
    ok = 'getattr(self, i).extend(getattr(rhs, i))' in unparse(up.node) and \
        not any(isinstance(n, (ast.If, ast.IfExp)) for n in ast.walk(
            up.node))
    ctx.ob(R, 'ForwardOptions.update|plain-extend', ok, up.node,
           'forwarded options are filtered while merging')
    ap = repo.method(OPT + 'option_list', 'append')
    ok = 'isinstance(option, safe_str.stringy_types) or' in unparse(ap.node)
    ctx.ob(R, 'option_list.append|strings-never-deduplicated', ok, ap.node,
           'raw string options are de-duplicated')


def check(ctx):
    ctx.not_decided += [
        'that each executable/shared library links with the real toolchain '
        'and runs from the (moved) build directory',
        'usability of the link order for arbitrary DAGs of static/shared/'
        'dual/whole-archive libraries']
    forward_fields(ctx)
    rpath_origin(ctx)
    link_words(ctx)
    from . import c12
    c12.relpath_impl(ctx)
    from ..rules import pathops
    pathops.check(ctx)
