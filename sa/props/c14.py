"""C14 -- Linked binaries build, run in place, and survive moving the build
dir.

Decided (thin, necessary conditions only): FORWARD-FIELDS -- every slot of
ForwardOptions is filled for static libraries and consumed by the final link
/ pkg-config; recursion follows forwarded libs; dependents precede their
dependencies. RPATH-ORIGIN -- the only rpath producer for build-dir libraries
returns an $ORIGIN-relative path; shared libraries always get a soname.
Not decided: linking and running real binaries, ordering for arbitrary DAGs.
"""
import ast

from ..consteval import const_eval
from ..facts import Facts, direct, has, has_call, has_const, param_of
from ..index import unparse, walk_no_nested
from .. import query as Q

OPT = 'bfg9000.options:'
LK = 'bfg9000.builtins.link:'


def _facts(ctx):
    f = getattr(ctx, '_facts', None)
    if f is None:
        f = ctx._facts = Facts(ctx.repo)
    return f


def _attrs_read(F, fn, base_pred):
    """Attribute names read from values whose access paths satisfy
    base_pred (e.g. the ForwardOptions object)."""
    out = set()
    for g in F.reach(fn, 1):
        if g.module is not fn.module:
            continue
        for n in ast.walk(g.node):
            if isinstance(n, ast.Attribute) and isinstance(n.ctx, ast.Load) \
                    and base_pred(F.atoms(n.value, g)):
                out.add(n.attr)
    return out


def forward_fields(ctx):
    R = 'FORWARD-FIELDS'
    ctx.rule(R, 'every slot of ForwardOptions is written by the static link '
             'step and read by the consuming link step; ForwardOptions.'
             'recurse merges each library\'s options and recurses into its '
             'forwarded libs; the final lib list is user libs followed by '
             'forwarded libs')
    repo = ctx.repo
    F = _facts(ctx)
    fo = repo.cls(OPT + 'ForwardOptions')
    slots = const_eval(repo, fo.module, fo.attrs['__slots__'])
    Q.require(isinstance(slots, list) and len(slots) == 4,
              'ForwardOptions.__slots__')
    so = F.fn(LK + 'StaticLink._fill_output')
    ctors = F.calls_to(so, 'ForwardOptions', depth=1)
    written = set()
    kw = {}
    for e in ctors:
        keys = set()
        for k in e.call.keywords:
            if k.arg:
                keys.add(k.arg)
            else:
                # ForwardOptions(**mapping built here)
                rec = F.flow.record(k.value, e.fn, e.bind) or {}
                keys |= {x for x in rec if x != '*'}
        for k_ in keys:
            written.add(k_)
            kw[k_] = kw.get(k_, set()) | e.arg(kw=k_)
    # slots filled after construction: <x>.forward_opts.<slot>.extend(..)
    for e in F.effects(so, lambda e: e.name in ('extend', 'append',
                                                'update', 'collect'),
                       depth=1):
        for a in e.recv():
            for s_ in slots:
                if has({a}, 'forward_opts', s_) or (
                        has_call({a}, 'ForwardOptions') and has({a}, s_)):
                    written.add(s_)
    for t, v, n in F.stores(so):
        for s_ in slots:
            if has(t, 'forward_opts', s_):
                written.add(s_)
    li = F.fn(LK + 'Link.__init__')
    dl = F.fn(LK + 'DynamicLink._fill_options')
    read = set()
    for f in (li, dl):
        read |= _attrs_read(F, f, lambda a: has_call(a, 'recurse') or
                            param_of(direct(a), 'forward_opts'))
    for s_ in slots:
        ctx.ob(R, 'slot|{}|written-by-static-link'.format(s_), s_ in written,
               so.node, 'ForwardOptions.{} is never filled for a static '
               'library'.format(s_))
        ctx.ob(R, 'slot|{}|read-by-final-link'.format(s_), s_ in read,
               li.node, 'ForwardOptions.{} is never consumed by a link '
               'step'.format(s_))
    ok = bool(ctors) and has(kw.get('link_options', ()), 'self',
                             'user_options') and \
        has(kw.get('libs', ()), 'self', 'user_libs') and \
        has(kw.get('packages', ()), 'self', 'user_packages')
    ctx.ob(R, 'StaticLink._fill_output|forwards-user-requirements', ok,
           so.node, 'a static library does not forward the link options, '
           'libraries and packages its user gave')
    st = [v for t, v, n in F.stores(so) if has(t, 'forward_opts')]
    ok = bool(st) and all(has_call(v, 'ForwardOptions') for v in st)
    ctx.ob(R, 'StaticLink._fill_output|stored-on-primary-output', ok,
           so.node, 'the forwarded options are not attached to the library')
    rec = F.fn(OPT + 'ForwardOptions.recurse')
    ups = F.effects(rec, lambda e: e.name == 'update', depth=1)
    recs = [e for e in F.effects(rec, lambda e: True, depth=1)
            if e.fn is not rec and e.name == e.fn.node.name]
    ok = bool(ups) and all(has(e.all_args(), 'forward_opts')
                           for e in ups) and bool(recs) and all(
        has(e.all_args(), 'forward_opts', 'libs') for e in recs) and (
        has_call(F.returns(rec), 'cls') or any(
            has_call(e.recv(), 'cls') and has_call(F.returns(rec), e.name)
            for e in F.effects(rec, lambda e: True, depth=0)))
    ctx.ob(R, 'ForwardOptions.recurse|transitive', ok, rec.node,
           'requirements of static libraries are not collected '
           'transitively')
    up = F.fn(OPT + 'ForwardOptions.update')
    ext = F.effects(up, lambda e: e.name == 'extend', depth=1)
    # every slot of the class is merged: self.<slot>.extend(rhs.<slot>),
    # spelled out or by a loop over __slots__ (unrolled by the engine)
    slots = const_eval(repo, up.module, up.cls.attrs.get('__slots__'),
                       up.cls) if up.cls is not None and \
        up.cls.attrs.get('__slots__') is not None else None
    rhs = Q.params(up.node)[1]
    merged = set()
    for e in ext:
        for sl in (slots if isinstance(slots, (list, tuple)) else []):
            ctl = {a for a in e.control() if '__slots__' not in a}
            if has(e.recv(), 'self', sl) and has(e.all_args(), rhs, sl) and \
                    not ctl and not e.arg_tests() and not has_call(
                        e.all_args(), 'if'):
                merged.add(sl)
    ok = isinstance(slots, (list, tuple)) and len(slots) >= 4 and \
        merged == set(slots)
    ctx.ob(R, 'ForwardOptions.update|all-slots', ok, up.node,
           'update() does not merge every slot (unfiltered)')
    libs = F.stored(li, 'libs') or set()
    pk = F.stored(li, 'packages') or set()
    ok = has(libs, 'recurse()', 'libs') and (
        has(libs, 'self', 'user_libs') or param_of(libs, 'libs'))
    ctx.ob(R, 'Link.__init__|recurse-over-user-libs', ok and any(
        has(e.arg(0), 'user_libs') or param_of(e.arg(0), 'libs')
        for e in F.calls_to(li, 'recurse', depth=0)), li.node,
        'forwarded requirements are not collected from the user\'s libs')
    # order: user libs first, forwarded libs after
    order_ok = False
    for g_, b_ in F.frames(li, 0):
      if g_.cls is not li.cls:
          continue
      for n in walk_no_nested(g_.node):
        if isinstance(n, ast.Assign) and any(
                isinstance(t, ast.Attribute) and t.attr == 'libs'
                for t in n.targets):
            v = n.value
            if isinstance(v, ast.BinOp) and isinstance(v.op, ast.Add):
                l, r = F.atoms(v.left, g_, b_), F.atoms(v.right, g_, b_)
                order_ok = (has(l, 'user_libs') or param_of(l, 'libs')) and \
                    has(r, 'recurse()', 'libs') and not has(
                        l, 'recurse()')
            elif isinstance(v, ast.Call):
                a = [F.atoms(x, g_, b_) for x in v.args]
                order_ok = len(a) >= 2 and has(a[0], 'user_libs') and has(
                    a[-1], 'recurse()', 'libs')
    ctx.ob(R, 'Link.__init__|dependents-before-dependencies', order_ok,
           li.node, 'link order: static libraries must precede the '
           'libraries they need (user libs, then forwarded libs)')
    ok = has(pk, 'recurse()', 'packages') and (
        has(pk, 'user_packages') or param_of(pk, 'packages'))
    ctx.ob(R, 'Link.__init__|packages-forwarded', ok, li.node,
           'forwarded packages are not added to the link')
    ok = any(has(e.all_args(), 'recurse()', 'compile_options')
             for e in F.effects(li, lambda e: e.name in ('extend',
                                                         'collect'),
                                depth=0))
    ctx.ob(R, 'Link.__init__|compile-options-forwarded', ok, li.node,
           'forwarded compile options do not reach the compile steps')
    cols = F.effects(dl, lambda e: e.name in ('collect', 'extend',
                                              'option_list'), depth=0)
    a = set()
    for e in cols:
        a |= e.all_args()
    ok = has(a, 'forward_opts', 'link_options') and has_call(a, 'lib') and \
        has(a, 'self', 'libs')
    ctx.ob(R, 'DynamicLink._fill_options|libs+forwarded-link-options', ok,
           dl.node, 'the final link does not receive every (forwarded) '
           'library / link option')
    ap = F.fn(OPT + 'option_list.append')
    aps = [e for e in F.effects(ap, lambda e: e.name == 'append', depth=0)
           if has(e.recv(), 'self', '_options')]
    ctl = set()
    for e in aps:
        ctl |= e.control()
    ok = bool(aps) and has_call(ctl, 'matches') and has(
        ctl, 'stringy_types') and has(ctl, 'self', '_options')
    ctx.ob(R, 'option_list.append|dedup-semantic-options-only', ok, ap.node,
           'option_list.append changed its de-duplication')
    fo_ = F.fn(LK + 'DynamicLink._fill_output')
    ex = [e for e in F.effects(fo_, lambda e: e.name in ('extend',
                                                         'append'),
                               depth=0)
          if has(e.recv() | e.heads(), 'runtime_deps')]
    ok = bool(ex) and all(has(e.all_args(), 'self', 'libs',
                              'runtime_file') for e in ex)
    ctx.ob(R, 'DynamicLink._fill_output|runtime-deps', ok, fo_.node,
           'shared libraries needed at run time are not recorded')
    ex = [e for e in F.effects(so, lambda e: e.name in ('extend',
                                                        'append'),
                               depth=0)
          if has(e.recv() | e.heads(), 'linktime_deps')]
    ok = bool(ex) and all(has(e.all_args(), 'self', 'user_libs')
                          for e in ex)
    ctx.ob(R, 'StaticLink._fill_output|linktime-deps', ok, so.node,
           'libraries a static library needs at link time are not '
           'recorded')


def rpath_origin(ctx):
    R = 'RPATH-ORIGIN'
    ctx.rule(R, 'run-time search paths to project shared libraries are '
             'relative to $ORIGIN; shared libraries get a soname whenever an '
             'output is known; -rpath flags are emitted from the collected '
             'rpaths; the development symlink points at the soname symlink, '
             'which points at the library')
    F = _facts(ctx)
    lr = F.fn('bfg9000.tools.patchelf:local_rpath')
    rels = [e for e in F.effects(lr, lambda e: e.name == 'relpath', depth=0)]
    ok = bool(rels) and all(
        has_const(e.arg(1, kw='prefix'), '$ORIGIN') and
        has(e.arg(0), 'output', 'path', 'parent()') and
        has(e.recv(), 'runtime_file', 'path', 'parent()') for e in rels) \
        and any(a.startswith('library.runtime_file.path.parent()') and
                'relpath(' in a for a in F.returns(lr))
    ctx.ob(R, 'local_rpath|$ORIGIN-relative', ok, lr.node,
           'rpath to a build-dir library is not relative to $ORIGIN of the '
           'output')
    ok = bool(rels) and all(any(
        op == 'Eq' and has(l | r, 'output', 'path', 'root') and has(
            l | r, 'runtime_file') for op, l, r in
        F.guard_compares(e.call, lr)) for e in rels)
    ctx.ob(R, 'local_rpath|same-root-branch', ok, lr.node,
           'the $ORIGIN-relative form is not restricted to libraries under '
           'the same root as the output')
    ok = bool(rels) and all(any(
        op == 'NotEq' and has(l | r, 'Root', 'absolute')
        for op, l, r in F.guard_compares(e.call, lr)) and any(
        op == 'NotIn' and has(r, 'InstallRoot')
        for op, l, r in F.guard_compares(e.call, lr)) for e in rels)
    ctx.ob(R, 'local_rpath|only-absolute-kept', ok, lr.node,
           'absolute/installed library locations are rewritten relative '
           'to $ORIGIN (or build-dir ones are not)')
    none_rets = [r for r in Q.returns(lr.node)
                 if r.value is None or isinstance(r.value, ast.Constant)
                 and r.value.value is None]
    ok = any(any(not pos and has(F.atoms(t, lr), 'library', 'runtime_file')
                 for t, pos in F.guard_truths(r, lr)) for r in none_rets)
    ctx.ob(R, 'local_rpath|static-libs-skip', ok, lr.node,
           'libraries without a run-time file are given an rpath')
    rp = F.fn('bfg9000.platforms.basepath:BasePath.relpath')
    joins = [e for e in F.effects(rp, lambda e: e.name == 'join', depth=0)
             if param_of(e.arg(0), 'prefix')]
    ok = bool(joins) and param_of(F.returns(rp), 'prefix')
    ctx.ob(R, 'BasePath.relpath|prefix', ok, rp.node,
           'relpath() ignores its prefix')
    fl = F.fn('bfg9000.tools.cc.linker:CcLinker.flags')
    r = F.returns(fl)
    lrs = [e for e in F.calls_to(fl, '_local_rpath', depth=2)
           if e.fn.cls is fl.cls]
    if any(e.fn is fl for e in lrs):
        ok = has_const(r, '-Wl,-rpath,') and has_call(r, 'local_rpath')
    else:
        # the work is delegated to helper methods (lists filled through
        # parameters are not followed): the flag is built by one of them
        # from a list, and the rpath of every library is collected into a
        # list by extend/append
        helpers = [g for g in F.reach(fl, 2) if g.cls is fl.cls]
        ok = any(has_const(F.returns(g), '-Wl,-rpath,') for g in helpers) \
            and any(has_call(e.all_args(), '_local_rpath')
                    for e in F.effects(fl, lambda e: e.name in (
                        'extend', 'append') and e.fn.cls is fl.cls,
                        depth=2))
    ok = ok and bool(lrs) and all(has(e.arg(0), 'library') and param_of(
        e.arg(1), 'output') for e in lrs)
    ctx.ob(R, 'CcLinker.flags|rpath-from-libs', ok, fl.node,
           'the rpath of each linked library is not turned into a '
           '-Wl,-rpath flag')
    lrp = F.fn('bfg9000.tools.cc.linker:CcLinker._local_rpath')
    es = F.calls_to(lrp, 'local_rpath', depth=0)
    ok = bool(es) and all(param_of(e.arg(1), 'library') and param_of(
        e.arg(2), 'output') for e in es) and has_call(
        F.returns(lrp), 'local_rpath')
    ctx.ob(R, 'CcLinker._local_rpath|uses-local_rpath', ok, lrp.node,
           'the linker does not take its rpath from local_rpath()')
    sf = F.fn('bfg9000.tools.cc.linker:CcSharedLibraryLinker.flags')
    sn_calls = F.calls_to(sf, '_soname', depth=0)
    ok = bool(sn_calls) and all(
        param_of(e.arg(0), 'output') and
        {a for a in e.control() if not a.startswith('const:')} <=
        {'param:output'} for e in sn_calls) and has_call(
        F.returns(sf), '_soname')
    ctx.ob(R, 'CcSharedLibraryLinker.flags|soname', ok, sf.node,
           'shared libraries are linked without a soname (raw-path linking '
           'would record the build path)')
    sn = F.fn('bfg9000.tools.cc.linker:CcSharedLibraryLinker._soname')
    r = F.returns(sn)
    ok = has_const(r, '-Wl,-soname,') and has(r, 'path', 'basename()')
    ctx.ob(R, 'CcSharedLibraryLinker._soname|basename', ok, sn.node,
           'soname is not the bare file name')
    ll = F.fn('bfg9000.tools.cc.linker:CcLinker._link_lib')
    raw = [r_ for r_ in Q.returns(ll.node) if r_.value is not None and
           direct(F.atoms(r_.value, ll)) == {'library.path'}]
    ok = False
    for r_ in raw:
        gs = F.guards_pol(r_, ll)
        pos_atoms = set()
        for t, pos in gs:
            if pos:
                pos_atoms |= F.atoms(t, ll)
        if has(pos_atoms, 'SharedLibrary'):
            ok = param_of(pos_atoms, 'raw_link') and has(
                pos_atoms, 'library', 'creator')
    if not ok:
        # the same decision through a flag variable / conditional
        # expression: whatever builds `[library.path]` is control-dependent
        # on the SharedLibrary test, on raw_link and on library.creator
        for n in ast.walk(ll.node):
            if isinstance(n, ast.List) and len(n.elts) == 1 and direct(
                    F.atoms(n.elts[0], ll)) == {'library.path'}:
                c = F.control(n, ll)
                if has(c, 'SharedLibrary') and param_of(c, 'raw_link') and \
                        has(c, 'library', 'creator'):
                    ok = True
    ctx.ob(R, 'CcLinker._link_lib|raw-path-only-for-own-shared-libs', ok,
           ll.node, 'a shared library that was not built here (no known '
           'soname) is linked by raw path')


def _allocs_ret(F, fn):
    return {a for a in F.returns(fn) if a.startswith('alloc:')}


def _must_append_for_strings(F, ap, aps):
    g = F.cfg(ap)

    def truth(t):
        """Truth of test t when the option is a string (None: unknown)."""
        if isinstance(t, ast.UnaryOp) and isinstance(t.op, ast.Not):
            v = truth(t.operand)
            return None if v is None else not v
        if isinstance(t, ast.BoolOp):
            vs = [truth(v) for v in t.values]
            if isinstance(t.op, ast.Or):
                if any(v is True for v in vs):
                    return True
                return False if all(v is False for v in vs) else None
            if any(v is False for v in vs):
                return False
            return True if all(v is True for v in vs) else None
        if isinstance(t, ast.Call) and unparse(t.func) == 'isinstance':
            a = F.atoms(t, ap)
            if has(a, 'stringy_types') and param_of(
                    F.atoms(t.args[0], ap), Q.params(ap.node)[1]):
                return True
        return None
    succ = {n: set(v) for n, v in g.succ.items()}
    for n in list(succ):
        if isinstance(n, ast.If):
            v = truth(n.test)
            if v is None:
                continue
            body_entry = n.body[0]
            if v:
                succ[n] = {x for x in succ[n] if x is body_entry}
            else:
                succ[n] = {x for x in succ[n] if x is not body_entry}
    targets = set()
    for e in aps:
        try:
            targets.add(g.stmt_of(e.call))
        except Exception:
            pass
    if not targets:
        return False
    seen, stack = {'ENTRY'}, ['ENTRY']
    while stack:
        n = stack.pop()
        for x in succ.get(n, ()):
            if x in targets or x in seen:
                continue
            if x in ('EXIT', 'RAISE'):
                return False
            seen.add(x)
            stack.append(x)
    return True


def link_words(ctx):
    R = 'LINK-WORDS-KEPT'
    ctx.rule(R, 'every word returned by _link_lib reaches the link line '
             '(no de-duplication of words: -Wl,--whole-archive / '
             '--no-whole-archive pairs and repeated -framework / -u words '
             'must survive); forwarded options are merged without dropping '
             'repeated words')
    F = _facts(ctx)
    lf = F.fn('bfg9000.tools.cc.linker:CcLinker.lib_flags')
    adds = [e for e in F.effects(lf, lambda e: e.name in ('extend',
                                                          'append'),
                                 depth=0)
            if has_call(e.all_args(shallow=True), '_link_lib')]
    ok = bool(adds) and all(
        not any(has_call(e.all_args(shallow=True), x)
                for x in ('uniques', 'set', 'if', 'filter', 'sorted',
                          'frozenset')) and
        _allocs_ret(F, lf) & {a for a in e.recv() if a.startswith('alloc:')}
        for e in adds)
    if not adds:
        # no accumulator: the words are returned as one expression
        # (chain.from_iterable over a per-option helper, a comprehension)
        r_ = F.returns(lf)
        ok = has_call(r_, '_link_lib') and not any(
            has_call(r_, x) for x in ('uniques', 'set', 'if', 'filter',
                                      'sorted', 'frozenset', 'fromkeys'))
    ctx.ob(R, 'CcLinker.lib_flags|extend(_link_lib(...))', ok, lf.node,
           'the words of a library are filtered / de-duplicated before '
           'they reach the link line')
    up = F.fn(OPT + 'ForwardOptions.update')
    ext = F.effects(up, lambda e: e.name == 'extend', depth=1)
    ok = bool(ext) and not any(
        e.control() - {a for a in e.control() if '__slots__' in a} or
        e.arg_tests() or has_call(e.all_args(), 'if') or has_call(
            e.all_args(), 'uniques') or has_call(e.all_args(), 'set')
        for e in ext)
    ctx.ob(R, 'ForwardOptions.update|plain-extend', ok, up.node,
           'forwarded options are filtered while merging')
    ap = F.fn(OPT + 'option_list.append')
    aps = [e for e in F.effects(ap, lambda e: e.name == 'append', depth=0)
           if has(e.recv(), 'self', '_options')]
    # a string option is appended whatever the list already holds: the test
    # for stringy types short-circuits the `matches` search
    ok = False
    for e in aps:
        for t in F.guards(e.call, ap):
            if isinstance(t, ast.BoolOp) and isinstance(t.op, ast.Or):
                first_ = F.atoms(t.values[0], ap)
                if has(first_, 'stringy_types') and has_call(
                        first_, 'isinstance'):
                    ok = True
    if not ok:
        # or: an early, separate branch for strings
        ok = any(all(has(F.atoms(t, ap), 'stringy_types')
                     for t, pos in F.guards_pol(e.call, ap) if pos) and
                 any(pos for t, pos in F.guards_pol(e.call, ap))
                 for e in aps)
    if not ok:
        # general form: assume isinstance(option, stringy_types) holds,
        # drop the branches that assumption rules out, and require that
        # every path through the function passes an append
        ok = _must_append_for_strings(F, ap, aps)
    ctx.ob(R, 'option_list.append|strings-never-deduplicated', ok, ap.node,
           'raw string options are de-duplicated')


def soname_chain(ctx):
    R = 'RPATH-ORIGIN'
    F = _facts(ctx)
    po = F.fn('bfg9000.tools.cc.linker:CcSharedLibraryLinker.post_output')
    cps = F.calls_to(po, 'CopyFile', depth=1)

    def a_(e, i):
        return e.arg(i)
    # consumers link against `link` and load `soname` at run time: the
    # soname symlink is only ever built if the link depends on it
    made_soname = any(has(a_(e, 1), 'output', 'soname') and
                      not has(a_(e, 2), 'output', 'soname') for e in cps)
    link_from_soname = any(has(a_(e, 1), 'output', 'link') and
                           has(a_(e, 2), 'output', 'soname') for e in cps)
    ctx.ob(R, 'post_output|link->soname->library', made_soname and
           link_from_soname, po.node,
           'the development symlink does not point at the soname symlink: '
           'nothing depends on lib<name>.so.<N>, it is never built, and '
           'programs linked against the library fail to load it')


def check(ctx):
    ctx.not_decided += [
        'that each executable/shared library links with the real toolchain '
        'and runs from the (moved) build directory',
        'usability of the link order for arbitrary DAGs of static/shared/'
        'dual/whole-archive libraries']
    forward_fields(ctx)
    rpath_origin(ctx)
    soname_chain(ctx)
    link_words(ctx)
    from . import c12
    c12.relpath_impl(ctx)
    from ..rules import pathops
    pathops.check(ctx)
