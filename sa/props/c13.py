"""C13 -- Build files are a deterministic function of project and
configuration.

Decided: UNORDERED-ITER (whole package), NONDET-API, CLI-ABSPATH.
Not decided: byte equality of outputs; os.listdir order (file-system state).
"""
import ast

from ..consteval import const_eval
from ..index import unparse
from .. import query as Q
from ..rules import unordered

NONDET_MODULE_PREFIXES = (
    'bfg9000.backends', 'bfg9000.builtins', 'bfg9000.tools', 'bfg9000.shell',
    'bfg9000.build', 'bfg9000.build_inputs', 'bfg9000.safe_str',
    'bfg9000.path', 'bfg9000.platforms', 'bfg9000.iterutils',
    'bfg9000.file_types', 'bfg9000.options', 'bfg9000.packages',
    'bfg9000.languages', 'bfg9000.environment', 'bfg9000.objutils',
    'bfg9000.versioning', 'bfg9000.glob')
NONDET_CALLS = {
    'time.time', 'time.time_ns', 'time.monotonic', 'time.perf_counter',
    'time.localtime', 'time.gmtime', 'time.strftime', 'time.ctime',
    'datetime.now', 'datetime.datetime.now', 'datetime.utcnow',
    'datetime.date.today', 'date.today',
    'random.random', 'random.randint', 'random.choice', 'random.shuffle',
    'random.sample', 'random.randrange', 'random.uniform',
    'uuid.uuid1', 'uuid.uuid4', 'uuid1', 'uuid4', 'os.getpid', 'os.getppid',
    'os.urandom', 'os.times', 'id', 'hash',
    'tempfile.mkstemp', 'tempfile.mkdtemp', 'tempfile.NamedTemporaryFile',
    'tempfile.TemporaryDirectory', 'tempfile.mktemp', 'mkstemp', 'mkdtemp',
    'socket.gethostname', 'getpass.getuser', 'os.getlogin', 'threading.get_ident',
    'secrets.token_hex',
}
NONDET_ALLOW = {
    'bfg9000.backends.msbuild.solution:UuidMap.__getitem__|uuid.uuid4':
        'new project GUIDs are persisted in .bfg_uuid by design (C20)',
}


def nondet_api(ctx):
    R = 'NONDET-API'
    ctx.rule(R, 'no call to a time/random/uuid/pid/id()/hash()/tempfile API '
             'in the modules that produce build-file content (hash() is '
             'allowed inside __hash__)')
    repo = ctx.repo
    n = 0
    for m in repo.modules.values():
        if not m.name.startswith(NONDET_MODULE_PREFIXES):
            continue
        for c in ast.walk(m.tree):
            if not isinstance(c, ast.Call):
                continue
            n += 1
            t = unparse(c.func)
            if t not in NONDET_CALLS:
                continue
            fn = repo.enclosing_func(c)
            if t == 'hash' and fn is not None and fn.node.name == '__hash__':
                continue
            if t in ('id', 'hash') and fn is not None and fn.node.name in (
                    '__repr__',):
                continue
            key = '{}|{}'.format(fn.fq if fn else m.name, t)
            if key in NONDET_ALLOW:
                ctx.ob(R, key, True, c, 'allow-listed: ' + NONDET_ALLOW[key])
                continue
            # resolve shadowing: a local/def named `id`/`hash`
            if t in ('id', 'hash') and (t in m.defs or (
                    fn is not None and t in Q.params(fn.node))):
                continue
            ctx.ob(R, key, False, c,
                   'non-deterministic API {} used in a module that produces '
                   'build-file content'.format(t))
    ctx.stat('nondet_calls_scanned', n)
    ctx.ob(R, 'scan|{} modules'.format(len([
        m for m in repo.modules if m.startswith(NONDET_MODULE_PREFIXES)])),
        True, None, 'scanned')


def cli_abspath(ctx):
    R = 'CLI-ABSPATH'
    ctx.rule(R, 'every directory/file argument of the command line is '
             'converted by argparse.Directory/File (absolute-ising types), '
             'and directory_pair resolves the cwd through path.abspath')
    repo = ctx.repo
    m = repo.module('bfg9000.driver')
    n = 0
    for c in ast.walk(m.tree):
        if not (isinstance(c, ast.Call) and Q.callee_attr(c) ==
                'add_argument'):
            continue
        metavar = Q.kwarg(c, 'metavar')
        mv = const_eval(repo, m, metavar) if metavar is not None else None
        first = const_eval(repo, m, c.args[0]) if c.args else None
        pathy = mv in ('DIRECTORY', 'SRCDIR', 'BUILDDIR', 'FILE', 'PATH') or \
            first in ('srcdir', 'builddir')
        if not pathy:
            continue
        if mv == 'FILE' and first in ('-p',):
            # mopack package files are handed to mopack verbatim
            continue
        n += 1
        ty = Q.kwarg(c, 'type')
        ok = ty is not None and unparse(ty).startswith(
            ('argparse.Directory(', 'argparse.File('))
        ctx.ob(R, 'driver|add_argument|{}|{}'.format(first, mv), ok, c,
               'path argument {} is not converted by argparse.Directory/'
               'File'.format(first))
    ctx.ob(R, 'path-arguments|found', n >= 6, None,
           'only {} path arguments found'.format(n))
    # Directory/File types absolute-ise
    p = repo.module('bfg9000.arguments.parser')
    from ..facts import Facts, has, has_call, has_const, param_of
    F = getattr(ctx, '_facts', None)
    if F is None:
        F = ctx._facts = Facts(repo)
    base = F.fn('bfg9000.arguments.parser:BaseFile.__call__')
    r = F.returns(base)
    ok = has_call(r, '_abspath') and param_of(r, Q.params(base.node)[1])
    ctx.ob(R, 'parser.BaseFile.__call__|returns-abspath', ok, base.node,
           'path arguments are not returned in absolute form')
    for cls in ('Directory', 'File'):
        a = F.fn('bfg9000.arguments.parser:{}._abspath'.format(cls))
        ok = has_call(F.returns(a), 'abspath') and param_of(
            F.returns(a), Q.params(a.node)[0])
        ctx.ob(R, 'parser.{}._abspath|abspath'.format(cls), ok, a.node,
               '{} does not make the path absolute'.format(cls))
    f = F.fn('bfg9000.driver:directory_pair')
    ok = False
    nodes = [f.node]
    # helpers of the same module called from the (nested) action class
    for n in ast.walk(f.node):
        if isinstance(n, ast.Call):
            g = repo.enclosing_func(n) or f
            callee = F.flow.resolve_call(n, g)
            if callee is not None and callee.module is f.module:
                nodes.append(callee.node)
    # the action class may inherit its __call__ from a base class of the
    # same module
    for n in ast.walk(f.node):
        if isinstance(n, ast.ClassDef):
            for b in n.bases:
                try:
                    r = repo.resolve_expr(f.module, b, None)
                except Exception:
                    r = None
                if r is not None and r[0] == 'class' and \
                        r[1].module is f.module:
                    nodes += [m for m in r[1].methods.values()]
    # ... or be created with type(name, (Base,), {...})
    for n in ast.walk(f.node):
        if isinstance(n, ast.Call) and isinstance(n.func, ast.Name) and \
                n.func.id == 'type' and len(n.args) == 3:
            for b in ast.walk(n.args[1]):
                if isinstance(b, (ast.Name, ast.Attribute)):
                    try:
                        r = repo.resolve_expr(f.module, b, None)
                    except Exception:
                        r = None
                    if r is not None and r[0] == 'class' and \
                            r[1].module is f.module:
                        nodes += [m for m in r[1].methods.values()]
    for nd in nodes:
        for n in ast.walk(nd):
            if isinstance(n, ast.Call) and Q.callee_attr(n) == 'abspath' \
                    and n.args:
                g = repo.enclosing_func(n) or f
                a = F.atoms(n.args[0], g)
                if has_const(a, '.') or has(a, 'curdir'):
                    ok = True
    ctx.ob(R, 'directory_pair|cwd-abspath', ok, f.node,
           'directory_pair does not resolve the cwd with path.abspath')


def check(ctx):
    ctx.not_decided += [
        'byte equality of the generated files',
        'os.listdir order (file-system state): find_files results follow '
        'directory order']
    unordered.check(ctx)
    nondet_api(ctx)
    cli_abspath(ctx)
    from . import c09
    c09.ambient(ctx)
