"""C10 -- Interrupted or failed regeneration never leaves silently stale build
files.

Decided: WRITE-ORDER (what is written before the build file and what must
precede it) and EXIT-STATUS (every failure path of the driver commands returns
a non-zero status; the only silent abort touches the outputs first).
Not decided: crash points inside a single json.dump/write (torn files) and
the behaviour of the follow-up attempts.
"""
import ast

from ..callgraph import CallGraph
from ..cfg import EXIT, build as build_cfg
from ..facts import Facts, direct, has, has_call, has_const, param_of
from ..index import AnalysisError, unparse, walk_no_nested
from .. import query as Q
from ..rules import graph as G

D = 'bfg9000.driver:'
FIND = 'bfg9000.builtins.find:'


def _write_effects(repo, cg, fi, depth=5):
    """Functions reachable from fi that contain a persistent write
    (open(..., 'w'|'a'|'x'), os.remove). Returns list of (fq, kind, path)."""
    out = []
    reach = cg.reachable([fi], depth)
    for fq, (d, path) in reach.items():
        f = repo.functions[fq]
        for c in Q.calls(f.node, nested=False):
            t = unparse(c.func)
            if t == 'open' and len(c.args) >= 2 and isinstance(
                    c.args[1], ast.Constant) and any(
                        x in str(c.args[1].value) for x in 'wax'):
                out.append((fq, 'open-w', path))
            elif t in ('os.remove', 'os.unlink', 'os.rename', 'os.replace'):
                out.append((fq, t, path))
    return out


def _facts(ctx):
    f = getattr(ctx, '_facts', None)
    if f is None:
        f = ctx._facts = Facts(ctx.repo)
    return f


def _truncating_opens(F, fn, depth=2):
    out = []
    for e in F.effects(fn, lambda e: e.name == 'open' and isinstance(
            e.call.func, ast.Name), depth=depth):
        mode = e.call.args[1] if len(e.call.args) > 1 else Q.kwarg(
            e.call, 'mode')
        if isinstance(mode, ast.Constant) and isinstance(
                mode.value, str) and 'w' in mode.value:
            out.append(e)
    return out


def write_order(ctx):
    R = 'WRITE-ORDER'
    ctx.rule(R, '(a) in configure/regenerate the build-file writers run '
             'only after configure_build returned and consume its result, '
             'and the environment is saved before the script runs; (b) in '
             'each backend write() all hooks and rule handlers run, and the '
             'whole file is rendered, before the build file is opened for '
             'writing, and nothing but the copy of the rendered text runs '
             'while it is open; (c) no file that the lazy-skip decision '
             'reads (the find cache) is written before the build file in '
             'the same run')
    repo = ctx.repo
    F = _facts(ctx)
    cg = CallGraph(repo)
    # (a)
    for fn in ('configure', 'regenerate'):
        f = F.fn(D + fn)
        cb = [e for e in F.calls_to(f, 'configure_build', depth=1)
              if e.fn.module is f.module]
        wr = [e for e in F.effects(f, lambda e: e.name == 'write' and
                                   e.fn.module is f.module, depth=1)
              if has_call(e.all_args(), 'configure_build')]
        ctx.ob(R, fn + '|writers-use-configure_build-result',
               len(cb) >= 1 and len(wr) >= 2, f.node,
               'the build file / compile_commands writers do not consume '
               'the result of configure_build')
        for w in wr:
            nm = sorted(w.heads())[0].split('.')[0] if w.heads() else '?'
            ctx.ob(R, '{}|configure_build-dominates|{}'.format(
                fn, 'compdb' if 'compdb' in nm else 'backend'),
                any(F.always_before(c, w) for c in cb), w.call,
                'a build file can be written although the build script did '
                'not finish')
        sv = [e for e in F.calls_to(f, 'save', depth=1)
              if e.fn.module is f.module and
              not has_call(e.recv(), 'FindCacheFile')]
        ok = bool(sv) and bool(cb) and all(
            any(F.always_before(s_, c) for s_ in sv) for c in cb)
        ctx.ob(R, fn + '|env-saved-before-script', ok, f.node,
               'the environment file is not saved before the script runs')
    # (b) + (c)
    reg = G.Registry(repo)
    for b in ('make', 'ninja'):
        w = F.fn(G.BACKEND_WRITERS[b] + ':write')
        opens = _truncating_opens(F, w)
        ok = len(opens) == 1 and has(opens[0].arg(0), 'filepath')
        ctx.ob(R, b + '.write|opens-build-file-for-write', ok, w.node,
               'the build file is not opened (once) for writing')
        if not opens:
            continue
        op = opens[0]
        for callee in ('pre_rules_hook', 'rule_handler', 'post_rules_hook'):
            cs = [e for e in F.effects(w, lambda e: e.name == 'run',
                                       depth=2)
                  if any(h.endswith(callee + '.run') for h in e.heads())]
            ok = len(cs) >= 1 and all(F.always_before(e, op) for e in cs)
            ctx.ob(R, '{}.write|{}.run-before-open'.format(b, callee), ok,
                   w.node, '{} runs after the build file was truncated '
                   '(or not at all): an exception in rule emission destroys '
                   'the previous build file'.format(callee))
        # (d) the file is rendered completely before it is opened
        cls = {'make': 'Makefile', 'ninja': 'NinjaFile'}[b]
        renders = [e for e in F.effects(w, lambda e: e.name == 'write',
                                        depth=2)
                   if has_call(e.recv(), cls)]
        ok = len(renders) >= 1 and all(F.always_before(e, op)
                                       for e in renders)
        ctx.ob(R, b + '.write|build-file-rendered-before-open', ok, w.node,
               'the build file content is not produced (by <buildfile>.'
               'write) before the real file is truncated')
        risky = [e for e in F.effects(w, lambda e: True, depth=2)
                 if has_call(e.withs(), 'open') and has(e.withs(),
                                                        'filepath')
                 and not (e.name in ('write', 'getvalue', 'close', 'flush',
                                     'writelines') and
                          (has_call(e.recv(), 'open') or
                           has_call(e.recv(), 'StringIO')))]
        ctx.ob(R, b + '.write|nothing-can-raise-while-file-is-truncated',
               not risky, w.node,
               'calls run while the build file is open for writing (already '
               'truncated): {}; an emission error there leaves a truncated '
               'build file'.format([unparse(e.call)[:40] for e in risky]))
    # (c) ordered persistent writes before the build file
        hooks = [(h, 'pre') for h in reg.hooks[b]['pre']] + \
            [(h, 'post') for h in reg.hooks[b]['post']] + \
            [(h, 'handler') for h in sorted(
                set(reg.handlers[b].values()), key=lambda f: f.fq)]
        ctx.stat(b + '_hooks', [h.fq for h in reg.hooks[b]['pre'] +
                                reg.hooks[b]['post']])
        cache_load = repo.method(FIND + 'FindCacheFile', 'load')
        cache_save = repo.method(FIND + 'FindCacheFile', 'save')
        n_eff = 0
        for h, phase in hooks:
            for fq, kind, path in _write_effects(repo, cg, h):
                n_eff += 1
                is_cache = fq == cache_save.fq
                # post-rules hooks run after all rule handlers (an exception
                # in rule emission has already aborted the run by then);
                # pre-rules hooks and handlers run before/while rules are
                # emitted, which is strictly worse for a file the skip
                # decision trusts -- hence the phase is part of the key
                key = '{}|before-build-file|{}|{}'.format(b, h.fq, fq) if \
                    phase == 'post' else \
                    '{}|before-rule-emission({})|{}|{}'.format(
                        b, phase, h.fq, fq)
                if is_cache:
                    ctx.ob(R, key, False, h.node,
                           '{} saves the find cache (read by the lazy-skip '
                           'decision find_check_cache) before {} is written: '
                           'a crash in between makes the next lazy '
                           'regeneration skip and report success while the '
                           'build file is stale'.format(h.qualname,
                                                        'the build file'))
                else:
                    # auxiliary file written before the build file: fine as
                    # long as the skip decision does not read it
                    reads = _read_by(repo, cg, fq)
                    ctx.ob(R, key, not reads, h.node,
                           'file written by {} before the build file is read '
                           'by the lazy-skip decision'.format(fq))
        ctx.stat(b + '_writes_before_build_file', n_eff)
    # the skip decision reads only the cache file (and mtimes)
    fcc = F.fn(FIND + 'find_check_cache')
    ok = any(has(e.heads(), 'FindCacheFile', 'load')
             for e in F.calls_to(fcc, 'load', depth=2))
    ctx.ob(R, 'find_check_cache|reads-cache', ok, fcc.node,
           'anchor: the lazy-skip decision no longer reads FindCacheFile')


def _inside(stmt, container):
    n = stmt
    while n is not None:
        if n is container:
            return True
        n = getattr(n, '_parent', None)
    return False


def _read_by(repo, cg, writer_fq):
    """Is the file written by `writer_fq` read by find_check_cache? Only the
    find cache is (FindCacheFile.save <-> FindCacheFile.load)."""
    return writer_fq == FIND + 'FindCacheFile.save'


def _nonzero(F, expr, fn, _depth=0):
    """`expr` (evaluated in fn) can never be 0/None/False: a truthy
    constant, a repository call all of whose returns are non-zero (and
    which cannot fall off its end), a conditional of those, a local bound
    only to those, or the `.code` of a ScriptExitError (constructed only
    with a truthy code -- checked separately) under an isinstance guard."""
    if _depth > 4 or expr is None:
        return False
    if isinstance(expr, ast.Constant):
        return bool(expr.value)
    if isinstance(expr, ast.IfExp):
        return _nonzero(F, expr.body, fn, _depth) and _nonzero(
            F, expr.orelse, fn, _depth)
    if isinstance(expr, ast.BoolOp) and isinstance(expr.op, ast.Or):
        return _nonzero(F, expr.values[-1], fn, _depth)
    if isinstance(expr, ast.Name):
        ds = F.flow.defs(fn.node).get(expr.id)
        if ds and all(k == 'value' for k, e, i in ds) and \
                expr.id not in Q.params(fn.node):
            return all(_nonzero(F, e, fn, _depth + 1) for k, e, i in ds)
        return False
    if isinstance(expr, ast.Attribute) and expr.attr == 'code':
        tests = [(t, f_, b_) for t, pos, f_, b_ in F.guard_leaves(expr, fn)
                 if pos]
        return any(has_call(F.atoms(t, f_, b_), 'isinstance') and has(
            F.atoms(t, f_, b_), 'ScriptExitError') for t, f_, b_ in tests)
    if isinstance(expr, ast.Call):
        callee = F.flow.resolve_call(expr, fn)
        if callee is None:
            return False
        g = F.cfg(callee)
        rets = Q.returns(callee.node)
        falls = g.reaches('ENTRY', EXIT, avoiding=set(rets))
        return bool(rets) and not falls and all(
            _nonzero(F, r.value, callee, _depth + 1) for r in rets)
    return False


def exit_status(ctx):
    R = 'EXIT-STATUS'
    ctx.rule(R, 'every except clause of configure/regenerate/env/run either '
             'is the AbortConfigure pass or returns a status that cannot be '
             '0/None; ScriptExitError is only constructed with a truthy '
             'code; AbortConfigure is raised only by find_check_cache, '
             'after the outputs were touched and only when a lazy check '
             'found nothing changed')
    repo = ctx.repo
    F = _facts(ctx)
    n = 0
    for fn in ('configure', 'regenerate', 'env', 'run'):
        f = F.fn(D + fn)
        tries = [t for t in walk_no_nested(f.node) if isinstance(t, ast.Try)]
        Q.require(tries, fn + ': no try block')
        catches_all = False
        for t in tries:
            for h in t.handlers:
                n += 1
                ty = unparse(h.type) if h.type is not None else '<bare>'
                key = '{}|except {}'.format(fn, ty)
                if ty.split('.')[-1] == 'AbortConfigure':
                    ok = not any(isinstance(s, (ast.Return, ast.Raise))
                                 for s in ast.walk(h)) or all(
                        isinstance(s, ast.Pass) for s in h.body)
                    ctx.ob(R, key, ok, h, 'AbortConfigure handler does '
                           'more than pass')
                    continue
                if ty in ('Exception', 'BaseException', '<bare>'):
                    catches_all = True
                g = build_cfg(_as_func(h))
                rets = [s for s in ast.walk(h) if isinstance(s, ast.Return)]
                falls = g.reaches('ENTRY', EXIT, avoiding=set(rets))
                ok = bool(rets) and not falls and all(
                    _nonzero(F, r.value, f) for r in rets)
                ctx.ob(R, key, ok, h,
                       'a failure handled by `except {}` in {} can end with '
                       'exit status 0/None (success)'.format(ty, fn))
        ctx.ob(R, fn + '|catches-Exception', catches_all, f.node,
               'unexpected exceptions are not converted to a status')
    ctx.ob(R, 'driver-commands|handlers-found', n >= 6, None,
           'only {} except clauses found in the driver commands'.format(n))
    # ScriptExitError constructions
    cons = []
    for m, c in Q.all_calls(repo):
        if Q.attr_name(c.func) == 'ScriptExitError':
            cons.append((m, c))
    Q.require(cons, 'ScriptExitError is never constructed')
    for m, c in cons:
        fn = repo.enclosing_func(c)
        code = Q.arg(c, 1, 'code')
        ok = fn is not None and code is not None
        if ok:
            ca = direct(F.atoms(code, fn))
            ok = has(ca, 'code') and any(
                pos and direct(F.atoms(t, f_, b_)) & ca
                for t, pos, f_, b_ in F.guard_leaves(c, fn))
        ctx.ob(R, 'ScriptExitError|truthy-code|({})'.format(
            fn.qualname if fn else m.name), ok, c,
            'ScriptExitError may carry a zero/None code: a failing script '
            'would be reported as success')
    see = F.fn('bfg9000.build:ScriptExitError.__init__')
    v = F.stored(see, 'code')
    ctx.ob(R, 'ScriptExitError|stores-code', v is not None and param_of(
        v, 'code'), see.node, 'the exit code is not kept')
    ex = F.fn('bfg9000.build:_execute_script')
    hs = [h for g_ in F.reach(ex, 1) if g_.module is ex.module
          for h in ast.walk(g_.node) if isinstance(h, ast.ExceptHandler)]
    ok = bool(hs) and all(h.type is not None and unparse(h.type) ==
                          'SystemExit' for h in hs)
    ctx.ob(R, '_execute_script|only-SystemExit-caught', ok, ex.node,
           'script exceptions other than SystemExit are swallowed')
    # AbortConfigure raise sites
    raises = []
    for m in repo.modules.values():
        for n_ in ast.walk(m.tree):
            if isinstance(n_, ast.Raise) and n_.exc is not None and \
                    'AbortConfigure' in unparse(n_.exc):
                raises.append((m, n_))
    fcc = F.fn(FIND + 'find_check_cache')
    ok = bool(raises) and all(F.only_called_from(
        repo.enclosing_func(r), {fcc.fq}) for m, r in raises)
    ctx.ob(R, 'AbortConfigure|single-raise-site', ok,
           raises[0][1] if raises else None,
           'AbortConfigure (silent success) is raised outside '
           'find_check_cache')
    ab = F.effects(fcc, lambda e: e.name == 'AbortConfigure', depth=2)
    touches = [e for e in F.effects(fcc, lambda e: e.name == 'touch',
                                    depth=2)
               if has(e.arg(0), 'outputs')]
    ok = bool(ab) and bool(touches) and all(
        any(F.always_before(t, a) for t in touches) for a in ab)
    ctx.ob(R, 'find_check_cache|touch-dominates-abort', ok, fcc.node,
           'configuration is aborted silently without touching every '
           'declared output first')
    rs = [n_ for n_ in walk_no_nested(fcc.node) if isinstance(n_, ast.Raise)]
    ctl = set()
    for n_ in rs:
        ctl |= F.control(n_, fcc)
    from ..rules.regen import _allocs
    adds = [e for e in F.calls_to(fcc, 'add', depth=1)
            if has(e.recv(), "['find_cache']")]
    a1 = a2 = set()
    for e in adds:
        a1 = _allocs(e.arg(1, kw='found')) - _allocs(e.arg(2, kw='extra'))
        a2 = _allocs(e.arg(2, kw='extra')) - _allocs(e.arg(1, kw='found'))
    ok = bool(rs) and bool(a1 & ctl) and bool(a2 & ctl) and has_call(
        ctl, 'load')
    ctx.ob(R, 'find_check_cache|compares-found-and-extra', ok, fcc.node,
           'the skip decision does not compare both the found and the '
           'extra lists of every cached filter')
    ok = bool(rs) and all(any(
        op in ('Is', 'Eq') and (has(l, 'Regenerating', 'lazy') or
                                has(r, 'Regenerating', 'lazy'))
        for op, l, r in F.guard_compares(n_, fcc)) for n_ in rs)
    ctx.ob(R, 'find_check_cache|only-when-lazy', ok, fcc.node,
           'the skip path can be taken by a non-lazy configure/'
           'regenerate')

    def newer(op, l, r):
        a = has_call(l, 'max') and has(l, 'inputs') and has_call(
            r, 'min') and has(r, 'outputs')
        b = has_call(r, 'max') and has(r, 'inputs') and has_call(
            l, 'min') and has(l, 'outputs')
        # every recorded output takes part: a missing output (strict=False
        # makes it infinitely old) must not be filtered out of the minimum
        if has_call(l, 'if') or has_call(r, 'if'):
            return False
        return op == 'LtE' and a or op == 'GtE' and b
    ok = bool(rs) and all(any(newer(op, l, r) for op, l, r in
                              F.guard_compares(n_, fcc)) for n_ in rs)
    ctx.ob(R, 'find_check_cache|newer-inputs-force-regeneration', ok,
           fcc.node, 'an input newer than an output does not force a '
           'full regeneration')
    mn = F.fn(D + 'main')
    ok = has_call(F.returns(mn), 'func')
    ctx.ob(R, 'main|returns-command-status', ok, mn.node,
           'main() does not return the status of the command')


def _as_func(handler):
    """Wrap an except handler body as a pseudo function for the CFG."""
    fn = ast.FunctionDef(name='_h', args=ast.arguments(
        posonlyargs=[], args=[], kwonlyargs=[], kw_defaults=[], defaults=[]),
        body=handler.body, decorator_list=[], lineno=handler.lineno,
        col_offset=0)
    return fn


def check(ctx):
    ctx.not_decided += [
        'crash points inside a single write (torn/truncated files): the '
        'build file is written in place',
        'the behaviour of the one or two follow-up regeneration attempts '
        '(dynamic)']
    write_order(ctx)
    exit_status(ctx)
