"""C10 -- Interrupted or failed regeneration never leaves silently stale build
files.

Decided: WRITE-ORDER (what is written before the build file and what must
precede it) and EXIT-STATUS (every failure path of the driver commands returns
a non-zero status; the only silent abort touches the outputs first).
Not decided: crash points inside a single json.dump/write (torn files) and
the behaviour of the follow-up attempts.
"""
import ast

from ..callgraph import CallGraph
from ..cfg import EXIT, build as build_cfg
from ..index import AnalysisError, unparse, walk_no_nested
from .. import query as Q
from ..rules import graph as G

D = 'bfg9000.driver:'
FIND = 'bfg9000.builtins.find:'


def _write_effects(repo, cg, fi, depth=5):
    """Functions reachable from fi that contain a persistent write
    (open(..., 'w'|'a'|'x'), os.remove). Returns list of (fq, kind, path)."""
    out = []
    reach = cg.reachable([fi], depth)
    for fq, (d, path) in reach.items():
        f = repo.functions[fq]
        for c in Q.calls(f.node, nested=False):
            t = unparse(c.func)
            if t == 'open' and len(c.args) >= 2 and isinstance(
                    c.args[1], ast.Constant) and any(
                        x in str(c.args[1].value) for x in 'wax'):
                out.append((fq, 'open-w', path))
            elif t in ('os.remove', 'os.unlink', 'os.rename', 'os.replace'):
                out.append((fq, t, path))
    return out


def write_order(ctx):
    R = 'WRITE-ORDER'
    ctx.rule(R, '(a) in configure/regenerate the build-file writers are '
             'dominated by the return of configure_build; (b) in each '
             'backend write() all hooks and rule handlers run before the '
             'build file is opened for writing; (c) no file that the lazy-'
             'skip decision reads (the find cache) is written before the '
             'build file in the same run')
    repo = ctx.repo
    cg = CallGraph(repo)
    # (a)
    for fn in ('configure', 'regenerate'):
        f = repo.func(D + fn)
        g = build_cfg(f.node)
        cb = [g.stmt_of(c) for c in Q.calls(f.node, nested=False)
              if unparse(c.func) == 'build.configure_build']
        wr = [g.stmt_of(c) for c in Q.calls(f.node, nested=False)
              if unparse(c.func) in ('backend.write', 'compdb.write')]
        Q.require(len(cb) == 1 and len(wr) == 2,
                  fn + ': configure_build / write calls not found')
        for w in wr:
            ctx.ob(R, '{}|configure_build-dominates|{}'.format(
                fn, unparse(w)[:40]), g.dominates(cb[0], w), w,
                'a build file can be written although the build script did '
                'not finish')
        # the writers consume the result of configure_build
        bi = [unparse(v) for v in Q.local_assignments(f.node, 'build_inputs')
              if v is not None]
        ok = len(bi) == 1 and bi[0].startswith('build.configure_build(')
        ctx.ob(R, fn + '|writers-use-configure_build-result', ok, f.node,
               'build_inputs does not come from configure_build')
        # env.save before the script runs (so a failed script still leaves a
        # loadable environment for the next attempt)
        sv = [g.stmt_of(c) for c in Q.calls(f.node, nested=False)
              if unparse(c.func) == 'env.save']
        ok = len(sv) == 1 and g.dominates(sv[0], cb[0])
        ctx.ob(R, fn + '|env-saved-before-script', ok, f.node,
               'the environment file is not saved before the script runs')
    # (b) + (c)
    reg = G.Registry(repo)
    for b in ('make', 'ninja'):
        w = repo.func(G.BACKEND_WRITERS[b] + ':write')
        g = build_cfg(w.node)
        opens = [n for n in walk_no_nested(w.node) if isinstance(n, ast.With)
                 and any(isinstance(i.context_expr, ast.Call) and unparse(
                     i.context_expr.func) == 'open' and 'filepath' in unparse(
                         i.context_expr) for i in n.items)]
        Q.require(len(opens) == 1, b + '.write: open(filepath) not found')
        op = opens[0]
        mode = op.items[0].context_expr.args[1] if len(
            op.items[0].context_expr.args) > 1 else None
        ok = mode is not None and isinstance(mode, ast.Constant) and \
            mode.value == 'w'
        ctx.ob(R, b + '.write|opens-build-file-for-write', ok, op, '')
        for callee in ('pre_rules_hook.run', 'rule_handler.run',
                       'post_rules_hook.run'):
            cs = [g.stmt_of(c) for c in Q.calls(w.node, nested=False)
                  if unparse(c.func) == callee]
            ok = len(cs) == 1 and g.dominates(cs[0], op) and \
                cs[0] is not op and not _inside(cs[0], op)
            ctx.ob(R, '{}.write|{}-before-open'.format(b, callee), ok, w.node,
                   '{} runs after the build file was truncated: an '
                   'exception in rule emission destroys the previous build '
                   'file'.format(callee))
        # (d) the file is rendered completely before it is opened: nothing
        # that can raise for script-dependent reasons (escape_str rejects a
        # line break, unknown fragment types, ...) may run between the
        # truncation and the end of the write
        renders = [c for c in Q.calls(w.node, nested=False)
                   if unparse(c.func) == 'buildfile.write']
        ctx.ob(R, b + '.write|build-file-rendered', len(renders) == 1, w.node,
               'the build file content is not produced by buildfile.write')
        inside_calls = [c for st_ in op.body for c in ast.walk(st_)
                        if isinstance(c, ast.Call)]
        risky = []
        for c in inside_calls:
            t = unparse(c.func)
            if t.endswith('.getvalue') or (t.endswith('.write') and
                                           t != 'buildfile.write'):
                continue
            risky.append(c)
        reach_raise = []
        if risky:
            bf = {'make': 'bfg9000.backends.make.syntax:Makefile.write',
                  'ninja': 'bfg9000.backends.ninja.syntax:NinjaFile.write'}[b]
            if repo.has_func(bf):
                for fq, (d, path) in cg.reachable(
                        [repo.func(bf)], 6).items():
                    for n_ in ast.walk(repo.functions[fq].node):
                        if isinstance(n_, ast.Raise):
                            reach_raise.append((fq, n_))
        ctx.ob(R, b + '.write|nothing-can-raise-while-file-is-truncated',
               not risky, op,
               'calls run while the build file is open for writing (already '
               'truncated): {}; they reach {} raise statements (e.g. {}), so '
               'an emission error leaves a truncated build file'.format(
                   [unparse(c)[:40] for c in risky], len(reach_raise),
                   reach_raise[0][0] if reach_raise else '-'))
        # (c) ordered persistent writes before the build file
        hooks = [(h, 'pre') for h in reg.hooks[b]['pre']] + \
            [(h, 'post') for h in reg.hooks[b]['post']] + \
            [(h, 'handler') for h in sorted(
                set(reg.handlers[b].values()), key=lambda f: f.fq)]
        ctx.stat(b + '_hooks', [h.fq for h in reg.hooks[b]['pre'] +
                                reg.hooks[b]['post']])
        cache_load = repo.method(FIND + 'FindCacheFile', 'load')
        cache_save = repo.method(FIND + 'FindCacheFile', 'save')
        n_eff = 0
        for h, phase in hooks:
            for fq, kind, path in _write_effects(repo, cg, h):
                n_eff += 1
                is_cache = fq == cache_save.fq
                # post-rules hooks run after all rule handlers (an exception
                # in rule emission has already aborted the run by then);
                # pre-rules hooks and handlers run before/while rules are
                # emitted, which is strictly worse for a file the skip
                # decision trusts -- hence the phase is part of the key
                key = '{}|before-build-file|{}|{}'.format(b, h.fq, fq) if \
                    phase == 'post' else \
                    '{}|before-rule-emission({})|{}|{}'.format(
                        b, phase, h.fq, fq)
                if is_cache:
                    ctx.ob(R, key, False, h.node,
                           '{} saves the find cache (read by the lazy-skip '
                           'decision find_check_cache) before {} is written: '
                           'a crash in between makes the next lazy '
                           'regeneration skip and report success while the '
                           'build file is stale'.format(h.qualname,
                                                        'the build file'))
                else:
                    # auxiliary file written before the build file: fine as
                    # long as the skip decision does not read it
                    reads = _read_by(repo, cg, fq)
                    ctx.ob(R, key, not reads, h.node,
                           'file written by {} before the build file is read '
                           'by the lazy-skip decision'.format(fq))
        ctx.stat(b + '_writes_before_build_file', n_eff)
    # the skip decision reads only the cache file (and mtimes)
    fcc = repo.func(FIND + 'find_check_cache')
    ok = any(unparse(c.func) == 'FindCacheFile.load'
             for c in Q.calls(fcc.node))
    ctx.ob(R, 'find_check_cache|reads-cache', ok, fcc.node,
           'anchor: the lazy-skip decision no longer reads FindCacheFile')


def _inside(stmt, container):
    n = stmt
    while n is not None:
        if n is container:
            return True
        n = getattr(n, '_parent', None)
    return False


def _read_by(repo, cg, writer_fq):
    """Is the file written by `writer_fq` read by find_check_cache? Only the
    find cache is (FindCacheFile.save <-> FindCacheFile.load)."""
    return writer_fq == FIND + 'FindCacheFile.save'


def exit_status(ctx):
    R = 'EXIT-STATUS'
    ctx.rule(R, 'every except clause of configure/regenerate/env/run either '
             'is the AbortConfigure pass or returns a status that cannot be '
             '0/None; ScriptExitError is only constructed with a truthy '
             'code; AbortConfigure is raised at exactly one site, after the '
             'outputs were touched')
    repo = ctx.repo
    hre = repo.func(D + 'handle_reload_exception')

    def nonzero_return(fn_node, r):
        v = r.value
        if v is None:
            return False
        if isinstance(v, ast.Constant):
            return bool(v.value) and v.value is not True or v.value is True
        if isinstance(v, ast.IfExp):
            t = unparse(v.test)
            a, b = v.body, v.orelse
            if t in ('isinstance(e, build.ScriptExitError)',
                     'isinstance(e, ScriptExitError)') and \
                    unparse(a) == 'e.code':
                return isinstance(b, ast.Constant) and bool(b.value)
            return False
        if isinstance(v, ast.Call) and unparse(v.func) == \
                'handle_reload_exception':
            return all(nonzero_return(hre.node, rr)
                       for rr in Q.returns(hre.node)) and bool(
                           Q.returns(hre.node))
        return False

    n = 0
    for fn in ('configure', 'regenerate', 'env', 'run'):
        f = repo.func(D + fn)
        tries = [t for t in walk_no_nested(f.node) if isinstance(t, ast.Try)]
        Q.require(tries, fn + ': no try block')
        for t in tries:
            catches_all = False
            for h in t.handlers:
                n += 1
                ty = unparse(h.type) if h.type is not None else '<bare>'
                key = '{}|except {}'.format(fn, ty)
                if ty == 'AbortConfigure':
                    ok = all(isinstance(s, ast.Pass) for s in h.body)
                    ctx.ob(R, key, ok, h, 'AbortConfigure handler does '
                           'more than pass')
                    continue
                if ty in ('Exception', 'BaseException', '<bare>'):
                    catches_all = True
                # every path through the handler ends in a non-zero return
                g = build_cfg(_as_func(h))
                rets = [s for s in ast.walk(h) if isinstance(s, ast.Return)]
                falls = g.reaches('ENTRY', EXIT, avoiding=set(rets))
                ok = bool(rets) and not falls and all(
                    nonzero_return(f.node, r) for r in rets)
                ctx.ob(R, key, ok, h,
                       'a failure handled by `except {}` in {} can end with '
                       'exit status 0/None (success)'.format(ty, fn))
            ctx.ob(R, fn + '|catches-Exception', catches_all, t,
                   'unexpected exceptions are not converted to a status')
    ctx.require_min(R, n, 6, 'except clauses in driver commands')
    # ScriptExitError constructions
    cons = []
    for m, c in Q.all_calls(repo):
        if Q.attr_name(c.func) == 'ScriptExitError':
            cons.append((m, c))
    Q.require(cons, 'ScriptExitError is never constructed')
    for m, c in cons:
        p = c
        guarded = False
        while p is not None:
            if isinstance(p, ast.If) and unparse(p.test) in ('e.code',):
                guarded = True
            p = getattr(p, '_parent', None)
        ok = guarded and len(c.args) == 2 and unparse(c.args[1]) == 'e.code'
        ctx.ob(R, 'ScriptExitError|truthy-code|' + repo.site(c).split(
            ' ')[-1], ok, c, 'ScriptExitError may carry a zero/None code: '
            'a failing script would be reported as success')
    see = repo.cls('bfg9000.build:ScriptExitError')
    init = see.methods.get('__init__')
    ok = init is not None and any(unparse(n) == 'self.code = code'
                                  for n in ast.walk(init))
    ctx.ob(R, 'ScriptExitError|stores-code', ok, see.node, '')
    # SystemExit with a falsy code is success: only `if e.code` raises
    ex = repo.func('bfg9000.build:_execute_script')
    hs = [h for h in ast.walk(ex.node) if isinstance(h, ast.ExceptHandler)]
    ok = len(hs) == 1 and unparse(hs[0].type) == 'SystemExit'
    ctx.ob(R, '_execute_script|only-SystemExit-caught', ok, ex.node,
           'script exceptions other than SystemExit are swallowed')
    # AbortConfigure raise sites
    raises = []
    for m in repo.modules.values():
        for n in ast.walk(m.tree):
            if isinstance(n, ast.Raise) and n.exc is not None and \
                    'AbortConfigure' in unparse(n.exc):
                raises.append((m, n))
    ctx.ob(R, 'AbortConfigure|single-raise-site', len(raises) == 1 and
           repo.enclosing_func(raises[0][1]).fq == FIND + 'find_check_cache',
           raises[0][1] if raises else None,
           'AbortConfigure (silent success) is raised at {} sites'.format(
               len(raises)))
    if raises:
        f = repo.enclosing_func(raises[0][1])
        g = build_cfg(f.node)
        loops = [n for n in walk_no_nested(f.node) if isinstance(n, ast.For)
                 and unparse(n.iter) == 'regen_files.outputs' and any(
                     Q.callee_attr(c) == 'touch' for c in Q.calls(n))]
        ok = len(loops) == 1 and g.dominates(loops[0], raises[0][1])
        ctx.ob(R, 'find_check_cache|touch-dominates-abort', ok,
               raises[0][1], 'configuration is aborted silently without '
               'touching every declared output first')
        # the abort is only reached when nothing changed
        par = raises[0][1]._parent
        ok = isinstance(par, ast.If) and unparse(par.test) == \
            'not regenerate'
        ctx.ob(R, 'find_check_cache|abort-only-if-unchanged', ok,
               raises[0][1], 'abort is not guarded by `not regenerate`')
        upd = [n for n in ast.walk(f.node) if isinstance(n, ast.Assign) and
               unparse(n.targets[0]) == 'regenerate' and
               'results[0] != found' in unparse(n.value) and
               'results[1] != extra' in unparse(n.value) and
               'regenerate or' in unparse(n.value)]
        ctx.ob(R, 'find_check_cache|compares-found-and-extra', len(upd) == 1,
               f.node, 'the skip decision does not compare both the found '
               'and the extra lists of every cached filter')
        lazy = f.node.body[0]
        ok = isinstance(lazy, ast.If) and unparse(lazy.test) == \
            'context.regenerating is not Regenerating.lazy' and isinstance(
                lazy.body[0], ast.Return)
        ctx.ob(R, 'find_check_cache|only-when-lazy', ok, f.node,
               'the skip path can be taken by a non-lazy configure/'
               'regenerate')
        mt = [n for n in walk_no_nested(f.node) if isinstance(n, ast.If) and
              'regen_files.inputs' in unparse(n.test) and
              'regen_files.outputs' in unparse(n.test)]
        ok = len(mt) == 1 and 'max(' in unparse(mt[0].test) and 'min(' in \
            unparse(mt[0].test) and isinstance(mt[0].body[0], ast.Return) \
            and mt[0].lineno < raises[0][1].lineno
        ctx.ob(R, 'find_check_cache|newer-inputs-force-regeneration', ok,
               f.node, 'an input newer than an output does not force a '
               'full regeneration')
    # main returns the command status
    mn = repo.func(D + 'main')
    rets = Q.returns(mn.node)
    ok = len(rets) == 1 and unparse(rets[0].value).startswith('args.func(')
    ctx.ob(R, 'main|returns-command-status', ok, mn.node,
           'main() does not return the status of the command')


def _as_func(handler):
    """Wrap an except handler body as a pseudo function for the CFG."""
    fn = ast.FunctionDef(name='_h', args=ast.arguments(
        posonlyargs=[], args=[], kwonlyargs=[], kw_defaults=[], defaults=[]),
        body=handler.body, decorator_list=[], lineno=handler.lineno,
        col_offset=0)
    return fn


def check(ctx):
    ctx.not_decided += [
        'crash points inside a single write (torn/truncated files): the '
        'build file is written in place',
        'the behaviour of the one or two follow-up regeneration attempts '
        '(dynamic)']
    write_order(ctx)
    exit_status(ctx)
