"""C02 -- Ninja backend: every argument reaches the spawned process unchanged.

Decided: ESC-NINJA, SYNTAX-POSITION, WRITE-FLOW (ninja Writer), LIT-SITES,
LITERAL-ORIGIN, SH-SAFE, CMD-INDIRECTION. Not decided: the round trip of sh
un-quoting o ninja $-evaluation o quote over all strings; Windows `cmd /s /c`
wrapping (folded away by the posix assumption).
"""
import ast

from ..consteval import const_eval
from ..index import unparse
from .. import query as Q
from ..rules import escape as E

NINJA_FUNCS = [
    E.NINJA_SYN + ':NinjaFile._write_variable',
    E.NINJA_SYN + ':NinjaFile._write_rule',
    E.NINJA_SYN + ':NinjaFile._write_build',
    E.NINJA_SYN + ':NinjaFile.write',
]


def ninja_sites(ctx):
    repo = ctx.repo
    table, members = E.escape_table(repo, E.NINJA_SYN)
    sites = E.emission_sites(ctx, NINJA_FUNCS, E.NINJA_SYN, members,
                             E.classify_ninja)
    ctx.require_min('ESC-NINJA', len(sites), 6, 'ninja emission sites')
    ctx.stat('ninja_emission_sites', len(sites))
    ctx.stat('ninja_escape_table', {
        m: ([repr(o) for o in ops] if ops is not None else 'rejected')
        for m, ops in table.items()})
    return table, members, sites


def cmd_indirection(ctx):
    R = 'CMD-INDIRECTION'
    ctx.rule(R, 'command_build defines the generic rules with command = the '
             'variable reference `cmd` only and passes the real command as '
             'the build-scoped variable `cmd`, so it is $-evaluated exactly '
             'once')
    repo = ctx.repo
    f = repo.func('bfg9000.backends.ninja.writer:command_build')
    rules = [c for c in Q.calls(f.node) if unparse(c.func) ==
             'buildfile.rule']
    Q.require(rules, 'command_build: no buildfile.rule call')
    for c in rules:
        cmd = Q.kwarg(c, 'command')
        ok = cmd is not None and unparse(cmd) in (
            "shell.shell_list([var('cmd')])", "[var('cmd')]")
        ctx.ob(R, f.fq + '|rule-command-is-$cmd', ok, c,
               'generic rule command is {} instead of the variable '
               'reference cmd'.format(unparse(cmd) if cmd else None))
    builds = [c for c in Q.calls(f.node) if unparse(c.func) ==
              'buildfile.build']
    Q.require(builds, 'command_build: no buildfile.build call')
    for c in builds:
        v = Q.kwarg(c, 'variables')
        if v is None:
            continue
        vals = [x for x in Q.local_assignments(f.node, unparse(v))
                if x is not None]
        ok = any(isinstance(x, ast.Dict) and any(
            const_eval(repo, f.module, k) == 'cmd' and unparse(val) ==
            'command' for k, val in zip(x.keys, x.values)) for x in vals)
        ctx.ob(R, f.fq + '|command-passed-as-build-variable', ok, c,
               'the command is not passed as build-scoped variable `cmd`')
    # build-scoped variables are written with Syntax.shell (description:
    # clean) -> covered by ESC-NINJA sites of _write_build


def check(ctx):
    ctx.rule('ESC-NINJA', 'for every site where NinjaFile/Writer emits '
             'script-derived text, every Syntax member that reaches the site '
             'escapes every Ninja metacharacter of that lexical context')
    ctx.rule('SYNTAX-POSITION', 'paths on build lines are written with '
             'Syntax.output/input, variable values with Syntax.shell/clean')
    ctx.not_decided += [
        'that sh un-quoting o ninja $-evaluation o quote is the identity for '
        'every string', 'Windows cmd /s /c wrapping (posix assumption)']
    table, members, sites = ninja_sites(ctx)
    E.esc_rule(ctx, 'ESC-NINJA', sites, table,
               only_contexts={'NJ_VARVALUE'})
    E.position_rule(ctx, 'SYNTAX-POSITION',
                    [s for s in sites if 'NJ_VARVALUE' in s[2]])
    E.write_flow(ctx, E.NINJA_SYN, {'shell'})
    E.lit_sites(ctx, [E.NINJA_SYN, 'bfg9000.backends.ninja.writer'],
                minimum=12)
    E.literal_origin(ctx)
    E.sh_safe(ctx, include_make_recipe=False)
    cmd_indirection(ctx)
    from ..rules import graph as G
    ctx.rule('ENV-EXPORT', 'command steps export their environment for every command of the step')
    G.env_export(ctx, 'ENV-EXPORT', backends=('ninja',))
