"""C02 -- Ninja backend: every argument reaches the spawned process unchanged.

Decided: ESC-NINJA, SYNTAX-POSITION, WRITE-FLOW (ninja Writer), LIT-SITES,
LITERAL-ORIGIN, SH-SAFE, CMD-INDIRECTION. Not decided: the round trip of sh
un-quoting o ninja $-evaluation o quote over all strings; Windows `cmd /s /c`
wrapping (folded away by the posix assumption).
"""
import ast

from ..consteval import const_eval
from ..index import unparse
from .. import query as Q
from ..rules import escape as E
from ..rules import escape2 as E2

NINJA_FUNCS = [
    E.NINJA_SYN + ':NinjaFile._write_variable',
    E.NINJA_SYN + ':NinjaFile._write_rule',
    E.NINJA_SYN + ':NinjaFile._write_build',
    E.NINJA_SYN + ':NinjaFile.write',
]


def ninja_sites(ctx):
    repo = ctx.repo
    table, members = E.escape_table(repo, E.NINJA_SYN)
    sites = E2.writer_sites(ctx, [E.NINJA_SYN + ':NinjaFile.write'],
                            E.NINJA_SYN)
    ctx.ob('ESC-NINJA', 'ninja-writer-sites|found', len(sites) >= 6, None,
           'only {} ninja writer sites found'.format(len(sites)))
    ctx.stat('ninja_emission_sites', len(sites))
    ctx.stat('ninja_escape_table', {
        m: ([repr(o) for o in ops] if ops is not None else 'rejected')
        for m, ops in table.items()})
    return table, members, sites


def cmd_indirection(ctx):
    R = 'CMD-INDIRECTION'
    ctx.rule(R, 'command_build defines the generic rules with command = the '
             'variable reference `cmd` only and passes the real command as '
             'the build-scoped variable `cmd`, so it is $-evaluated exactly '
             'once')
    from ..facts import Facts, direct, has, has_call, has_const, param_of
    F = getattr(ctx, '_facts', None)
    if F is None:
        F = ctx._facts = Facts(ctx.repo)
    f = F.fn('bfg9000.backends.ninja.writer:command_build')
    rules = [e for e in F.effects(f, lambda e: e.name == 'rule', depth=1)
             if Q.kwarg(e.call, 'command') is not None]
    ok = bool(rules) and all(
        any("var('cmd')" in a for a in e.arg(kw='command')) and
        not param_of(e.arg(kw='command'), 'command') for e in rules)
    ctx.ob(R, f.fq + '|rule-command-is-$cmd', ok, f.node,
           'generic rule command is not the variable reference cmd (only)')
    builds = [e for e in F.effects(f, lambda e: e.name == 'build', depth=1)
              if e.kw_exprs('variables')]
    ok = bool(builds)
    for e in builds:
        for x, xf, xb in e.kw_exprs('variables'):
            rec = F.flow.record(x, xf, xb)
            ok = ok and rec is not None and 'cmd' in rec and param_of(
                F.flow.rec_atoms(rec, 'cmd'), 'command')
    ctx.ob(R, f.fq + '|command-passed-as-build-variable', ok, f.node,
           'the command is not passed as build-scoped variable `cmd`')


def check(ctx):
    ctx.rule('ESC-NINJA', 'every Syntax member escapes every Ninja '
             'metacharacter of the lexical contexts it is designed for '
             '(shell/clean: variable values); keys are '
             'context|member|character')
    ctx.rule('SYNTAX-POSITION', 'value flow from NinjaFile.write through '
             'its helpers: rule commands, build/global variables are written '
             'with Syntax.shell/clean')
    ctx.not_decided += [
        'that sh un-quoting o ninja $-evaluation o quote is the identity for '
        'every string', 'Windows cmd /s /c wrapping (posix assumption)']
    table, members, sites = ninja_sites(ctx)
    E2.esc_members(ctx, 'ESC-NINJA', E.NINJA_SYN, table, {'NJ_VARVALUE'})
    E2.position_rule(ctx, 'SYNTAX-POSITION', sites, [
        r for r in E2.NINJA_ROLES if set(r[1]) & {'shell', 'clean'}],
        'ninja')
    E2.write_flow(ctx, E.NINJA_SYN, {'shell'})
    E2.lit_sites(ctx, [E.NINJA_SYN, 'bfg9000.backends.ninja.writer'],
                 minimum=8)
    E2.literal_origin(ctx)
    E2.sh_safe(ctx, include_make_recipe=False)
    cmd_indirection(ctx)
    ctx.rule('ENV-EXPORT', 'command steps export their environment for '
             'every command of the step')
    from .c01 import _env_export
    _env_export(ctx, 'ENV-EXPORT', ('ninja',))
