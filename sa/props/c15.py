"""C15 -- install/uninstall place and remove exactly the declared files.

Decided (INSTALL-SYMMETRY), all as value-flow / control facts (sa/facts.py),
none as source text:

  * the copy commands of the install rule and the rm command of the uninstall
    rule are both computed from the `host` mapping of the same InstallOutputs
    object, with the same destination composition for the files of an
    installed directory (file path relative to the directory, appended to the
    destination);
  * post-install steps of every installed file are part of the install
    commands; the rpath rewrite addresses the installed (host) copy, uses the
    installed (target) location of each library and is triggered by a
    comparison with it;
  * installify builds <install root>/<install suffix> paths with the destdir
    flag derived from `cross`, rejects files outside srcdir/builddir, clones
    sub-files; InstallOutputs records host and target twins and recurses into
    the install_deps of every (sub)file;
  * the DESTDIR variable is declared iff the build file has one, the build
    file has one iff the writer passes env.supports_destdir, and realize()
    cannot return a root-carrying string before DESTDIR has been prepended;
  * make and ninja build their install/uninstall rules from the same helpers;
  * the file classes named by the property install under the expected roots.

Not decided: the file tree actually produced by doppel/patchelf.
"""
import ast

from ..consteval import EnumMember, const_eval
from ..facts import Facts, has, has_call, has_const, paths, param_of
from ..index import unparse, walk_no_nested
from .. import query as Q

I = 'bfg9000.builtins.install:'
FT = 'bfg9000.file_types:'
R = 'INSTALL-SYMMETRY'

# file classes named by the property and the root they must install under
INSTALL_ROOTS = {
    'Executable': 'bindir', 'SharedLibrary': 'libdir',
    'StaticLibrary': 'libdir', 'VersionedSharedLibrary': 'libdir',
    'HeaderFile': 'includedir', 'HeaderDirectory': 'includedir',
    'ManPage': 'mandir', 'PkgConfigPcFile': 'libdir', 'DllBinary': 'bindir',
}


def _first_const(e):
    a = e.call.args
    if a and isinstance(a[0], ast.Constant) and isinstance(a[0].value, str):
        return a[0].value
    return None


def _texts_have(e, comp):
    return e.callee_is(comp)


def commands(ctx, F):
    inst = F.fn(I + '_install_files')
    unin = F.fn(I + '_uninstall_files')
    copies = F.effects(inst, lambda e: _first_const(e) in ('onto', 'into'))
    onto = [e for e in copies if _first_const(e) == 'onto']
    into = [e for e in copies if _first_const(e) == 'into']
    ret_i = F.returns(inst)
    ok = bool(onto) and all(
        has(e.arg(1), 'host', 'path') and has(e.arg(2), 'host', 'path')
        for e in onto)
    ctx.ob(R, 'install|file-copied-from/to-host-mapping-paths', ok,
           inst.node, 'the copy command of a plain file does not take its '
           'source and destination from the entries of <outputs>.host')
    ok = bool(into) and all(
        has(e.arg(1), 'host', 'files', 'path', 'relpath()') and
        has(e.arg(2), 'host', 'path') and
        has(e.arg(kw='directory'), 'host', 'path') for e in into)
    ctx.ob(R, 'install|directory-files-relative-to-src', ok, inst.node,
           'files of an installed directory are not copied with their '
           'path relative to the directory (structure is lost)')
    ok = any("'onto'" in a for a in paths(ret_i)) and \
        any("'into'" in a for a in paths(ret_i))
    ctx.ob(R, 'install|copy-commands-returned', ok, inst.node,
           'a copy command is computed but not part of the returned list')
    ok = has(ret_i, 'post_install()')
    ctx.ob(R, 'install|post-install-steps-run', ok, inst.node,
           'post-install steps of installed files are not part of the '
           'install commands')

    rms = F.effects(unin, lambda e: _texts_have(e, "tool('rm')"))
    rm_args = set()
    for e in rms:
        rm_args |= e.all_args()
    ok = bool(rms) and has(rm_args, 'host', 'path')
    ctx.ob(R, 'uninstall|removes-host-mapping-destinations', ok, unin.node,
           'uninstall does not remove the destinations recorded in '
           '<outputs>.host')
    ok = has(rm_args, 'host', 'path', 'append()') and \
        has(rm_args, 'host', 'files', 'path', 'relpath()')
    ctx.ob(R, 'uninstall|directory-files-same-composition', ok, unin.node,
           'uninstall does not remove dst/<relative path> for every file of '
           'an installed directory')
    ok = any("tool('rm')" in a for a in paths(F.returns(unin)))
    ctx.ob(R, 'uninstall|rm-command-returned', ok, unin.node, '')
    # both are applied to the same object by both backends
    for b in ('make_install_rule', 'ninja_install_rule'):
        f = F.fn(I + b)
        ci = F.calls_to(f, '_install_files', depth=1)
        cu = F.calls_to(f, '_uninstall_files', depth=1)
        ok = bool(ci) and bool(cu) and all(
            has(e.arg(0), "['install']") for e in ci + cu)
        ctx.ob(R, 'same-mapping|' + b, ok, f.node,
               'install and uninstall commands are not computed from the '
               "same build_inputs['install'] object")


def rpath(ctx, F):
    pe = F.fn('bfg9000.tools.patchelf:post_install')
    effs = F.effects(pe, lambda e: _texts_have(e, "tool('patchelf')"))
    ok = bool(effs) and all(has(e.arg(0), 'host', 'path') for e in effs)
    ctx.ob(R, 'patchelf.post_install|patches-installed-file', ok, pe.node,
           'rpath rewrite is not applied to the installed copy')
    ok = bool(effs) and all(has_call(e.arg(1), 'installed_rpath')
                            for e in effs)
    ctx.ob(R, 'patchelf.post_install|installed-rpaths', ok, pe.node,
           'the new rpath list is not made of installed_rpath() results')
    ctl = set()
    for e in effs:
        ctl |= e.control()
    ok = has_call(ctl, 'installed_rpath') and has_call(ctl, 'local_rpath')
    ctx.ob(R, 'patchelf.post_install|rewrite-iff-local-differs-from-'
           'installed', ok, pe.node,
           'whether the rpath is rewritten does not depend on comparing the '
           'build-time rpath with the installed one')
    ir = F.fn('bfg9000.tools.patchelf:installed_rpath')
    ok = has(F.returns(ir), 'target', 'path', 'parent()') and \
        has(F.returns(ir), 'runtime_file')
    ctx.ob(R, 'installed_rpath|target-location', ok, ir.node,
           'installed rpath is not the directory of the installed (target) '
           'runtime file')


def installify(ctx, F):
    fy = F.fn(I + 'installify')
    ctors = F.effects(fy, lambda e: Q.kwarg(e.call, 'destdir') is not None)
    ok = bool(ctors) and all(
        has(e.arg(0), 'install_suffix') and has(e.arg(1), 'install_root')
        and (has(e.arg(1), 'directory') or 'param:directory' in e.arg(1))
        for e in ctors)
    ctx.ob(R, 'installify|suffix-below-root-or-directory', ok, fy.node,
           'installed path is not <install root or directory>/<install '
           'suffix>')
    def destdir_ok(e):
        """destdir = not cross: as an expression, or as a constant under a
        test of `cross` (True where cross is false, False where it holds)."""
        k = Q.kwarg(e.call, 'destdir')
        if isinstance(k, ast.Constant) and isinstance(k.value, bool):
            pol = [pos for f_, n_ in e.path
                   for t, pos, tf, tb in F.guard_leaves(n_, f_)
                   if param_of(F.atoms(t, tf, tb), 'cross') or
                   has(F.atoms(t, tf, tb), 'cross')]
            return bool(pol) and all(p_ == (not k.value) for p_ in pol)
        return 'param:cross' in e.arg(kw='destdir') or has(
            e.arg(kw='destdir'), 'cross')
    ok = bool(ctors) and all(destdir_ok(e) for e in ctors)
    neg = all(isinstance(Q.kwarg(e.call, 'destdir'), ast.UnaryOp) and
              isinstance(Q.kwarg(e.call, 'destdir').op, ast.Not) or
              not isinstance(Q.kwarg(e.call, 'destdir'), (ast.Name,
                                                          ast.Attribute))
              for e in ctors)
    ctx.ob(R, 'installify|destdir-for-host-paths', ok and neg, fy.node,
           'host (non-cross) install paths do not carry destdir')
    raises = [n for f in F.reach(fy, 2) if f.module is fy.module
              for n in walk_no_nested(f.node) if isinstance(n, ast.Raise)
              for n in [(n, f)]]
    ext = False
    for n, f in raises:
        c = F.control(n, f)
        if has(c, 'path', 'root') and has(c, 'Root', 'srcdir') and \
                has(c, 'Root', 'builddir'):
            ext = True
    ctx.ob(R, 'installify|rejects-external-files', ext, fy.node,
           'files outside srcdir/builddir are not rejected')
    cl = F.effects(fy, lambda e: e.name == 'clone')
    ok = bool(cl) and all(
        isinstance(Q.kwarg(e.call, 'recursive'), ast.Constant) and
        Q.kwarg(e.call, 'recursive').value is True or
        (len(e.call.args) > 1 and isinstance(e.call.args[1], ast.Constant)
         and e.call.args[1].value is True) for e in cl)
    ctx.ob(R, 'installify|subfiles-cloned', ok, fy.node,
           'sub-files (import libraries, versioned links) are not given '
           'installed paths')


def outputs(ctx, F):
    ai = F.fn(I + 'InstallOutputs._add_implicit')
    rec = F.effects(ai, lambda e: e.name == '_add_implicit', depth=0)
    ok = bool(rec) and all(has(e.arg(0), 'all', 'install_deps')
                           for e in rec)
    ctx.ob(R, 'InstallOutputs|install_deps-of-every-subfile-recursive', ok,
           ai.node, 'run-time dependencies of every (sub)file are not '
           'installed with their dependents')
    h = F.stored(ai, 'host')
    t = F.stored(ai, 'target')
    ok = h is not None and t is not None and \
        any(a.startswith('installify(') and 'cross=' not in a
            for a in h) and has(h, 'all') and \
        any(a.startswith('installify(') and 'cross=' in a for a in t) and \
        has(t, 'all') and \
        not any(a.startswith('installify(') and 'cross=' in a for a in h)
    ctx.ob(R, 'InstallOutputs|records-host-and-target', ok, ai.node,
           'host mapping must hold the DESTDIR-aware host twin and target '
           'mapping the cross twin of every (sub)file')
    ok = False
    for g in F.reach(ai, 1):
        if g.cls is not ai.cls:
            continue
        for n in walk_no_nested(g.node):
            if isinstance(n, ast.Raise):
                c = F.control(n, g)
                if has(c, 'host', 'path'):
                    ok = True
    ctx.ob(R, 'InstallOutputs|conflicting-locations-rejected', ok, ai.node,
           'installing one file to two locations is not rejected')
    ld = F.fn(FT + 'LinkedBinary.install_deps')
    r = F.returns(ld)
    ok = has(r, 'runtime_deps') and has(r, 'linktime_deps')
    ctx.ob(R, 'LinkedBinary.install_deps', ok, ld.node,
           'install dependencies of a linked binary are not its run-time '
           'and link-time dependencies')


def destdir(ctx, F):
    repo = ctx.repo
    ap = F.fn(I + '_add_install_paths')
    vs = F.effects(ap, lambda e: e.name == 'variable')
    ok = any(has(e.arg(0), 'path_vars') and has(e.arg(0), 'InstallRoot') and
             has(e.arg(1), 'install_dirs') for e in vs)
    ctx.ob(R, '_add_install_paths|all-roots-declared', ok, ap.node,
           'not every install root variable is declared in the build file')
    dd = [e for e in vs if has_const(e.all_args(), 'DESTDIR') or
          has(e.arg(0), '[path.DestDir.destdir]') or
          has(e.arg(0), 'DestDir', 'destdir')]
    ok = bool(dd) and all(has(e.control(), 'path_vars') and
                          has(e.control(), 'DestDir', 'destdir')
                          for e in dd) and any(
        has(e.arg(1), 'variables') for e in dd)
    ctx.ob(R, '_add_install_paths|DESTDIR-iff-supported', ok, ap.node,
           'the DESTDIR variable is not declared exactly when the build '
           'file has a destdir path variable')
    for syn in ('bfg9000.backends.make.syntax:Makefile',
                'bfg9000.backends.ninja.syntax:NinjaFile'):
        init = F.fn(syn + '.__init__')
        ok = False
        for n in walk_no_nested(init.node):
            if isinstance(n, ast.Assign) and any(
                    isinstance(t, ast.Subscript) and has(
                        F.atoms(t, init), 'DestDir', 'destdir')
                    for t in n.targets):
                c = F.control(n, init)
                ok = 'param:destdir' in c
        ctx.ob(R, syn.split(':')[1] + '|DESTDIR-var-iff-destdir', ok,
               init.node, 'the build file\'s destdir path variable does not '
               'depend on the destdir argument')
    for b, w, cname in (('make', 'bfg9000.backends.make.writer:write',
                         'Makefile'),
                        ('ninja', 'bfg9000.backends.ninja.writer:write',
                         'NinjaFile')):
        f = F.fn(w)
        cs = F.effects(f, lambda e: e.name == cname)
        ok = bool(cs) and all(has(e.arg(kw='destdir'), 'supports_destdir')
                              or has(e.all_args(), 'supports_destdir')
                              for e in cs)
        ctx.ob(R, b + '.write|destdir=env.supports_destdir', ok, f.node,
               'build file is not told whether the platform supports '
               'DESTDIR')
    rz = F.fn('bfg9000.platforms.basepath:BasePath.realize')
    g = F.cfg(rz)
    KEY = '[DestDir.destdir]'

    def lookup(a):
        return has(a, KEY)

    blocks = []
    for n in walk_no_nested(rz.node):
        if isinstance(n, ast.If) and has(F.atoms(n.test, rz), 'destdir') \
                and any(isinstance(s, (ast.Assign, ast.AugAssign)) and
                        lookup(F.atoms(s.value, rz))
                        for s in ast.walk(n) if s is not n):
            blocks.append(n)
    inside = {id(s) for b in blocks for s in ast.walk(b)}
    for n in walk_no_nested(rz.node):
        if isinstance(n, (ast.Assign, ast.AugAssign)) and id(n) not in \
                inside and lookup(F.atoms(n.value, rz)):
            blocks.append(n)
    ctx.ob(R, 'BasePath.realize|destdir-prefix', bool(blocks), rz.node,
           'DESTDIR is not prepended to destdir paths')
    # the local(s) the DESTDIR block rewrites (the root of the path)
    rooted = set()
    for b in blocks:
        for s_ in ast.walk(b):
            if isinstance(s_, (ast.Assign, ast.AugAssign)) and lookup(
                    F.atoms(s_.value, rz)):
                tg = s_.targets if isinstance(s_, ast.Assign) else [
                    s_.target]
                rooted |= {x.id for t_ in tg for x in ast.walk(t_)
                           if isinstance(x, ast.Name)}
    for r in Q.returns(rz.node):
        if r.value is None:
            continue
        uses_root = any(isinstance(x, ast.Name) and x.id in rooted
                        for x in ast.walk(r.value))
        if not uses_root and not lookup(F.atoms(r.value, rz)):
            continue
        ok = any(g.dominates(b, r) for b in blocks)
        ctx.ob(R, 'BasePath.realize|destdir-before-return', ok, r,
               'a path that includes its root can be returned before '
               'DESTDIR is prepended: a staged install writes outside '
               '$(DESTDIR)')


def siblings(ctx, F):
    facts = {}
    for b in ('make_install_rule', 'ninja_install_rule'):
        f = F.fn(I + b)
        rules = F.effects(f, lambda e: e.name in ('rule', 'command_build'),
                          depth=1)
        inst = unin = set()
        for e in rules:
            a = e.all_args()
            if has_const(a, 'install'):
                inst = a
                ci = e.control()
            if has_const(a, 'uninstall'):
                unin = a
        d = {
            'install-commands-from-_install_files': has_call(
                inst, '_install_files'),
            'install-commands-include-mopack-deploy': has_call(
                inst, '_install_mopack'),
            'uninstall-commands-from-_uninstall_files': has_call(
                unin, '_uninstall_files'),
            'install-depends-on-all': has_const(inst, 'all'),
            'install-paths-declared': bool(F.calls_to(
                f, '_add_install_paths', depth=1)),
            'skipped-unless-can_install': bool(rules) and all(
                has_call(e.control(), 'can_install') for e in rules),
        }
        facts[b] = d
        for k, v in sorted(d.items()):
            ctx.ob(R, 'sibling|{}|{}'.format(b, k), v, f.node,
                   '{}: {} does not hold'.format(b, k))


def roots(ctx, F):
    repo = ctx.repo
    for cname, want in sorted(INSTALL_ROOTS.items()):
        ci = repo.cls(FT + cname)
        o, v = ci.find_attr('install_root')
        got = None
        if v is not None:
            c = const_eval(repo, o.module, v, o)
            if isinstance(c, EnumMember):
                got = c.name
            elif c is None:
                got = None
            else:
                got = unparse(v).split('.')[-1]
        ctx.ob(R, 'install_root|{}'.format(cname), got == want, ci.node,
               '{} installs under {} (expected {})'.format(cname, got, want))
    mp = F.fn(FT + 'ManPage.install_suffix')
    r = F.returns(mp)
    ok = has(r, 'level') and has(r, 'path', 'basename()') and \
        not has(r, 'path', 'suffix') and any(
            a.startswith('const:') and 'man' in a for a in r)
    ctx.ob(R, 'ManPage.install_suffix|man<level>/<basename>', ok, mp.node,
           'man pages are not installed as man<level>/<basename>')
    hd = F.fn(FT + 'Directory.install_suffix')
    r = F.returns(hd)
    ok = r == {"const:''"}
    ctx.ob(R, 'Directory.install_suffix|contents-into-root', ok, hd.node,
           'an installed directory\'s contents are not placed directly in '
           'the install root')
    fs = F.fn(FT + 'File.install_suffix')
    r = F.returns(fs)
    ok = has(r, 'path', 'basename()') and has(r, 'path', 'suffix')
    c = F.return_control(fs)
    ok = ok and has(c, 'path', 'root') and has(c, 'Root', 'srcdir')
    ctx.ob(R, 'File.install_suffix|srcdir-basename/builddir-suffix', ok,
           fs.node, 'source files must install by basename, built files by '
           'their path below the build directory')


# GNU coding standards, "Variables for Installation Directories": which
# variable each default directory is expressed in (so that --exec-prefix and
# --prefix move exactly the directories they are documented to move)
GNU_DIR_ROOTS = {'exec_prefix': 'prefix', 'bindir': 'exec_prefix',
                 'libdir': 'exec_prefix', 'includedir': 'prefix',
                 'datadir': 'prefix', 'mandir': 'datadir'}


def install_dirs(ctx, F):
    repo = ctx.repo
    f = F.fn('bfg9000.platforms.posix:PosixTargetPlatform.install_dirs')
    got = {}
    for d in ast.walk(f.node):
        if isinstance(d, ast.Dict):
            for k, v in zip(d.keys, d.values):
                if k is None or not isinstance(v, ast.Call) or len(
                        v.args) < 2:
                    continue
                got[unparse(k).split('.')[-1]] = unparse(
                    v.args[1]).split('.')[-1]
    Q.require(len(got) >= 6, 'posix install_dirs table not found')
    for name, root in sorted(GNU_DIR_ROOTS.items()):
        ctx.ob(R, 'install_dirs|{}-below-{}'.format(name, root),
               got.get(name) == root, f.node,
               'the default {} is expressed in {} instead of {}: '
               '--{} no longer moves it'.format(
                   name, got.get(name), root, root.replace('_', '-')))


def check(ctx):
    ctx.not_decided += [
        'the file tree actually produced by doppel and patchelf under all '
        'prefix/DESTDIR combinations', 'that nothing else is touched']
    ctx.rule(R, 'install and uninstall are computed from the same mapping '
             'with the same destination composition; host paths carry '
             'destdir; DESTDIR variable declared iff supported; make and '
             'ninja share the helpers; installable classes have roots; '
             'install_deps are installed recursively (all as value-flow / '
             'control-dependence / dominance facts); default directories are '
             'expressed in the GNU directory variable they belong to')
    F = Facts(ctx.repo)
    install_dirs(ctx, F)
    commands(ctx, F)
    rpath(ctx, F)
    installify(ctx, F)
    outputs(ctx, F)
    destdir(ctx, F)
    siblings(ctx, F)
    roots(ctx, F)
