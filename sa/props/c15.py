"""C15 -- install/uninstall place and remove exactly the declared files.

Decided (INSTALL-SYMMETRY): install and uninstall iterate the same mapping
and compose destination paths the same way; installify creates DESTDIR-aware
host paths below the per-type install root; the build file declares DESTDIR
iff the environment supports it; both backends use the same helpers; every
installable file class of the property's list has an install root; run-time
dependencies are installed with their dependents.
Not decided: the file tree actually produced by doppel/patchelf.
"""
import ast

from ..consteval import EnumMember, UNKNOWN, const_eval
from ..index import unparse, walk_no_nested
from .. import query as Q

I = 'bfg9000.builtins.install:'
FT = 'bfg9000.file_types:'

# file classes named by the property and the root they must install under
INSTALL_ROOTS = {
    'Executable': 'bindir', 'SharedLibrary': 'libdir',
    'StaticLibrary': 'libdir', 'VersionedSharedLibrary': 'libdir',
    'HeaderFile': 'includedir', 'HeaderDirectory': 'includedir',
    'ManPage': 'mandir', 'PkgConfigPcFile': 'libdir', 'DllBinary': 'bindir',
}


def install_symmetry(ctx):
    R = 'INSTALL-SYMMETRY'
    ctx.rule(R, 'install and uninstall are computed from the same mapping '
             'with the same destination composition; host paths carry '
             'destdir; DESTDIR variable declared iff supported; make and '
             'ninja share the helpers; installable classes have roots; '
             'install_deps are installed recursively')
    repo = ctx.repo
    inst = repo.func(I + '_install_files')
    unin = repo.func(I + '_uninstall_files')
    it_i = [unparse(g.iter) for n in ast.walk(inst.node) if isinstance(
        n, (ast.ListComp, ast.GeneratorExp)) for g in n.generators
        if 'install_line' in unparse(n.elt)]
    it_u = [unparse(g.iter) for n in ast.walk(unin.node) if isinstance(
        n, (ast.ListComp, ast.GeneratorExp)) for g in n.generators
        if 'uninstall_line' in unparse(n.elt)]
    ok = it_i == it_u == ['install_outputs.host.items()']
    ctx.ob(R, 'same-mapping', ok, inst.node,
           'install iterates {} but uninstall iterates {}'.format(
               it_i, it_u))
    # directories: per-file relative path composition
    ti, tu = unparse(inst.node), unparse(unin.node)
    ok = 'i.path.relpath(src.path) for i in src.files' in ti and \
        "cmd('into', src_paths, dst.path, directory=src.path)" in ti
    ctx.ob(R, 'install|directory-files-relative-to-src', ok, inst.node,
           'files of an installed directory are not copied with their '
           'relative structure')
    ok = 'dst.path.append(i.path.relpath(src.path)) for i in ' \
        'iterate(src.files)' in tu
    ctx.ob(R, 'uninstall|directory-files-same-composition', ok, unin.node,
           'uninstall does not remove dst/<relative path> for every file of '
           'an installed directory')
    ok = "cmd('onto', src.path, dst.path)" in ti and 'return [dst.path]' in tu
    ctx.ob(R, 'file|install-onto-dst/uninstall-dst', ok, inst.node,
           'plain files are installed to / removed from different paths')
    ok = 'isinstance(src, Directory)' in ti and \
        'isinstance(src, Directory)' in tu
    ctx.ob(R, 'both-distinguish-directories', ok, inst.node, '')
    # post install addresses the installed host file
    pe = repo.func('bfg9000.tools.patchelf:post_install')
    ok = "env.tool('patchelf')(install_db.host[output].path" in unparse(
        pe.node)
    ctx.ob(R, 'patchelf.post_install|patches-installed-file', ok, pe.node,
           'rpath rewrite is not applied to the installed copy')
    ok = 'installed_rpath(env, i.library, install_db)' in unparse(pe.node)
    ctx.ob(R, 'patchelf.post_install|installed-rpaths', ok, pe.node, '')
    ir = repo.func('bfg9000.tools.patchelf:installed_rpath')
    ok = 'install_db.target[library.runtime_file].path.parent()' in unparse(
        ir.node)
    ctx.ob(R, 'installed_rpath|target-location', ok, ir.node, '')
    ok = 'i.post_install(install_outputs) if i.post_install else None' in ti
    ctx.ob(R, 'install|post-install-steps-run', ok, inst.node, '')
    # installify
    fy = repo.func(I + 'installify')
    t = unparse(fy.node)
    ok = 'cls(f.install_suffix, install_root, destdir=not cross)' in t
    ctx.ob(R, 'installify|suffix-below-root-with-destdir', ok, fy.node,
           'installed path is not <install root>/<install suffix> with '
           'destdir set for host paths')
    ok = 'install_root = path.Path(directory, f.install_root)' in t and \
        'install_root = f.install_root' in t
    ctx.ob(R, 'installify|directory-argument-below-root', ok, fy.node, '')
    ok = "raise ValueError('external files are not installable')" in t and \
        'f.install_root is None' in t
    ctx.ob(R, 'installify|rejects-uninstallable', ok, fy.node, '')
    ok = 'file.clone(pathfn, recursive=True)' in t
    ctx.ob(R, 'installify|subfiles-cloned', ok, fy.node, '')
    # InstallOutputs
    ai = repo.method(I + 'InstallOutputs', '_add_implicit')
    t = unparse(ai.node)
    ok = 'for dep in src.install_deps:' in t and \
        'self._add_implicit(dep, directory)' in t
    ctx.ob(R, 'InstallOutputs|install_deps-recursive', ok, ai.node,
           'run-time dependencies are not installed with their dependents')
    ok = 'self.host[src] = h' in t and 'self.target[src] = t' in t and \
        'zip(item.all, host.all, target.all)' in t
    ctx.ob(R, 'InstallOutputs|records-host-and-target', ok, ai.node, '')
    ok = "already installed to a ' + 'different location" in t or \
        'already installed to a' in t
    ctx.ob(R, 'InstallOutputs|conflicting-locations-rejected', ok, ai.node,
           '')
    ld = repo.method(FT + 'LinkedBinary', 'install_deps')
    ok = 'self.runtime_deps + self.linktime_deps' in unparse(ld.node)
    ctx.ob(R, 'LinkedBinary.install_deps', ok, ld.node, '')
    # DESTDIR variable
    ap = repo.func(I + '_add_install_paths')
    t = unparse(ap.node)
    ok = 'for i in path.InstallRoot:' in t and \
        'buildfile.variable(buildfile.path_vars[i], env.install_dirs[i]' in t
    ctx.ob(R, '_add_install_paths|all-roots-declared', ok, ap.node,
           'not every install root variable is declared in the build file')
    ok = 'if path.DestDir.destdir in buildfile.path_vars:' in t and \
        "env.variables.get('DESTDIR', '')" in t
    ctx.ob(R, '_add_install_paths|DESTDIR-iff-supported', ok, ap.node, '')
    for syn in ('bfg9000.backends.make.syntax:Makefile',
                'bfg9000.backends.ninja.syntax:NinjaFile'):
        init = repo.method(syn, '__init__')
        ok = any(isinstance(n, ast.If) and unparse(n.test) == 'destdir' and
                 "self.path_vars[path.DestDir.destdir] = Variable('DESTDIR')"
                 in unparse(n) for n in walk_no_nested(init.node))
        ctx.ob(R, syn.split(':')[1] + '|DESTDIR-var-iff-destdir', ok,
               init.node, '')
    for b, w in (('make', 'bfg9000.backends.make.writer:write'),
                 ('ninja', 'bfg9000.backends.ninja.writer:write')):
        f = repo.func(w)
        ok = 'env.supports_destdir' in unparse(f.node)
        ctx.ob(R, b + '.write|destdir=env.supports_destdir', ok, f.node, '')
    rz = repo.method('bfg9000.platforms.basepath:BasePath', 'realize')
    ok = 'if self.destdir and DestDir.destdir in variables:' in unparse(
        rz.node) and 'root = destdir if root is None else destdir + root' \
        in unparse(rz.node)
    ctx.ob(R, 'BasePath.realize|destdir-prefix', ok, rz.node,
           'DESTDIR is not prepended to destdir paths')
    # no result that contains the root is returned before the DESTDIR block
    from ..cfg import build as build_cfg
    g = build_cfg(rz.node)
    dd = [n for n in walk_no_nested(rz.node) if isinstance(n, ast.If) and
          unparse(n.test) == 'self.destdir and DestDir.destdir in variables']
    if dd:
        for r in Q.returns(rz.node):
            if r.value is not None and any(
                    isinstance(x, ast.Name) and x.id == 'root'
                    for x in ast.walk(r.value)):
                ctx.ob(R, 'BasePath.realize|destdir-before|' + unparse(
                    r.value)[:50], g.dominates(dd[0], r), r,
                    'a path that includes its root can be returned before '
                    'DESTDIR is prepended: a staged install writes outside '
                    '$(DESTDIR)')
    # siblings
    mi = repo.func(I + 'make_install_rule')
    ni = repo.func(I + 'ninja_install_rule')
    for nm in ('_install_files(install_outputs, buildfile, env)',
               '_uninstall_files(install_outputs, env)',
               '_add_install_paths(buildfile, env)',
               'install_files + _install_mopack(env)',
               "build_inputs['install']", 'can_install(env)'):
        ok = nm in unparse(mi.node) and nm in unparse(ni.node)
        ctx.ob(R, 'sibling|' + nm, ok, mi.node,
               'make and ninja install rules differ in ' + nm)
    # install roots of the property's file classes
    for cname, want in sorted(INSTALL_ROOTS.items()):
        ci = repo.cls(FT + cname)
        o, v = ci.find_attr('install_root')
        got = None
        if v is not None:
            c = const_eval(repo, o.module, v, o)
            if isinstance(c, EnumMember):
                got = c.name
            elif c is None:
                got = None
            else:
                txt = unparse(v)
                got = txt.split('.')[-1]
        ctx.ob(R, 'install_root|{}'.format(cname), got == want, ci.node,
               '{} installs under {} (expected {})'.format(cname, got, want))
    mp = repo.method(FT + 'ManPage', 'install_suffix')
    ok = "'man{}/{}'.format(self.level, self.path.basename())" in unparse(
        mp.node)
    ctx.ob(R, 'ManPage.install_suffix|man<level>/<name>', ok, mp.node, '')
    hd = repo.method(FT + 'Directory', 'install_suffix')
    ok = "return ''" in unparse(hd.node)
    ctx.ob(R, 'Directory.install_suffix|contents-into-root', ok, hd.node, '')
    fs = repo.method(FT + 'File', 'install_suffix')
    ok = 'self.path.root == _path.Root.srcdir' in unparse(fs.node) and \
        'return self.path.basename()' in unparse(fs.node) and \
        'return self.path.suffix' in unparse(fs.node)
    ctx.ob(R, 'File.install_suffix', ok, fs.node, '')


def check(ctx):
    ctx.not_decided += [
        'the file tree actually produced by doppel and patchelf under all '
        'prefix/DESTDIR combinations', 'that nothing else is touched']
    install_symmetry(ctx)
