"""C06 -- Make, Ninja and compile_commands.json describe the same build.

Decided (SIBLING): per edge class, the three emitters agree on registration,
on the set of consumed attributes they turn into dependencies, on the keyword
set handed to the tool call, on the flag components, on input transformation
and on the command/environment expression.
Not decided: equality of the evaluated command lines.
"""
import ast

from ..facts import (Facts, direct, has, has_call, has_const, param_of)
from ..index import AnalysisError, unparse, walk_no_nested
from .. import query as Q
from ..rules import graph as G
from . import c03, c07

COMPDB_EXEMPT = {
    'bfg9000.builtins.alias:Alias': 'no command',
    'bfg9000.builtins.command:Command': 'phony command without output file',
    'bfg9000.builtins.copy_file:CompressFile':
        'not useful to compile_commands consumers (upstream choice)',
}


def _facts(ctx):
    f = getattr(ctx, '_facts', None)
    if f is None:
        f = ctx._facts = Facts(ctx.repo)
    return f


def _tool_calls(F, h, tool):
    """The `<rule>.compiler(...)` / `<rule>.linker(...)` calls of a
    handler."""
    p = Q.params(h.node)[0]
    return [e for e in F.effects(h, lambda e: True, depth=1)
            if any(x == '{}.{}'.format(p, tool) for x in e.heads())]


def _kw_record(F, e):
    """Constant keyword names a tool call receives (explicit keywords and
    the keys of a **mapping built by the handler or its helper)."""
    keys, rec = set(), {}
    for k in e.call.keywords:
        if k.arg is not None:
            keys.add(k.arg)
            rec.setdefault(k.arg, set()).update(
                F.atoms(k.value, e.fn, e.bind))
        else:
            r = F.flow.record(k.value, e.fn, e.bind)
            for kk in (r or {}):
                if kk != '*':
                    keys.add(kk)
                    rec.setdefault(kk, set()).update(
                        F.flow.rec_atoms(r, kk))
    return keys, rec


def sibling(ctx):
    R = 'SIBLING'
    ctx.rule(R, 'the make, ninja and compdb emitters of one edge class '
             'agree: same registrations (compdb minus reasoned exemptions), '
             'same dependency roots, same tool-call keywords, same flag '
             'components, same input transformation, same command/'
             'environment expression (all as value-flow facts); compdb path '
             'text comes from the same realisation (string()), not the raw '
             'suffix')
    repo = ctx.repo
    F = _facts(ctx)
    reg = G.Registry(repo)
    mk, nj, cd = (set(reg.handlers[b]) for b in ('make', 'ninja', 'compdb'))
    ctx.ob(R, 'make-handlers|found', len(mk) >= 8, None,
           'only {} make handlers found'.format(len(mk)))
    for c in sorted(mk | nj):
        ctx.ob(R, 'registered|make=ninja|' + c, c in mk and c in nj, None,
               '{} is handled by {} only'.format(
                   c, 'make' if c in mk else 'ninja'))
    for c in sorted(mk):
        if c in COMPDB_EXEMPT:
            ctx.ob(R, 'registered|compdb|' + c, True, None,
                   'allow-listed: ' + COMPDB_EXEMPT[c])
        else:
            ctx.ob(R, 'registered|compdb|' + c, c in cd, None,
                   '{} has make/ninja handlers but no compdb handler'
                   .format(c))
    for c in sorted(cd - mk):
        ctx.ob(R, 'registered|compdb-extra|' + c, False, None,
               'compdb handles {} which make does not'.format(c))

    for c in sorted(mk & nj):
        hm, hn = reg.handlers['make'][c], reg.handlers['ninja'][c]
        rm = _dep_roots(F, hm)
        rn = _dep_roots(F, hn)
        req = set(c03.REQUIRED.get(c, {}))
        # conditions: where both handlers add an attribute in their own
        # body, they must agree on whether that is unconditional
        am, cm = _old_roots(hm)
        an, cn = _old_roots(hn)
        shared = am & an & req
        same_cond = (cm & shared) == (cn & shared)
        ctx.ob(R, 'dep-roots|' + c, (rm & req) == (rn & req) and same_cond,
               hm.node,
               'make and ninja handlers of {} depend on different consumed '
               'attributes: make {} / ninja {}'.format(
                   c.split(':')[1], sorted(rm & req), sorted(rn & req)))

    for mod, tool in (('bfg9000.builtins.compile', 'compiler'),
                      ('bfg9000.builtins.link', 'linker')):
        per, comps = {}, {}
        for b in ('make', 'ninja', 'compdb'):
            hs = {h.fq: h for c, h in reg.handlers[b].items()
                  if h.module.name == mod}
            for h in hs.values():
                tcs = _tool_calls(F, h, tool)
                ctx.ob(R, 'tool-call|' + h.fq, bool(tcs), h.node,
                       '{} does not call rule.{}(...)'.format(
                           h.qualname, tool))
                at = set()
                for e in tcs:
                    keys, rec = _kw_record(F, e)
                    per.setdefault(b, set()).update(keys)
                    for k in ('flags', 'libs'):
                        at |= rec.get(k, set())
                if b != 'compdb':
                    gf = F.calls_to(h, '_get_flags', depth=1)
                    ok = bool(gf) and all(
                        any(x == b for x in direct(e.arg(0))) and
                        param_of(e.arg(1), Q.params(h.node)[0])
                        for e in gf)
                    ctx.ob(R, 'shared-_get_flags|' + h.fq, ok, h.node,
                           '{} does not compute its flags through the '
                           'shared _get_flags({}, rule, ...)'.format(
                               h.qualname, b))
                    # the variables the flags kw names are filled from
                    for e in F.effects(h, lambda e: e.name == 'flags_vars',
                                       depth=2):
                        at |= e.arg(1)
                    for g_ in F.reach(h, 1):
                        if g_.node.name != '_get_flags':
                            continue
                        for t, v, n in F.stores(g_):
                            at |= v
                        at |= F.returns(g_)      # dicts built as literals
                comps.setdefault(b, set())
                want = [('global_flags', lambda a: has(a, tool,
                                                       'global_flags') or
                         has(a, 'global_flags')),
                        ('tool.flags(mode=global)', lambda a: any(
                            ".flags(~, mode='global')" in x for x in a)),
                        ('rule.flags', lambda a: has(a, 'rule.flags()'))]
                if tool == 'linker':
                    want += [('global_libs', lambda a: has(a,
                                                           'global_libs')),
                             ('tool.lib_flags(mode=global)', lambda a: any(
                                 ".lib_flags(~, mode='global')" in x
                                 for x in a)),
                             ('rule.lib_flags', lambda a: has(
                                 a, 'rule.lib_flags()'))]
                sel = "['compile_options']" if tool == 'compiler' else \
                    "['link_options']"
                want.append(('gopts-from-registry',
                             lambda a, sel=sel: has(a, sel)))
                for nm, pred in want:
                    if pred(at):
                        comps[b].add(nm)
        ctx.ob(R, 'tool-keywords|' + mod,
               per.get('make') == per.get('ninja') == per.get('compdb'),
               None, 'keyword sets passed to the {} call differ: {}'
               .format(tool, {b: sorted(v) for b, v in per.items()}))
        allc = set().union(*comps.values()) if comps else set()
        for nm in sorted(allc):
            ctx.ob(R, 'flag-component|{}|{}'.format(mod, nm),
                   all(nm in comps.get(b, ()) for b in ('make', 'ninja',
                                                        'compdb')), None,
                   'flag component {} is used by {} only'.format(
                       nm, [b for b in comps if nm in comps[b]]))
        ctx.ob(R, 'flag-components|found|' + mod, len(allc) >= (
            4 if tool == 'compiler' else 7), None,
            'only the flag components {} were recognised'.format(
                sorted(allc)))
        # order in compdb: global_flags + global options + target options
        for c, h in reg.handlers['compdb'].items():
            if h.module.name != mod:
                continue
            for st in c07._item_stores(F, h, 'flags'):
                n, h_, b_ = st.node, st.fn, st.bind
                terms = c03._terms(F, n.value, h_)
                idx = {}
                for i_, t in enumerate(terms):
                    a = F.atoms(t, h_, b_)
                    if has(a, 'global_flags') and 'g' not in idx:
                        idx['g'] = i_
                    if any("mode='global'" in x for x in a) and \
                            'o' not in idx:
                        idx['o'] = i_
                    if has(a, 'rule.flags()') and 't' not in idx:
                        idx['t'] = i_
                ok = len(idx) == 3 and idx['g'] < idx['o'] < idx['t']
                ctx.ob(R, 'flag-order|' + h.fq, ok, n,
                       'compdb concatenates flags in a different order '
                       'than global_flags + global options + target '
                       'options')

    for mod in ('bfg9000.builtins.link', 'bfg9000.builtins.copy_file'):
        for b in ('make', 'ninja', 'compdb'):
            hs = {h.fq: h for c, h in reg.handlers[b].items()
                  if h.module.name == mod}
            for h in hs.values():
                ti = F.calls_to(h, 'transform_input', depth=1)
                ok = bool(ti) and all(has_call(e.control(), 'hasattr')
                                      for e in ti)
                ctx.ob(R, 'transform_input|' + h.fq, ok, h.node,
                       '{} does not apply the tool\'s transform_input'
                       .format(h.qualname))
    K = 'bfg9000.builtins.command:'
    for b, fq, kw in (('make', K + 'make_command', 'recipe'),
                      ('ninja', K + 'ninja_command', 'command'),
                      ('compdb', K + 'compdb_copy_file', 'arguments')):
        f = F.fn(fq)
        p = Q.params(f.node)[0]
        ge = F.calls_to(f, 'global_env', depth=1)
        ok = bool(ge) and all(has(e.arg(0), p + '.env') and has(
            e.arg(1), p + '.cmds') for e in ge)
        ctx.ob(R, 'command-env|' + fq, ok, f.node,
               '{} does not run global_env(rule.env, rule.cmds)'.format(fq))
        ems = [e for e in F.effects(f, lambda e: Q.kwarg(e.call, kw)
                                    is not None, depth=0)]
        ok = bool(ems) and all(
            {a for a in direct(e.arg(kw=kw, shallow=True))
             if not a.startswith(('const:', 'alloc:'))} and
            all('global_env(' in a
                for a in direct(e.arg(kw=kw, shallow=True))
                if not a.startswith(('const:', 'alloc:')))
            for e in ems)
        ctx.ob(R, 'env-export|' + fq, ok, f.node,
               '{} does not pass exactly global_env(rule.env, rule.cmds) as '
               'the command: the step environment is not exported for every '
               'command of the step'.format(fq.split(':')[1]))
    for fq in (K + 'make_command', K + 'ninja_command'):
        f = F.fn(fq)
        p = Q.params(f.node)[0]
        ok = any(has(e.arg(kw='phony'), p + '.phony')
                 for e in F.effects(f, lambda e: Q.kwarg(
                     e.call, 'phony') is not None, depth=1))
        ctx.ob(R, 'command-phony|' + fq, ok, f.node,
               'always-outdated flag is not forwarded')
    Cm = 'bfg9000.builtins.compile:'
    for fq in (Cm + 'make_compile', Cm + 'ninja_compile',
               Cm + 'compdb_compile'):
        f = F.fn(fq)
        st = c07._item_stores(F, f, 'deps')
        ok = any(c07._gcc_at(F, x) for x in st)
        ctx.ob(R, 'deps-kwarg-under-gcc-flavor|' + fq, ok, f.node,
               'the depfile argument is not passed under the gcc deps '
               'flavor')
    CD = 'bfg9000.backends.compdb.writer:'
    init = F.fn(CD + 'CompDB.__init__')
    ok = any(has(t, 'self._commands') and isinstance(n, ast.Assign) and (
        isinstance(n.value, ast.List) or isinstance(n.value, ast.Call) and
        unparse(n.value.func) == 'list') for t, v, n in F.stores(init))
    ctx.ob(R, 'CompDB|commands-is-a-list', ok, init.node,
           'compile_commands entries are not kept in a list (entries with '
           'the same key would replace each other)')
    ap = F.fn(CD + 'CompDB.append')
    ok = F.must(ap, lambda e: e.name == 'append' and has(
        e.recv(), 'self._commands'))
    ctx.ob(R, 'CompDB.append|every-entry-kept', ok, ap.node,
           'an entry can be dropped or replace an earlier one')
    wr = F.fn(CD + 'CompDB.write')
    ok = any(has(e.arg(0), 'self._commands') and not has_call(
        e.arg(0), 'if') for e in F.calls_to(wr, 'dump', depth=1))
    ctx.ob(R, 'CompDB.write|dumps-all', ok, wr.node,
           'not every entry is written')
    # compdb path text comes out of the same realisation as in make/ninja
    # (BasePath.string / relpath of it), never out of the raw suffix (the
    # build directory itself has an empty suffix and must read ".")
    sf = F.fn(CD + 'CompDB._stringify')
    raw = []
    for r in F.flow._returns(sf):
        at = F.atoms(r, sf)
        if any(a.endswith('.suffix') and not a.startswith('via:')
               for a in at):
            raw.append(unparse(r))
    ctx.ob(R, 'CompDB._stringify|paths-realised', not raw, sf.node,
           'a path is written into compile_commands.json from its raw '
           'suffix ({}), not through string(): "-I" + "" for the build '
           'directory itself'.format('; '.join(raw)[:80]))
    w = F.fn(CD + 'write')
    hc = [e for e in F.effects(w, lambda e: True, depth=0)
          if has(e.heads(), '_rule_handlers')]
    ok = bool(hc) and all(has(e.arg(0), 'build_inputs.edges()')
                          for e in hc)
    ctx.ob(R, 'compdb.write|visits-all-edges', ok, w.node,
           'compdb.write does not visit every edge')


def _old_roots(h):
    ro = G.Roots(h.node, Q.params(h.node)[0])
    al, cl = set(), set()
    for c, k in G.emission_calls(h.node):
        if k not in G.DEP_ARGS:
            continue
        (o, op), deps, oos = G.DEP_ARGS[k]
        for nm, pos in deps:
            al |= ro.of(G.call_arg(c, nm, pos))
            cl |= ro.clean(G.call_arg(c, nm, pos))
    return al, cl


def _dep_roots(F, h):
    out = set()
    p = Q.params(h.node)[0]
    for e, k in c03._emissions(F, h):
        (o, op), deps, oos = G.DEP_ARGS[k]
        for nm, pos in deps:
            out |= c03._rule_roots(e.arg(pos, kw=nm), p)
    return out


def check(ctx):
    ctx.not_decided += [
        'equality of the evaluated command lines, working directories and '
        'environments across the three files']
    sibling(ctx)
    # the two helpers that stand between a handler and the statement it
    # registers must forward the same arguments (shared with C03)
    c03.pass_through(ctx)
    # header dependencies: both backends read the compiler's depfile back
    # for every object (shared with C07)
    c07.depfile_wiring(ctx)
    # the shared _get_flags of make/ninja composes the flags in the order the
    # compdb emitter spells out (shared with C16)
    from . import c16
    c16.flag_merge(ctx)
