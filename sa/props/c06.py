"""C06 -- Make, Ninja and compile_commands.json describe the same build.

Decided (SIBLING): per edge class, the three emitters agree on registration,
on the set of consumed attributes they turn into dependencies, on the keyword
set handed to the tool call, on the flag components, on input transformation
and on the command/environment expression.
Not decided: equality of the evaluated command lines.
"""
import ast

from ..index import AnalysisError, unparse, walk_no_nested
from .. import query as Q
from ..rules import graph as G
from . import c03

COMPDB_EXEMPT = {
    'bfg9000.builtins.alias:Alias': 'no command',
    'bfg9000.builtins.command:Command': 'phony command without output file',
    'bfg9000.builtins.copy_file:CompressFile':
        'not useful to compile_commands consumers (upstream choice)',
}


def _cmd_kwargs_keys(fn_node):
    keys = set()
    for n in ast.walk(fn_node):
        if isinstance(n, ast.Assign):
            for t in n.targets:
                if isinstance(t, ast.Subscript) and unparse(
                        t.value) == 'cmd_kwargs' and isinstance(
                            t.slice, ast.Constant):
                    keys.add(t.slice.value)
                elif isinstance(t, ast.Tuple):
                    pass
            # chained: cmd_kwargs['deps'] = deps = ...
    return keys


def sibling(ctx):
    R = 'SIBLING'
    ctx.rule(R, 'the make, ninja and compdb emitters of one edge class '
             'agree: same registrations (compdb minus reasoned exemptions), '
             'same dependency roots, same tool-call keywords, same flag '
             'components through the shared _get_flags, same input '
             'transformation, same command/environment expression')
    repo = ctx.repo
    reg = G.Registry(repo)
    mk, nj, cd = (set(reg.handlers[b]) for b in ('make', 'ninja', 'compdb'))
    ctx.require_min(R, len(mk), 11, 'make handlers')
    for c in sorted(mk | nj):
        ctx.ob(R, 'registered|make=ninja|' + c, c in mk and c in nj, None,
               '{} is handled by {} only'.format(
                   c, 'make' if c in mk else 'ninja'))
    for c in sorted(mk):
        if c in COMPDB_EXEMPT:
            ctx.ob(R, 'registered|compdb|' + c, True, None,
                   'allow-listed: ' + COMPDB_EXEMPT[c])
        else:
            ctx.ob(R, 'registered|compdb|' + c, c in cd, None,
                   '{} has make/ninja handlers but no compdb handler'
                   .format(c))
    for c in sorted(cd - mk):
        ctx.ob(R, 'registered|compdb-extra|' + c, False, None,
               'compdb handles {} which make does not'.format(c))

    # dependency roots: make vs ninja, per edge class
    for c in sorted(mk & nj):
        hm, hn = reg.handlers['make'][c], reg.handlers['ninja'][c]
        rm = _dep_roots(hm)
        rn = _dep_roots(hn)
        req = set(c03.REQUIRED.get(c, {}))
        ctx.ob(R, 'dep-roots|' + c, (rm & req) == (rn & req), hm.node,
               'make and ninja handlers of {} depend on different consumed '
               'attributes: make {} / ninja {}'.format(
                   c.split(':')[1], sorted(rm & req), sorted(rn & req)))

    # shared flag computation
    for mod, tool in (('bfg9000.builtins.compile', 'compiler'),
                      ('bfg9000.builtins.link', 'linker')):
        gf = repo.func(mod + ':_get_flags')
        for b in ('make', 'ninja'):
            hs = {h.fq: h for c, h in reg.handlers[b].items()
                  if h.module.name == mod}
            for h in hs.values():
                calls = [x for x in Q.calls(h.node) if unparse(x.func) ==
                         '_get_flags']
                ok = len(calls) == 1 and [unparse(a) for a in calls[0].args] \
                    == [b, 'rule', 'build_inputs', 'buildfile']
                ctx.ob(R, 'shared-_get_flags|' + h.fq, ok, h.node,
                       '{} does not compute its flags through the shared '
                       '_get_flags({}, rule, build_inputs, buildfile)'
                       .format(h.qualname, b))
                # the tool call receives **cmd_kwargs
                tc = [x for x in Q.calls(h.node) if unparse(x.func) == tool]
                ok = bool(tc) and all(any(
                    k.arg is None and unparse(k.value) == 'cmd_kwargs'
                    for k in x.keywords) for x in tc)
                ctx.ob(R, 'tool-call-gets-cmd_kwargs|' + h.fq, ok, h.node,
                       'the {}(...) call does not receive **cmd_kwargs'
                       .format(tool))
        # keyword sets
        keys_shared = _cmd_kwargs_keys(gf.node)
        per = {}
        for b in ('make', 'ninja', 'compdb'):
            for c, h in reg.handlers[b].items():
                if h.module.name != mod:
                    continue
                k = _cmd_kwargs_keys(h.node)
                if b != 'compdb':
                    k |= keys_shared
                per.setdefault(b, set()).update(k)
        ctx.ob(R, 'tool-keywords|' + mod,
               per.get('make') == per.get('ninja') == per.get('compdb'),
               gf.node, 'keyword sets passed to the {} call differ: {}'
               .format(tool, {b: sorted(v) for b, v in per.items()}))
        # flag components: the same expressions in _get_flags and compdb
        comps = (['{t}.global_flags', "{t}.flags(gopts, mode='global')",
                  'rule.flags(gopts)'] if tool == 'compiler' else
                 ['{t}.global_flags', "{t}.flags(gopts, mode='global')",
                  'rule.flags(gopts)', '{t}.global_libs',
                  "{t}.lib_flags(gopts, mode='global')",
                  'rule.lib_flags(gopts)'])
        cdh = [h for c, h in reg.handlers['compdb'].items()
               if h.module.name == mod]
        Q.require(cdh, 'no compdb handler in ' + mod)
        for comp in comps:
            comp = comp.format(t=tool)
            in_shared = comp in unparse(gf.node)
            in_cd = all(comp in unparse(h.node) for h in cdh)
            ctx.ob(R, 'flag-component|{}|{}'.format(mod, comp),
                   in_shared and in_cd, gf.node,
                   'flag component {} is used by {}'.format(
                       comp, 'make/ninja only' if in_shared else
                       'compdb only' if in_cd else 'nobody'))
        # global options come from the same registry entry
        sel = ("build_inputs['compile_options'][compiler.lang]"
               if tool == 'compiler' else
               "build_inputs['link_options'][rule.base_mode][linker.family]")
        ctx.ob(R, 'gopts-source|' + mod, sel in unparse(gf.node) and all(
            sel in unparse(h.node) for h in cdh), gf.node,
            'global options are looked up differently in _get_flags and '
            'compdb')
        # order: global before per-target in compdb as in the variables
        for h in cdh:
            for n in ast.walk(h.node):
                if isinstance(n, ast.Assign) and unparse(
                        n.targets[0]) == "cmd_kwargs['flags']":
                    t = unparse(n.value)
                    a = t.find(tool + '.global_flags')
                    b_ = t.find("mode='global'")
                    c_ = t.find('rule.flags(gopts)')
                    ctx.ob(R, 'flag-order|' + h.fq, 0 <= a < b_ < c_, n,
                           'compdb concatenates flags in a different order '
                           'than global_flags + global options + target '
                           'options')

    # transform_input in all three (link, copy)
    for mod, arg in (('bfg9000.builtins.link', 'rule.files'),
                     ('bfg9000.builtins.copy_file', 'rule.file')):
        for b in ('make', 'ninja', 'compdb'):
            hs = {h.fq: h for c, h in reg.handlers[b].items()
                  if h.module.name == mod}
            for h in hs.values():
                ok = any(Q.callee_attr(x) == 'transform_input'
                         for x in Q.calls(h.node)) and \
                    "hasattr(" in unparse(h.node)
                ctx.ob(R, 'transform_input|' + h.fq, ok, h.node,
                       '{} does not apply the tool\'s transform_input'
                       .format(h.qualname))
    # command steps: same env/command expression
    K = 'bfg9000.builtins.command:'
    exprs = {}
    for b, fq in (('make', K + 'make_command'), ('ninja', K + 'ninja_command'),
                  ('compdb', K + 'compdb_copy_file')):
        f = repo.func(fq)
        hit = [x for x in Q.calls(f.node) if Q.callee_attr(x) == 'global_env']
        ok = len(hit) == 1 and [unparse(a) for a in hit[0].args] == [
            'rule.env', 'rule.cmds']
        ctx.ob(R, 'command-env|' + fq, ok, f.node,
               '{} does not run global_env(rule.env, rule.cmds)'.format(fq))
    G.env_export(ctx, R)
    # make/ninja `phony` and files
    fm = repo.func(K + 'make_command')
    fn_ = repo.func(K + 'ninja_command')
    okm = any(unparse(Q.kwarg(x, 'phony') or ast.Constant(0)) == 'rule.phony'
              for x in Q.calls(fm.node))
    okn = any(unparse(Q.kwarg(x, 'phony') or ast.Constant(0)) == 'rule.phony'
              for x in Q.calls(fn_.node))
    ctx.ob(R, 'command-phony', okm and okn, fm.node,
           'always-outdated flag is not forwarded by both backends')
    # compile: depfile agreement make/ninja/compdb under the gcc flavor
    Cm = 'bfg9000.builtins.compile:'
    for fq in (Cm + 'make_compile', Cm + 'ninja_compile',
               Cm + 'compdb_compile'):
        f = repo.func(fq)
        guarded = False
        for n in walk_no_nested(f.node):
            if isinstance(n, ast.If) and "deps_flavor == 'gcc'" in unparse(
                    n.test):
                if any("cmd_kwargs['deps']" in unparse(s) for s in n.body):
                    guarded = True
        ctx.ob(R, 'deps-kwarg-under-gcc-flavor|' + fq, guarded, f.node,
               'the depfile argument is not passed under the gcc deps '
               'flavor')
    # CompDB keeps every entry: a list, appended unconditionally, dumped whole
    cdb = repo.cls('bfg9000.backends.compdb.writer:CompDB')
    init = cdb.methods['__init__']
    ok = any(isinstance(n, ast.Assign) and unparse(n.targets[0]) ==
             'self._commands' and isinstance(n.value, ast.List)
             for n in ast.walk(init))
    ctx.ob(R, 'CompDB|commands-is-a-list', ok, init,
           'compile_commands entries are not kept in a list (entries with '
           'the same key would replace each other)')
    ap = cdb.methods['append']
    from ..cfg import EXIT, build as build_cfg
    g = build_cfg(ap)
    adds = [g.stmt_of(c) for c in Q.calls(ap, nested=False)
            if unparse(c) == 'self._commands.append(entry)']
    ok = len(adds) == 1 and g.must_pass(adds, EXIT)
    ctx.ob(R, 'CompDB.append|every-entry-kept', ok, ap,
           'an entry can be dropped or replace an earlier one')
    wr = cdb.methods['write']
    ok = any(unparse(c).startswith('json.dump(self._commands,')
             for c in Q.calls(wr))
    ctx.ob(R, 'CompDB.write|dumps-all', ok, wr, '')
    # compdb writes one entry per handled edge, others skipped silently
    w = repo.func('bfg9000.backends.compdb.writer:write')
    ok = 'if type(e) in _rule_handlers' in unparse(w.node) and \
        'build_inputs.edges()' in unparse(w.node)
    ctx.ob(R, 'compdb.write|visits-all-edges', ok, w.node,
           'compdb.write does not visit every edge')


def _dep_roots(h):
    ro = G.Roots(h.node)
    out = set()
    for c, k in G.emission_calls(h.node):
        if k not in G.DEP_ARGS:
            continue
        (o, op), deps, oos = G.DEP_ARGS[k]
        for nm, pos in deps:
            out |= ro.clean(G.call_arg(c, nm, pos))
    return out


def check(ctx):
    ctx.not_decided += [
        'equality of the evaluated command lines, working directories and '
        'environments across the three files']
    sibling(ctx)
