"""C08 -- Automatic regeneration equals a fresh configure, and converges.

Decided: REGEN-INPUTS, FIND-DIRS, CACHE-REPLAY (+ NULLABLE-ROUNDTRIP of the
saved configuration, shared with C09, because a field that changes across
save/load makes the regenerated file differ from a fresh configure).
Not decided: equality with a fresh configure over edit histories, mtime
orderings, the convergence claim.
"""
from ..rules import regen
from . import c09


def check(ctx):
    ctx.not_decided += [
        'equality of the regenerated files with a fresh configure over all '
        'edit histories', 'mtime orderings / convergence of a second run']
    regen.regen_inputs(ctx)
    regen.find_dirs(ctx)
    regen.cache_replay(ctx, check_order=True)
    c09.nullable_roundtrip(ctx)
    skip_decision(ctx)


def skip_decision(ctx):
    """Regeneration is skipped only when the fresh result would be
    identical: the lazy check compares every cached list, and a full
    regeneration starts from the saved initial variables."""
    import ast
    from ..index import unparse, walk_no_nested
    from .. import query as Q
    R = 'SKIP-ONLY-IF-IDENTICAL'
    ctx.rule(R, 'the lazy-skip decision compares both the found and the '
             'extra list of every cached filter and is taken only for lazy '
             'regenerations; a regeneration resets the variables before the '
             'toolchain file is replayed')
    repo = ctx.repo
    f = repo.func('bfg9000.builtins.find:find_check_cache')
    upd = [n for n in ast.walk(f.node) if isinstance(n, ast.Assign) and
           unparse(n.targets[0]) == 'regenerate' and
           'results[0] != found' in unparse(n.value) and
           'results[1] != extra' in unparse(n.value) and
           'regenerate or' in unparse(n.value)]
    ctx.ob(R, 'find_check_cache|compares-found-and-extra', len(upd) == 1,
           f.node, 'a change that only affects the extra (dist-only) matches '
           'does not trigger a regeneration')
    loops = [n for n in walk_no_nested(f.node) if isinstance(n, ast.For) and
             unparse(n.iter) == 'old_cache.items()']
    ctx.ob(R, 'find_check_cache|all-cached-filters', len(loops) == 1, f.node,
           'not every cached filter is re-checked')
    lt = repo.func('bfg9000.build:load_toolchain')
    branch = [n for n in walk_no_nested(lt.node) if isinstance(n, ast.If) and
              unparse(n.test) == 'regenerating']
    ok = len(branch) == 1 and any(unparse(s_) == 'env.reload()'
                                  for s_ in branch[0].body)
    ctx.ob(R, 'load_toolchain|reload-when-regenerating', ok, lt.node,
           'stale toolchain settings survive a regeneration')
