"""C08 -- Automatic regeneration equals a fresh configure, and converges.

Decided: REGEN-INPUTS, FIND-DIRS, CACHE-REPLAY (+ NULLABLE-ROUNDTRIP of the
saved configuration, shared with C09, because a field that changes across
save/load makes the regenerated file differ from a fresh configure).
Not decided: equality with a fresh configure over edit histories, mtime
orderings, the convergence claim.
"""
from ..rules import regen
from . import c09


def check(ctx):
    ctx.not_decided += [
        'equality of the regenerated files with a fresh configure over all '
        'edit histories', 'mtime orderings / convergence of a second run']
    regen.regen_inputs(ctx)
    regen.find_dirs(ctx)
    regen.cache_replay(ctx)
    c09.nullable_roundtrip(ctx)
