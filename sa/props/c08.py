"""C08 -- Automatic regeneration equals a fresh configure, and converges.

Decided: REGEN-INPUTS, FIND-DIRS, CACHE-REPLAY (+ NULLABLE-ROUNDTRIP of the
saved configuration, shared with C09, because a field that changes across
save/load makes the regenerated file differ from a fresh configure).
Not decided: equality with a fresh configure over edit histories, mtime
orderings, the convergence claim.
"""
from ..rules import regen
from . import c09


def check(ctx):
    ctx.not_decided += [
        'equality of the regenerated files with a fresh configure over all '
        'edit histories', 'mtime orderings / convergence of a second run']
    regen.regen_inputs(ctx)
    regen.find_dirs(ctx)
    regen.cache_replay(ctx, check_order=True)
    c09.nullable_roundtrip(ctx)
    skip_decision(ctx)


def skip_decision(ctx):
    """Regeneration is skipped only when the fresh result would be
    identical: the lazy check compares every cached list, and a full
    regeneration starts from the saved initial variables."""
    import ast
    from ..facts import has, has_call, param_of
    from ..index import walk_no_nested
    from ..rules.regen import _allocs, _facts
    R = 'SKIP-ONLY-IF-IDENTICAL'
    ctx.rule(R, 'the decision to abort a lazy regeneration depends on a '
             'comparison of both the found and the extra list of every '
             'cached filter with a fresh walk, and is taken only for lazy '
             'regenerations; a regeneration reloads the saved variables '
             'before the toolchain file is replayed; skipping requires that no '
             'input is newer than the oldest output')
    F = _facts(ctx)
    f = F.fn('bfg9000.builtins.find:find_check_cache')
    raises = [n for n in walk_no_nested(f.node) if isinstance(n, ast.Raise)]
    ctl = set()
    for n in raises:
        ctl |= F.control(n, f)
    adds = [e for e in F.calls_to(f, 'add', depth=1)
            if has(e.recv(), "['find_cache']")]
    a1 = a2 = set()
    for e in adds:
        a1 = _allocs(e.arg(1, kw='found')) - _allocs(e.arg(2, kw='extra'))
        a2 = _allocs(e.arg(2, kw='extra')) - _allocs(e.arg(1, kw='found'))
    ok = bool(raises) and bool(a1 & ctl) and bool(a2 & ctl) and \
        has_call(ctl, 'load')
    ctx.ob(R, 'find_check_cache|compares-found-and-extra', ok, f.node,
           'the skip decision does not depend on both freshly walked lists '
           '(included and not_now paths) and the saved cache: a change that '
           'only affects one of them does not trigger a regeneration')
    walks = F.calls_to(f, '_find_files', depth=2)
    ok = bool(walks) and all(has_call(e.arg(1), 'load') for e in walks)
    ctx.ob(R, 'find_check_cache|all-cached-filters', ok, f.node,
           'the re-check does not walk the filters of the saved cache')
    ok = bool(raises) and all(any(
        op in ('Is', 'Eq') and (has(l, 'Regenerating', 'lazy') or
                                has(r, 'Regenerating', 'lazy'))
        for op, l, r in F.guard_compares(n, f)) for n in raises)
    ctx.ob(R, 'find_check_cache|only-when-lazy', ok, f.node,
           'a non-lazy regeneration can be aborted')

    # skipping also requires that no recorded input is newer than the
    # *oldest* recorded output (an output left behind by an interrupted
    # run must not vouch for the others)
    def newer(op, l, r):
        a = has_call(l, 'max') and has(l, 'inputs') and has_call(
            r, 'min') and has(r, 'outputs')
        b = has_call(r, 'max') and has(r, 'inputs') and has_call(
            l, 'min') and has(l, 'outputs')
        # every recorded output takes part: a missing output (strict=False
        # makes it infinitely old) must not be filtered out of the minimum
        if has_call(l, 'if') or has_call(r, 'if'):
            return False
        return op == 'LtE' and a or op == 'GtE' and b
    ok = bool(raises) and all(any(newer(op, l, r) for op, l, r in
                                  F.guard_compares(n, f)) for n in raises)
    ctx.ob(R, 'find_check_cache|newest-input-vs-oldest-output', ok, f.node,
           'the skip decision does not compare the newest input with the '
           'oldest output')
    lt = F.fn('bfg9000.build:load_toolchain')
    rl = F.calls_to(lt, 'reload', depth=1)
    ok = bool(rl) and all(param_of(e.recv(), 'env') and param_of(
        e.control(), 'regenerating') for e in rl) and all(
        any(pos and param_of(F.atoms(t, f_, b_), 'regenerating')
            for t, pos, f_, b_ in F.guard_leaves(e.call, e.fn, e.bind))
        for e in rl)
    ctx.ob(R, 'load_toolchain|reload-when-regenerating', ok, lt.node,
           'stale toolchain settings survive a regeneration')
    for fq in ('bfg9000.builtins.find:write_depfile',
               'bfg9000.builtins.find:find_check_cache',
               'bfg9000.builtins.find:find_from_filter',
               'bfg9000.builtins.find:_find_files',
               'bfg9000.builtins.regenerate:_inputs',
               'bfg9000.builtins.regenerate:_outputs'):
        fn = F.fn(fq)
        bad = F.gen_reuse(fn)
        ctx.ob('GEN-REUSE', fq, not bad, bad[0][2] if bad else fn.node,
               'the one-shot iterator `{}` is consumed twice: the second '
               'consumer sees nothing'.format(bad[0][0] if bad else ''))
    ctx.rule('GEN-REUSE', 'no local bound to a generator / one-shot '
             'iterator is consumed at two sites where one can run after '
             'the other')
