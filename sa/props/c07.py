"""C07 -- Real-toolchain builds are incremental and survive header changes.

Decided (necessary wiring only): DEPFILE-WIRING -- if the cc compiler emits
`-MMD -MF <deps>` then, under the same gcc deps flavor, the make handler passes
deps, post-processes the depfile, includes it optionally and registers it for
clean; ninja sets deps=gcc + depfile; the suffix agrees at all sites;
DEPFIX-TABLE -- the depfixer state machine (evaluated symbolically per
(state, token) pair) terminates every dependency with ":\\n" and echoes no
target; clean removes build_inputs.targets().
Not decided: what the real compiler writes, Make re-reading the fixed file,
arbitrary edit histories -- the bulk of the property.
"""
import ast

from ..consteval import EnumMember, const_eval, enum_members, fold_test
from ..index import AnalysisError, unparse, walk_no_nested
from .. import query as Q

CP = 'bfg9000.builtins.compile:'
CC = 'bfg9000.tools.cc.compiler:CcBaseCompiler'


def _under_gcc_flavor(node):
    child = node
    n = getattr(node, '_parent', None)
    while n is not None:
        if isinstance(n, ast.If) and "deps_flavor == 'gcc'" in unparse(
                n.test) and any(child is s for s in n.body):
            return True
        child = n
        n = getattr(n, '_parent', None)
    return False


def depfile_wiring(ctx):
    R = 'DEPFILE-WIRING'
    ctx.rule(R, 'compiler-generated depfiles are wired end to end: -MMD -MF '
             'emitted when deps are passed; make passes deps, runs the '
             'depfixer on the file, includes it optionally and registers it '
             'as a target (clean); ninja sets deps=gcc and depfile; one '
             'suffix at all sites; all under the gcc deps flavor')
    repo = ctx.repo
    call = repo.method(CC, '_call')
    t = unparse(call.node)
    ok = any(isinstance(n, ast.If) and unparse(n.test) == 'deps' and
             "result.extend(['-MMD', '-MF', deps])" in unparse(n)
             for n in walk_no_nested(call.node))
    ctx.ob(R, 'CcBaseCompiler._call|-MMD -MF deps', ok, call.node,
           'the compiler is not asked to write a depfile when deps is '
           'given')
    # deps_flavor evaluated per concrete cc compiler class and C-family
    # language: must be 'gcc' (so -MMD -MF, depfixer and -include apply to
    # ordinary compilation *and* to precompiled headers)
    from ..consteval import UNKNOWN, subst_eval
    base = repo.cls(CC)
    n_eval = 0
    for ci in sorted(base.subclasses(), key=lambda c: c.fq):
        o, langs = ci.find_attr('_langs')
        if langs is None:
            continue
        table = const_eval(repo, o.module, langs, o)
        if not isinstance(table, dict):
            continue
        oo, fl = ci.find_method('deps_flavor')
        rets = Q.returns(fl)
        Q.require(len(rets) == 1, 'deps_flavor: single return expected')
        for lang in sorted(table):
            if lang not in ('c', 'c++', 'objc', 'objc++'):
                continue
            n_eval += 1
            v = subst_eval(repo, oo.module, rets[0].value,
                           {'self.lang': lang, 'self._langs': table}, oo)
            ctx.ob(R, 'deps_flavor|{}|{}'.format(ci.name, lang), v == 'gcc',
                   fl, '{}.deps_flavor evaluates to {!r} for language {} '
                   '(expected \'gcc\'): no depfile is generated, header '
                   'changes do not rebuild'.format(ci.name, v, lang))
    ctx.require_min(R, n_eval, 8, 'deps_flavor evaluations')
    mk = repo.func(CP + 'make_compile')
    # (1) deps kwarg
    a = [n for n in ast.walk(mk.node) if isinstance(n, ast.Assign) and any(
        unparse(t_) == "cmd_kwargs['deps']" for t_ in n.targets)]
    ok = len(a) == 1 and _under_gcc_flavor(a[0])
    ctx.ob(R, 'make_compile|deps-kwarg', ok, mk.node,
           'make does not pass a depfile name to the compiler')
    suffixes = set()
    if a:
        for c in ast.walk(a[0].value):
            if isinstance(c, ast.Constant) and isinstance(c.value, str):
                suffixes.add(('make-kwarg', c.value))
    # (2) depfixer appended to the recipe
    rx_ = [n for n in ast.walk(mk.node) if isinstance(n, ast.Assign) and
           unparse(n.targets[0]) == 'recipe_extra' and 'depfixer(deps)' in
           unparse(n.value)]
    ok = len(rx_) == 1 and _under_gcc_flavor(rx_[0])
    defs = [c for c in Q.calls(mk.node) if unparse(c.func) ==
            'buildfile.define']
    ok = ok and len(defs) == 1 and 'recipe_extra' in unparse(defs[0])
    ctx.ob(R, 'make_compile|depfixer-in-recipe', ok, mk.node,
           'the depfile is not post-processed by the depfixer in the '
           'compile recipe')
    # same variable used for -MF and depfixer
    if a and rx_:
        tg = [unparse(t_) for t_ in a[0].targets]
        ctx.ob(R, 'make_compile|depfixer-on-same-file', 'deps' in tg, a[0],
               'depfixer processes a different file than the compiler '
               'writes')
    # (3) include optional, (4) add_target
    inc = [c for c in Q.calls(mk.node) if unparse(c.func) ==
           'buildfile.include']
    ok = len(inc) == 1 and _under_gcc_flavor(inc[0]) and unparse(
        Q.kwarg(inc[0], 'optional') or ast.Constant(False)) == 'True' and \
        unparse(inc[0].args[0]) == 'depfile'
    ctx.ob(R, 'make_compile|include-optional', ok, mk.node,
           'the per-object depfile is not included with optional=True (a '
           'missing depfile must not stop the build)')
    at = [c for c in Q.calls(mk.node) if unparse(c.func) ==
          'build_inputs.add_target']
    ok = len(at) == 1 and _under_gcc_flavor(at[0]) and 'depfile' in unparse(
        at[0])
    ctx.ob(R, 'make_compile|depfile-is-clean-target', ok, mk.node,
           'the depfile is not registered as a target (clean would leave '
           'it behind)')
    df = [n for n in ast.walk(mk.node) if isinstance(n, ast.Assign) and
          unparse(n.targets[0]) == 'depfile']
    if df:
        for c in ast.walk(df[0].value):
            if isinstance(c, ast.Constant) and isinstance(c.value, str):
                suffixes.add(('make-include', c.value))
        ok = 'rule.output[0].path.addext(' in unparse(df[0].value)
        ctx.ob(R, 'make_compile|depfile-next-to-first-output', ok, df[0],
               'depfile name is not derived from the first output')
    # the include operand is written as a Make target name (escaped spaces,
    # '#', ...): reuse the emission-site analysis of C04
    from ..rules import escape as E
    table, members = E.escape_table(repo, E.MAKE_SYN)
    sites = E.emission_sites(ctx, [E.MAKE_SYN + ':Makefile.write'],
                             E.MAKE_SYN, members, E.classify_make)
    inc_sites = [s_ for s_ in sites if 'i.name' in unparse(s_[1].node)]
    ok = len(inc_sites) == 1 and inc_sites[0][1].syntaxes == {'target'}
    ctx.ob(R, 'Makefile.write|include-operand-is-a-target-name', ok, None,
           'the depfile named by -include is not written with '
           'Syntax.target: a path with a space or # names a different file '
           'and the optional include is silently skipped')
    # Makefile.include writes -include for optional
    w = repo.method('bfg9000.backends.make.syntax:Makefile', 'write')
    ok = "('-' if i.optional else '') + 'include '" in unparse(w.node)
    ctx.ob(R, 'Makefile.write|-include', ok, w.node,
           'optional includes are not written as -include')
    # ninja
    nj = repo.func(CP + 'ninja_compile')
    a2 = [n for n in ast.walk(nj.node) if isinstance(n, ast.Assign) and any(
        unparse(t_) == "cmd_kwargs['deps']" for t_ in n.targets) and
        _under_gcc_flavor(n)]
    ok = len(a2) == 1 and 'depfile' in [unparse(t_) for t_ in a2[0].targets]
    ctx.ob(R, 'ninja_compile|deps-kwarg=depfile', ok, nj.node,
           'ninja rule depfile and the compiler -MF argument differ')
    if a2:
        for c in ast.walk(a2[0].value):
            if isinstance(c, ast.Constant) and isinstance(c.value, str):
                suffixes.add(('ninja', c.value))
    d2 = [n for n in ast.walk(nj.node) if isinstance(n, ast.Assign) and
          unparse(n.targets[0]) == 'deps' and unparse(n.value) == "'gcc'" and
          _under_gcc_flavor(n)]
    ctx.ob(R, 'ninja_compile|deps=gcc', len(d2) == 1, nj.node,
           'ninja rule does not set deps = gcc')
    rl = [c for c in Q.calls(nj.node) if unparse(c.func) == 'buildfile.rule']
    ok = len(rl) == 1 and unparse(Q.kwarg(rl[0], 'depfile')) == 'depfile' \
        and unparse(Q.kwarg(rl[0], 'deps')) == 'deps'
    ctx.ob(R, 'ninja_compile|rule-gets-depfile+deps', ok, nj.node,
           'the ninja rule does not receive depfile/deps')
    cd = repo.func(CP + 'compdb_compile')
    for n in ast.walk(cd.node):
        if isinstance(n, ast.Assign) and any(
                unparse(t_) == "cmd_kwargs['deps']" for t_ in n.targets) \
                and _under_gcc_flavor(n):
            for c in ast.walk(n.value):
                if isinstance(c, ast.Constant) and isinstance(c.value, str) \
                        and c.value.startswith('.'):
                    suffixes.add(('compdb', c.value))
    vals = {v for k, v in suffixes if v.startswith('.')}
    ctx.ob(R, 'depfile-suffix-agreement', len(vals) == 1 and len(
        suffixes) >= 4, mk.node, 'depfile suffix differs between sites: {}'
        .format(sorted(suffixes)))
    # depfixer tool: reads the file and appends to it
    dx = repo.method('bfg9000.tools.internal:Depfixer', '_call')
    ok = "cmd + [shell_literal('<'), depfile, shell_literal('>>'), depfile]" \
        in unparse(dx.node)
    ctx.ob(R, 'Depfixer._call|reads-and-appends-same-file', ok, dx.node,
           'depfixer does not append its output to the depfile it read')
    # clean
    cl = repo.func('bfg9000.builtins.clean:make_clean_rule')
    ok = 'rm((i.path for i in build_inputs.targets()))' in unparse(
        cl.node)
    ctx.ob(R, 'make_clean_rule|removes-all-targets', ok, cl.node,
           'clean does not remove every registered target')
    tg = repo.method('bfg9000.build_inputs:BuildInputs', 'targets')
    t = unparse(Q.returns(tg.node)[0].value)
    ok = 'i.output for i in self._edges' in t and \
        'self._extra_targets' in t
    ctx.ob(R, 'BuildInputs.targets|outputs+extra', ok, tg.node,
           'targets() is {}'.format(t))
    at = repo.method('bfg9000.build_inputs:BuildInputs', 'add_target')
    ok = 'self._extra_targets.append(target)' in unparse(at.node)
    ctx.ob(R, 'BuildInputs.add_target|appends', ok, at.node, '')


def depfix_table(ctx):
    R = 'DEPFIX-TABLE'
    ctx.rule(R, 'the depfixer state machine, evaluated symbolically for '
             'every (state, token) pair: every dependency name is echoed and '
             'terminated by ":\\n" (so every dependency is also a target), '
             'no target name is echoed, truncated input is rejected')
    repo = ctx.repo
    f = repo.func('bfg9000.depfixer:emit_deps')
    m = f.module
    states = enum_members(repo, m, 'State')
    toks = enum_members(repo, m, 'Token')
    loops = [n for n in walk_no_nested(f.node) if isinstance(n, ast.For)]
    Q.require(len(loops) == 1, 'emit_deps: token loop not found')
    table = {}

    def run(body, env):
        acts = []
        for st in body:
            if isinstance(st, ast.If):
                t = fold_test(repo, m, st.test, None, env)
                if t is None:
                    raise AnalysisError('emit_deps: cannot fold ' +
                                        unparse(st.test))
                acts += run(st.body if t else st.orelse, env)
            elif isinstance(st, ast.Assign) and unparse(
                    st.targets[0]) == 'state':
                v = const_eval(repo, m, st.value)
                acts.append(('state', v.name if isinstance(
                    v, EnumMember) else '?'))
            elif isinstance(st, ast.Expr) and isinstance(
                    st.value, ast.Call) and Q.callee_attr(
                        st.value) == 'write':
                a = st.value.args[0]
                v = const_eval(repo, m, a)
                acts.append(('write', v if isinstance(v, str)
                             else unparse(a)))
            elif isinstance(st, ast.Raise):
                acts.append(('raise',))
            elif isinstance(st, ast.Pass):
                pass
            else:
                raise AnalysisError('emit_deps: unsupported statement ' +
                                    type(st).__name__)
        return acts

    for s in states:
        for t in toks:
            env = {'state': EnumMember(m.name + ':State', s),
                   'tok': EnumMember(m.name + ':Token', t)}
            table[(s, t)] = run(loops[0].body, env)
    ctx.stat('depfixer_transitions', {
        '{}/{}'.format(s, t): [list(a) for a in acts]
        for (s, t), acts in sorted(table.items())})
    Q.require('dep' in states and 'target' in states, 'State members')
    for (s, t), acts in sorted(table.items()):
        writes = [a[1] for a in acts if a[0] == 'write']
        new = [a[1] for a in acts if a[0] == 'state']
        raises = any(a[0] == 'raise' for a in acts)
        nxt = new[-1] if new else s
        if s == 'dep' and nxt != 'dep' and not raises:
            ctx.ob(R, '{}/{}|dep-terminated'.format(s, t),
                   writes == [':\n'], f.node,
                   'leaving a dependency name on {} writes {} instead of '
                   '":\\n": the dependency does not become a target'.format(
                       t, writes))
        if t == 'char' and nxt == 'dep' and not raises:
            ctx.ob(R, '{}/{}|dep-name-echoed'.format(s, t),
                   writes == ['value'], f.node,
                   'a character of a dependency name is not echoed')
        if s in ('target', 'between_targets') and nxt != 'dep':
            ctx.ob(R, '{}/{}|targets-not-echoed'.format(s, t), not writes,
                   f.node, 'text of the original target is echoed')
        if s in ('target', 'between_targets') and t == 'char':
            ctx.ob(R, '{}/{}|stays-left-of-colon'.format(s, t),
                   nxt == 'target', f.node, '')
        if t == 'colon' and s in ('target', 'between_targets'):
            ctx.ob(R, '{}/{}|colon-starts-deps'.format(s, t),
                   nxt == 'between_deps', f.node,
                   'the colon does not start the dependency list')
        if t == 'colon' and s in ('dep', 'between_deps'):
            ctx.ob(R, '{}/{}|second-colon-rejected'.format(s, t), raises,
                   f.node, 'a second unescaped colon is accepted')
    # end of file
    tail = [n for n in f.node.body if isinstance(n, ast.If) and
            'state != State.target' in unparse(n.test) and any(
                isinstance(x, ast.Raise) for x in n.body)]
    ctx.ob(R, 'eof|truncated-input-rejected', len(tail) == 1, f.node,
           'a truncated depfile is accepted silently')
    # tokenizer: escaped newline swallowed, backslash kept with next char
    tk = repo.func('bfg9000.depfixer:tokenize')
    t = unparse(tk.node)
    ok = "if c != '\\n':" in t and "yield (Token.char, '\\\\')" in t
    ctx.ob(R, 'tokenize|escapes', ok, tk.node,
           'backslash escapes are not passed through / continuation lines '
           'not swallowed')


def check(ctx):
    ctx.not_decided += [
        'what the real compiler writes into the depfile and whether '
        'depfixer.tokenize agrees with it',
        'that Make re-reads the fixed file correctly; behaviour over '
        'arbitrary histories of header edits, deletions and renames']
    depfile_wiring(ctx)
    depfix_table(ctx)
