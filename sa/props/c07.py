"""C07 -- Real-toolchain builds are incremental and survive header changes.

Decided (necessary wiring only): DEPFILE-WIRING -- if the cc compiler emits
`-MMD -MF <deps>` then, under the same gcc deps flavor, the make handler passes
deps, post-processes the depfile, includes it optionally and registers it for
clean; ninja sets deps=gcc + depfile; the suffix agrees at all sites;
DEPFIX-TABLE -- the depfixer state machine (evaluated symbolically per
(state, token) pair) terminates every dependency with ":\\n" and echoes no
target; clean removes build_inputs.targets().
Not decided: what the real compiler writes, Make re-reading the fixed file,
arbitrary edit histories -- the bulk of the property.
"""
import ast
import re

from ..consteval import EnumMember, const_eval, enum_members, fold_test
from ..facts import Facts, direct, has, has_call, has_const, param_of
from ..index import AnalysisError, unparse, walk_no_nested
from .. import query as Q

CP = 'bfg9000.builtins.compile:'
CC = 'bfg9000.tools.cc.compiler:CcBaseCompiler'


def _facts(ctx):
    f = getattr(ctx, '_facts', None)
    if f is None:
        f = ctx._facts = Facts(ctx.repo)
    return f


def _gcc(F, node, fn, bind=None):
    """`node` executes only when <compiler>.deps_flavor == 'gcc'."""
    return any(op == 'Eq' and (has(l, 'deps_flavor') and has_const(r, 'gcc')
                               or has(r, 'deps_flavor') and
                               has_const(l, 'gcc'))
               for op, l, r in F.guard_compares(node, fn, bind))


class _Site:
    """A statement found in a handler or in a helper it calls: the node,
    its function/binding and the call path leading there."""
    def __init__(self, node, fn, bind, path, atoms=None):
        self.node, self.call, self.fn, self.bind = node, node, fn, bind
        self.path = path + ((fn, node),)
        self.atoms = atoms


def _gcc_at(F, site):
    """The site (an Effect or a _Site) executes only under the gcc deps
    flavor: the test guards it, or guards a call on the path to it."""
    return any(_gcc(F, n, f) for f, n in site.path)


def _item_stores(F, fn, key):
    """`<x>[key] = value` stores in fn and the helpers of its module it
    calls: [_Site] (atoms = value atoms). Iterating yields (node, atoms)
    for the older callers."""
    out = []
    for g, b, path in F.frames_p(fn, 1):
        if g.module is not fn.module:
            continue
        for n in walk_no_nested(g.node):
            if isinstance(n, ast.Assign):
                for t in n.targets:
                    if isinstance(t, ast.Subscript) and F.flow.const_keys(
                            t.slice, g, b) == [key]:
                        out.append(_Site(n, g, b, path,
                                         F.atoms(n.value, g, b)))
    return out


def _suffixes(atoms):
    out = set()
    for a in atoms:
        if a.startswith("const:'."):
            out.add(a[7:-1])
        for m in re.finditer(r"addext\('(\.[A-Za-z0-9]+)'\)", a):
            out.add(m.group(1))
    return out


def depfile_wiring(ctx):
    R = 'DEPFILE-WIRING'
    ctx.rule(R, 'compiler-generated depfiles are wired end to end: -MMD -MF '
             'emitted when deps are passed; make passes deps, runs the '
             'depfixer on the file, includes it optionally and registers it '
             'as a target (clean); ninja sets deps=gcc and depfile; one '
             'suffix at all sites; all under the gcc deps flavor; one include '
             'per object')
    repo = ctx.repo
    F = _facts(ctx)
    call = F.fn(CC + '._call')
    # the flag literals may sit in _call or in a private helper of it
    mf = [(n, g, b) for g, b in F.frames(call, 0)
          for n in F.consts(g, lambda v: v == '-MF')]
    r = F.returns(call)
    ok = bool(mf) and all(param_of(F.control(n, g, b), 'deps')
                          for n, g, b in mf) \
        and has_const(r, '-MF') and has_const(r, '-MMD') and \
        param_of(r, 'deps')
    ctx.ob(R, 'CcBaseCompiler._call|-MMD -MF deps', ok, call.node,
           'the compiler is not asked to write a depfile when deps is '
           'given')
    # deps_flavor evaluated per concrete cc compiler class and C-family
    # language: must be 'gcc' (so -MMD -MF, depfixer and -include apply to
    # ordinary compilation *and* to precompiled headers)
    from ..absint import Interp, Undecided
    from ..consteval import UNKNOWN, subst_eval
    base = repo.cls(CC)
    n_eval = 0
    for ci in sorted(base.subclasses(), key=lambda c: c.fq):
        o, langs = ci.find_attr('_langs')
        if langs is None:
            continue
        table = const_eval(repo, o.module, langs, o)
        if not isinstance(table, dict):
            continue
        oo, fl = ci.find_method('deps_flavor')
        rets = Q.returns(fl)
        for lang in sorted(table):
            if lang not in ('c', 'c++', 'objc', 'objc++'):
                continue
            n_eval += 1
            vals = set()
            for r in rets:
                v = subst_eval(repo, oo.module, r.value,
                               {'self.lang': lang, 'self._langs': table}, oo)
                # the return is taken only if its guards fold to true
                taken = True
                for t, pos in F.guards_pol(r, fl._func):
                    tv = subst_eval(repo, oo.module, t, {
                        'self.lang': lang, 'self._langs': table}, oo)
                    if tv is UNKNOWN:
                        taken = None
                        break
                    if bool(tv) != pos:
                        taken = False
                        break
                if taken is None:
                    vals.add(UNKNOWN)
                elif taken:
                    vals.add(v)
            ctx.ob(R, 'deps_flavor|{}|{}'.format(ci.name, lang),
                   vals == {'gcc'}, fl,
                   '{}.deps_flavor evaluates to {!r} for language {} '
                   '(expected \'gcc\'): no depfile is generated, header '
                   'changes do not rebuild'.format(ci.name, sorted(
                       map(repr, vals)), lang))
    ctx.ob(R, 'deps_flavor|evaluations', n_eval >= 8, base.node,
           'only {} (compiler class, language) pairs could be '
           'evaluated'.format(n_eval))
    mk = F.fn(CP + 'make_compile')
    suffixes = set()
    # (1) deps kwarg
    def own(e):
        return e.fn.module is mk.module
    a = _item_stores(F, mk, 'deps')
    ok = bool(a) and all(_gcc_at(F, st) for st in a)
    comp = [e for e in F.effects(mk, lambda e: own(e) and has(
        e.heads(), 'rule.compiler'), depth=1)
            if any(k.arg is None for k in e.call.keywords) or
            Q.kwarg(e.call, 'deps') is not None]
    ok = ok and bool(comp)
    ctx.ob(R, 'make_compile|deps-kwarg', ok, mk.node,
           'make does not pass a depfile name to the compiler (under the '
           'gcc deps flavor)')
    deps_atoms = set()
    for st in a:
        deps_atoms |= st.atoms
        suffixes |= {('make-kwarg', x) for x in _suffixes(st.atoms)}
    # (2) depfixer appended to the recipe
    fix = [e for e in F.effects(mk, lambda e: own(e) and e.callee_is(
        "tool('depfixer')"), depth=1)]
    ok = bool(fix) and all(_gcc_at(F, e) for e in fix) and all(
        all(has(F.atoms(t, f_), 'deps_flavor') or
            has_call(F.atoms(t, f_), 'has_variable')
            for f_, n_ in e.path for t in F.guards(n_, f_)) for e in fix)
    defs = [e for e in F.calls_to(mk, 'define', depth=1) if own(e)]
    ok = ok and bool(defs) and any(
        any("tool('depfixer')(" in x for x in e.all_args()) and
        has(e.all_args(), 'rule.compiler') for e in defs)
    ctx.ob(R, 'make_compile|depfixer-in-recipe', ok, mk.node,
           'the depfile is not post-processed by the depfixer in the '
           'compile recipe')
    if a and fix:
        same = all(direct(deps_atoms) <= direct(e.arg(0)) for e in fix)
        ctx.ob(R, 'make_compile|depfixer-on-same-file', same, mk.node,
               'depfixer processes a different file than the compiler '
               'writes')
    # (3) include optional, (4) add_target
    inc = [e for e in F.calls_to(mk, 'include', depth=1) if own(e)]
    ok = bool(inc) and all(
        _gcc_at(F, e) and e.kw_const('optional') is True and
        has(e.arg(0), 'rule.output[0]', 'path', 'addext()') for e in inc)
    ctx.ob(R, 'make_compile|include-optional', ok, mk.node,
           'the per-object depfile (next to the first output) is not '
           'included with optional=True (a missing depfile must not stop '
           'the build)')
    # one include per object: the only condition is the deps flavor (the
    # recipe is defined once per compiler, the depfile is per edge)
    ok = bool(inc) and all(
        all(has(F.atoms(t, f_), 'deps_flavor')
            for f_, n_ in e.path for t in F.guards(n_, f_)) for e in inc)
    ctx.ob(R, 'make_compile|include-per-object', ok, mk.node,
           'the depfile is included only under a further condition (e.g. '
           'the define-the-recipe-once test): later objects of the same '
           'compiler never get their depfile read back')
    for e in inc:
        suffixes |= {('make-include', x) for x in _suffixes(e.arg(0))}
    at = [e for e in F.calls_to(mk, 'add_target', depth=1) if own(e)]
    ok = bool(at) and bool(inc) and all(
        _gcc_at(F, e) and
        {x for x in e.arg(0) if 'addext(' in x} and
        {x.replace('via:', '') for x in e.arg(0) if 'addext(' in x} ==
        {x for i_ in inc for x in i_.arg(0) if 'addext(' in x}
        for e in at)
    ctx.ob(R, 'make_compile|depfile-is-clean-target', ok, mk.node,
           'the depfile is not registered as a target (clean would leave '
           'it behind)')
    # the include operand is written as a Make target name
    w = F.fn('bfg9000.backends.make.syntax:Makefile.write')
    ws = [e for e in F.effects(w, lambda e: e.name == 'write', depth=1)
          if has(e.arg(0), '_includes')]
    ok = bool(ws) and all(has(e.arg(1, kw='syntax'), 'Syntax', 'target')
                          for e in ws)
    ctx.ob(R, 'Makefile.write|include-operand-is-a-target-name', ok, w.node,
           'the depfile named by -include is not written with '
           'Syntax.target: a path with a space or # names a different file '
           'and the optional include is silently skipped')
    dash = F.consts(w, lambda v: v in ('-', '-include ', '-include'))
    lits = [e for e in F.effects(w, lambda e: e.name == 'write_literal',
                                 depth=1)
            if any('include' in x for x in e.arg(0)
                   if x.startswith('const:'))]
    # the dash is chosen per include entry (its `optional` field, however
    # the entry is taken apart)
    ok = all(has(F.control(n, w), '_includes') for n in dash) and \
        bool(lits) and all(has(e.control(), '_includes') for e in lits) and \
        any(has_const(e.arg(0), '-') or has_const(e.arg(0), '-include ')
            for e in lits)
    ctx.ob(R, 'Makefile.write|-include', ok, w.node,
           'optional includes are not written as -include')
    # ninja
    nj = F.fn(CP + 'ninja_compile')
    a2 = [(st.node, st.atoms) for st in _item_stores(F, nj, 'deps')
          if _gcc_at(F, st)]
    rl = [e for e in F.calls_to(nj, 'rule', depth=1)
          if e.fn.module is nj.module]
    depfile_kw = set()
    for e in rl:
        depfile_kw |= e.arg(kw='depfile')
    ok = bool(a2) and bool(rl) and all(
        {x for x in direct(v) if not x.startswith('const:None')} <=
        direct(depfile_kw) and bool(direct(v)) for n, v in a2)
    ctx.ob(R, 'ninja_compile|deps-kwarg=depfile', ok, nj.node,
           'ninja rule depfile and the compiler -MF argument differ')
    for n, v in a2:
        suffixes |= {('ninja', x) for x in _suffixes(v)}
    ok = bool(rl) and all(has_const(e.arg(kw='deps'), 'gcc') and
                          has_const(e.arg(kw='deps'), None) for e in rl)
    gcc_sets = []
    for g, b, path in F.frames_p(nj, 1):
        if g.module is nj.module:
            gcc_sets += [_Site(n, g, b, path) for n in walk_no_nested(g.node)
                         if isinstance(n, ast.Assign) and isinstance(
                             n.value, ast.Constant) and
                         n.value.value == 'gcc']
    ok = ok and bool(gcc_sets) and all(_gcc_at(F, st) for st in gcc_sets)
    ctx.ob(R, 'ninja_compile|deps=gcc', ok, nj.node,
           'ninja rule does not set deps = gcc (under the gcc flavor only)')
    ok = bool(rl) and all(e.kw_exprs('depfile') and e.kw_exprs('deps')
                          for e in rl)
    ctx.ob(R, 'ninja_compile|rule-gets-depfile+deps', ok, nj.node,
           'the ninja rule does not receive depfile/deps')
    cd = F.fn(CP + 'compdb_compile')
    for st in _item_stores(F, cd, 'deps'):
        if _gcc_at(F, st):
            suffixes |= {('compdb', x) for x in _suffixes(st.atoms)}
    vals = {v for k, v in suffixes}
    ctx.ob(R, 'depfile-suffix-agreement', len(vals) == 1 and len(
        {k for k, v in suffixes}) >= 4, mk.node,
        'depfile suffix differs between sites: {}'.format(sorted(suffixes)))
    # stamp files of multi-output rules are cleaned unless the caller opts
    # out
    mt = F.fn('bfg9000.backends.make.writer:multitarget_rule')
    d = Q.param_default(mt.node, 'clean_stamp')
    ats = F.calls_to(mt, 'add_target', depth=1)
    ok = isinstance(d, ast.Constant) and d.value is True and bool(ats) and \
        all(param_of(e.control(), 'clean_stamp') for e in ats)
    ctx.ob(R, 'multitarget_rule|stamp-is-clean-target-by-default', ok,
           mt.node, 'the stamp file of a multi-output rule is not '
           'registered for clean by default')
    # depfixer tool: reads the file and appends to it
    dx = F.fn('bfg9000.tools.internal:Depfixer._call')
    seq = None
    for r in F.flow._returns(dx):
        x = r
        while isinstance(x, ast.Call) and len(x.args) == 1 and not \
                isinstance(x.func, ast.Attribute):
            x = x.args[0]          # shell_list(...)
        seq = F.flow.sequence(x, dx)
    ok = False
    if seq:
        el = [F.atoms(e_, f_, b_) for e_, f_, b_ in seq]
        for i in range(len(el) - 3):
            if has_const(el[i], '<') and param_of(el[i + 1], 'depfile') \
                    and has_const(el[i + 2], '>>') and \
                    param_of(el[i + 3], 'depfile'):
                ok = True
    ctx.ob(R, 'Depfixer._call|reads-and-appends-same-file', ok, dx.node,
           'depfixer does not append its output to the depfile it read')
    # clean
    cl = F.fn('bfg9000.builtins.clean:make_clean_rule')
    rms = [e for e in F.effects(cl, lambda e: e.callee_is("tool('rm')"),
                                depth=1)]
    ok = bool(rms) and all(has(e.all_args(), 'targets()', 'path') and
                           not has_call(e.all_args(), 'if') for e in rms)
    rules = [e for e in F.calls_to(cl, 'rule', depth=0)
             if e.kw_const('target') == 'clean']
    ok = ok and bool(rules) and all(
        any("tool('rm')(" in x for x in e.arg(kw='recipe')) for e in rules)
    ctx.ob(R, 'make_clean_rule|removes-all-targets', ok, cl.node,
           'clean does not remove every registered target')
    tg = F.fn('bfg9000.build_inputs:BuildInputs.targets')
    r = F.returns(tg)
    ok = has(r, 'self._edges', 'output') and has(r, 'self._extra_targets')
    ctx.ob(R, 'BuildInputs.targets|outputs+extra', ok, tg.node,
           'targets() is not the outputs of every edge plus the extra '
           'targets')
    at = F.fn('bfg9000.build_inputs:BuildInputs.add_target')
    ok = any(has(e.recv(), 'self._extra_targets') and param_of(
        e.all_args(), 'target')
        for e in F.effects(at, lambda e: e.name in ('append', 'add'),
                           depth=0))
    ctx.ob(R, 'BuildInputs.add_target|appends', ok, at.node,
           'add_target does not record the target')


def depfix_table(ctx):
    R = 'DEPFIX-TABLE'
    ctx.rule(R, 'the depfixer state machine, interpreted abstractly for '
             'every (state, token) pair (through helpers): every dependency '
             'name is echoed and terminated by ":\\n" (so every dependency '
             'is also a target), no target name is echoed, truncated input '
             'is rejected')
    repo = ctx.repo
    F = _facts(ctx)
    from ..absint import Interp, Undecided
    f = F.fn('bfg9000.depfixer:emit_deps')
    m = f.module
    states = enum_members(repo, m, 'State')
    toks = enum_members(repo, m, 'Token')
    loops = [n for n in walk_no_nested(f.node) if isinstance(n, ast.For)
             and has_call(F.atoms(n.iter, f), 'tokenize')]
    Q.require(len(loops) == 1, 'emit_deps: token loop not found')
    loop = loops[0]
    tgt = loop.target
    Q.require(isinstance(tgt, ast.Tuple) and len(tgt.elts) == 2 and all(
        isinstance(x, ast.Name) for x in tgt.elts),
        'emit_deps: (token, value) loop target expected')
    tokvar, valvar = tgt.elts[0].id, tgt.elts[1].id
    # the state variable: the local compared with State members after the
    # loop / assigned a State member before it
    statevar = None
    for n in f.node.body:
        if isinstance(n, ast.Assign) and isinstance(
                n.targets[0], ast.Name) and isinstance(
                    const_eval(repo, m, n.value), EnumMember):
            statevar = n.targets[0].id
    Q.require(statevar is not None, 'emit_deps: state variable not found')
    init = const_eval(repo, m, [n for n in f.node.body if isinstance(
        n, ast.Assign) and isinstance(n.targets[0], ast.Name) and
        n.targets[0].id == statevar][0].value)
    ctx.ob(R, 'initial-state', isinstance(init, EnumMember) and
           init.name == 'target', f.node, 'parsing does not start left of '
           'the colon')
    it = Interp(repo, F.flow)
    table = {}
    for s in states:
        for t in toks:
            env = {statevar: EnumMember(m.name + ':State', s),
                   tokvar: EnumMember(m.name + ':Token', t)}
            try:
                acts, out, env2 = it.run_block(f, loop.body, env)
            except Undecided as e:
                raise AnalysisError('emit_deps: {}'.format(e))
            nxt = env2.get(statevar)
            table[(s, t)] = (acts, out, nxt.name if isinstance(
                nxt, EnumMember) else '?')
    ctx.stat('depfixer_transitions', {
        '{}/{}'.format(s, t): [[str(x) for x in a] for a in acts] + [nxt]
        for (s, t), (acts, out, nxt) in sorted(table.items())})
    Q.require('dep' in states and 'target' in states, 'State members')
    for (s, t), (acts, out, nxt) in sorted(table.items()):
        writes = [a[1] for a in acts if a[0] == 'write']

        def may(xs):
            o = []
            for a in xs:
                if a[0] == 'write':
                    o.append(a[1])
                elif a[0] == 'branch':
                    o += may(a[2]) + may(a[3])
            return o
        may_writes = may(acts)
        if may_writes != writes:
            # a conditional write is neither a certain echo nor no echo
            writes = ['<conditional>'] + may_writes
        raises = out[0] == 'raise'
        if s == 'dep' and nxt != 'dep' and not raises:
            ctx.ob(R, '{}/{}|dep-terminated'.format(s, t),
                   writes == [':\n'], f.node,
                   'leaving a dependency name on {} writes {} instead of '
                   '":\\n": the dependency does not become a target'.format(
                       t, writes))
        if t == 'char' and nxt == 'dep' and not raises:
            ctx.ob(R, '{}/{}|dep-name-echoed'.format(s, t),
                   writes == [valvar], f.node,
                   'a character of a dependency name is not echoed')
        if s in ('target', 'between_targets') and nxt != 'dep':
            ctx.ob(R, '{}/{}|targets-not-echoed'.format(s, t), not writes,
                   f.node, 'text of the original target is echoed')
        if s in ('target', 'between_targets') and t == 'char':
            ctx.ob(R, '{}/{}|stays-left-of-colon'.format(s, t),
                   nxt == 'target' and not raises, f.node,
                   'a target character does not keep the parser left of '
                   'the colon')
        if t == 'colon' and s in ('target', 'between_targets'):
            ctx.ob(R, '{}/{}|colon-starts-deps'.format(s, t),
                   nxt == 'between_deps' and not raises, f.node,
                   'the colon does not start the dependency list')
        if t == 'colon' and s in ('dep', 'between_deps'):
            ctx.ob(R, '{}/{}|second-colon-rejected'.format(s, t), raises,
                   f.node, 'a second unescaped colon is accepted')
    # the tokenizer sees the whole input (tokens are not cut at block
    # boundaries)
    tks = F.calls_to(f, 'tokenize', depth=2)
    ok = bool(tks) and all(any(
        re.search(r'(^|\.)read\(\)$', a) for a in direct(e.arg(0)))
        for e in tks)
    ctx.ob(R, 'emit_deps|tokenizes-whole-input', ok, f.node,
           'the depfile is tokenized in pieces: an escape sequence or '
           '"colon + whitespace" split across two pieces is misread')
    # end of file: every state but `target` is rejected
    ok = True
    after = f.node.body[f.node.body.index(loop) + 1:] if loop in \
        f.node.body else []
    for s in states:
        env = {statevar: EnumMember(m.name + ':State', s)}
        try:
            acts, out, env2 = it.run_block(f, after, env)
        except Undecided:
            ok = False
            break
        if (out[0] == 'raise') != (s != 'target'):
            ok = False
    ctx.ob(R, 'eof|truncated-input-rejected', ok, f.node,
           'a truncated depfile is accepted silently')
    # tokenizer: escaped newline swallowed, backslash kept with next char.
    # Token producers: the yields of tokenize, and the returns of a helper
    # whose rows tokenize re-yields (`yield from _escape_tokens(c)`).
    tk = F.fn('bfg9000.depfixer:tokenize')
    helpers = []
    for n in ast.walk(tk.node):
        if isinstance(n, ast.YieldFrom) and isinstance(n.value, ast.Call):
            h = F.flow.resolve_call(n.value, tk)
            if h is not None and h not in helpers:
                helpers.append(h)
    ys = [n for n in ast.walk(tk.node) if isinstance(n, ast.Yield) and
          n.value is not None and has_const(F.atoms(n.value, tk), '\\')]
    hrets = [(r, h) for h in helpers for r in Q.returns(h.node)
             if r.value is not None and has_const(F.atoms(r.value, h),
                                                  '\\')]

    def not_newline(n, g):
        return any(op == 'NotEq' and (has_const(l, '\n') or
                                      has_const(r, '\n'))
                   for op, l, r in F.guard_compares(n, g))
    ok = bool(ys or hrets) and all(not_newline(y, tk) for y in ys) and all(
        not_newline(r, h) for r, h in hrets)
    ctx.ob(R, 'tokenize|escapes', ok, tk.node,
           'backslash escapes are not passed through / continuation lines '
           'not swallowed')
    # after a backslash the next character is an ordinary character: no
    # path from the backslash token to a space/newline/colon token without
    # passing the `char` token of the escaped character (or the loop head)
    g = F.cfg(tk)
    allys = [n for n in ast.walk(tk.node) if isinstance(n, ast.Yield) and
             n.value is not None]

    def tokname(y):
        a = F.atoms(y.value, tk)
        return {x.split('.')[1] for x in a if x.startswith('Token.')}
    esc_char = [y for y in allys if tokname(y) == {'char'} and isinstance(
        y.value, ast.Tuple) and len(y.value.elts) == 2 and not isinstance(
            y.value.elts[1], ast.Constant)]
    others = [y for y in allys if tokname(y) & {'space', 'newline',
                                                 'colon'}]
    heads = [n for n in walk_no_nested(tk.node) if isinstance(
        n, (ast.While, ast.For))]
    ok = bool(ys or hrets) and (not ys or (bool(esc_char) and bool(others)))
    for b in ys:
        for o in others:
            try:
                if g.reaches(g.stmt_of(b), g.stmt_of(o), avoiding=[
                        g.stmt_of(y) for y in esc_char] + heads):
                    ok = False
            except Exception:
                ok = False
    for r, h in hrets:
        # the helper hands back the backslash and the escaped character as
        # rows of one result: (char, '\\'), (char, c) -- or the input ended
        rows = r.value.elts if isinstance(r.value, (ast.Tuple, ast.List)) \
            else []
        with_char = any(
            isinstance(x, (ast.Tuple, ast.List)) and len(x.elts) == 2 and
            not isinstance(x.elts[1], ast.Constant) and
            unparse(x.elts[0]).endswith('Token.char') for x in rows)
        at_end = any(op in ('Is', 'Eq') and (has_const(l, None) or
                                             has_const(rr, None))
                     for op, l, rr in F.guard_compares(r, h))
        if not (with_char or at_end):
            ok = False
    ctx.ob(R, 'tokenize|escaped-character-is-a-char', ok, tk.node,
           'the character after a backslash can be tokenized as a '
           'separator: an escaped space splits a file name')


def check(ctx):
    ctx.not_decided += [
        'what the real compiler writes into the depfile and whether '
        'depfixer.tokenize agrees with it',
        'that Make re-reads the fixed file correctly; behaviour over '
        'arbitrary histories of header edits, deletions and renames']
    depfile_wiring(ctx)
    depfix_table(ctx)
