"""C01 -- Make backend: every argument reaches the spawned process unchanged.

Decided: ESC-MAKE, SYNTAX-POSITION, WRITE-FLOW, LIT-SITES, LITERAL-ORIGIN,
SH-SAFE (see sa/rules/escape.py). Not decided: that sh un-quoting o Make
expansion o quote is the identity for every string (a transducer property).
"""
import ast

from ..consteval import EnumMember, const_eval
from ..index import unparse, walk_no_nested
from .. import query as Q
from ..rules import escape as E
from ..rules import escape2 as E2
from .. import substchain
from .. import tables as T

MAKE_FUNCS = [
    E.MAKE_SYN + ':Makefile._write_variable',
    E.MAKE_SYN + ':Makefile._write_define',
    E.MAKE_SYN + ':Makefile._write_rule',
    E.MAKE_SYN + ':Makefile.write',
]
DEPFILE_FUNC = 'bfg9000.builtins.find:write_depfile'


def make_sites(ctx):
    repo = ctx.repo
    table, members = E.escape_table(repo, E.MAKE_SYN)
    sites = E2.writer_sites(ctx, [E.MAKE_SYN + ':Makefile.write',
                                  DEPFILE_FUNC], E.MAKE_SYN)
    ctx.ob('ESC-MAKE', 'make-writer-sites|found', len(sites) >= 8, None,
           'only {} make writer sites found'.format(len(sites)))
    ctx.stat('make_emission_sites', len(sites))
    ctx.stat('make_escape_table', {
        m: ([repr(o) for o in ops] if ops is not None else 'rejected')
        for m, ops in table.items()})
    return table, members, sites


def _facts(ctx):
    from ..facts import Facts
    F = getattr(ctx, '_facts', None)
    if F is None:
        F = ctx._facts = Facts(ctx.repo)
    return F


# producers of Make variable values confirmed by reading (each is an instance
# of F1 in KNOWN_FINDINGS.txt); used only to attribute private helpers
KNOWN_PRODUCERS = {
    'bfg9000.backends.make.syntax:Makefile.cmd_var',
    'bfg9000.backends.make.writer:flags_vars',
    'bfg9000.backends.make.writer:write',
    'bfg9000.builtins.compile:make_compile',
    'bfg9000.builtins.link:make_link',
    'bfg9000.builtins.install:_add_install_paths',
    'bfg9000.builtins.install:_doppel_cmd.wrapper',
}


def var_producers(ctx, table, R='ESC-MAKE'):
    """Who puts run-time data into a Make variable value. `#` starts a
    comment there even inside sh quotes, so as long as the shell/clean
    members leave `#` alone every producer of non-constant values is an
    instance of that defect; a *new* producer (say, the clean rule's file
    list moved into a variable) is a new instance, not the known one."""
    from ..facts import direct
    repo = ctx.repo
    F = _facts(ctx)
    esc = all(table.get(m) is not None and substchain.altered(
        table[m], '#') for m in ('shell', 'clean'))
    prods = {}
    for fi in repo.functions.values():
        mn = fi.module.name
        if not (mn.startswith('bfg9000.builtins') or
                mn.startswith('bfg9000.backends.make')):
            continue
        if fi.node.name.startswith('ninja') or any(
                unparse(d).startswith('ninja.') for d in getattr(
                    fi.node, 'decorator_list', [])):
            continue
        for c in walk_no_nested(fi.node):
            if not isinstance(c, ast.Call):
                continue
            nm = Q.attr_name(c.func)
            val = None
            if nm in ('variable', 'target_variable') and isinstance(
                    c.func, ast.Attribute):
                val = Q.arg(c, 1, 'value')
            elif nm in ('rule', 'multitarget_rule'):
                val = Q.kwarg(c, 'variables')
            if val is None:
                continue
            if isinstance(c.func, ast.Attribute) and \
                    nm != 'multitarget_rule':
                rv = F.atoms(c.func.value, fi)
                if not any('buildfile' in a or a.endswith('self') or
                           'Makefile' in a for a in rv):
                    continue
            at = {a for a in F.atoms(val, fi)
                  if not a.startswith(('const:', 'alloc:', 'key:'))}
            if nm in ('rule', 'multitarget_rule') and at <= {
                    'param:variables'}:
                continue        # pass-through of the caller's mapping
            if at:
                prods.setdefault(fi.fq, []).append(c)
    # a private helper all of whose callers are confirmed producers is part
    # of them (extracting the call into a helper is neutral)
    for fq in sorted(prods):
        if fq not in KNOWN_PRODUCERS and F.only_called_from(
                repo.functions[fq], KNOWN_PRODUCERS):
            del prods[fq]
    ctx.ob(R, 'MK_VARVALUE|producers-found', len(prods) >= 5, None,
           'only {} producers of Make variable values found'.format(
               len(prods)))
    for fq in sorted(prods):
        ctx.ob(R, "MK_VARVALUE|'#'|producer|" + fq, esc, prods[fq][0],
               '{} stores run-time data in a Make variable; `#` is not '
               'escaped for variable values, so a value containing `#` is '
               'cut off there'.format(fq))


def esc_make_extra(ctx, table):
    """Function-argument context, the comma variable, quoted auto variables."""
    from ..facts import direct, has, has_call, has_const, param_of
    repo = ctx.repo
    F = _facts(ctx)
    R = 'ESC-MAKE'
    f = F.fn(E.MAKE_SYN + ':Function.use')
    ss = F.calls_to(f, 'syntax_string', depth=1)
    ok = bool(ss) and all(has(e.arg(1, kw='syntax'), 'Syntax.function')
                          for e in ss)
    ctx.ob(R, 'MK_FUNCARG|arguments-use-Syntax.function', ok, f.node,
           'arguments of $(call ...)/$(patsubst ...) are not written with '
           'Syntax.function')
    ops = table.get('function')
    for ch, why in sorted(T.MK_FUNCARG.items()):
        ctx.ob(R, 'MK_FUNCARG|Syntax.function|{!r}'.format(ch),
               ops is not None and substchain.altered(ops, ch), f.node,
               '{!r} ({}) is written unescaped inside a function call'
               .format(ch, why))
    # GNU Make splits the arguments of $(call ...) at every comma that is not
    # inside $(...) / ${...} *before* expanding anything: a one-character
    # reference `$,` does not protect the comma (reader-table audit row
    # "MK_FUNCARG bare $, is still split"). The replacement must therefore be
    # a parenthesised or braced reference.
    for o in (ops or []):
        if o.kind == 'replace' and o.old == ',':
            ok = isinstance(o.new, str) and ',' in o.new and (
                o.new.startswith('$(') and o.new.endswith(')') or
                o.new.startswith('${') and o.new.endswith('}'))
            ctx.ob(R, "MK_FUNCARG|','-replacement-protected", ok, o.node,
                   "a comma inside a function argument is written as {!r}: "
                   "make's argument splitter still sees the bare comma "
                   "(only $(...)/${{...}} references are skipped), so the "
                   "argument is cut in two".format(o.new))
    # syntax_string branch of Writer.write honours the embedded syntax
    W = F.fn(E.MAKE_SYN + ':Writer.write')
    nested = [e for e in F.effects(W, lambda e: e.name == 'write', depth=1)
              if e.fn.cls is W.cls and has_call(e.recv(), 'Writer') and
              has(e.arg(0), 'data')]
    ok = bool(nested) and all(
        has(e.arg(1), 'thing.syntax') or has(e.arg(1), 'syntax')
        for e in nested) and all(
        any(a.endswith('.syntax') for a in e.arg(1)) and
        param_of(e.arg(1), 'syntax') for e in nested)
    ctx.ob(R, 'Writer.write|syntax_string-uses-own-syntax', ok, W.node,
           'embedded syntax_string is not written with its own syntax')
    ok = bool(nested) and all(
        has_const(e.arg(2, kw='shell_quote'), None) and param_of(
            e.arg(2, kw='shell_quote'), 'shell_quote') and has(
                e.arg_tests(), 'quoted') for e in nested)
    ctx.ob(R, 'Writer.write|syntax_string-quoted-once', ok, W.node,
           'a quoted syntax_string must disable inner quoting and be '
           'wrapped once')
    emits_comma_var = ops is not None and any('$,' in o.text for o in ops)
    if emits_comma_var:
        w = F.fn(E.MAKE_SYN + ':Makefile.write')
        defs = [e for e in F.calls_to(w, '_write_variable', depth=1)
                if any("Variable(',')" in a for a in e.all_args()) and
                has_const(e.all_args(), ',')]
        ctx.ob(R, 'Makefile.write|comma-variable-defined', bool(defs),
               w.node, 'escape_str emits `$,` but Makefile.write does not '
               'define the variable `,` := ,')
    f = F.fn(E.MAKE_SYN + ':Variable.use')
    wraps = [e for e in F.calls_to(f, 'wrap_quotes', depth=1)
             if has(e.control(), 'self.quoted')]
    if wraps:
        for ch, why in sorted(T.MK_SQ_AUTOVAR.items()):
            ctx.ob(R, 'MK_SQ_AUTOVAR|{!r}'.format(ch), False, f.node,
                   "a quoted variable is emitted as '$(name)'/'$@': Make "
                   "substitutes the value verbatim inside sh single quotes, "
                   "so {!r} in the value ({}) is not neutralised".format(
                       ch, why))
    else:
        ctx.ob(R, 'MK_SQ_AUTOVAR|no-quoted-variables', True, f.node,
               'Variable.use no longer wraps references in quotes')


def target_var_scope(ctx):
    from ..facts import direct, has, has_call, has_const, param_of
    R = 'TARGET-VAR-SCOPE'
    ctx.rule(R, 'per-target compile/link options are Make target-specific '
             'variables whose default is the pattern-specific `%: VAR := '
             '$(GLOBAL_VAR)`: GNU Make hands target-specific variables down '
             'to prerequisites, the `%:` default stops that inheritance, so '
             'options of one target never reach another target\'s command '
             'line')
    F = _facts(ctx)
    f = F.fn('bfg9000.backends.make.writer:flags_vars')
    tv = F.calls_to(f, 'target_variable', depth=1)
    gv = F.calls_to(f, 'variable', depth=1)
    r = F.returns(f)
    ok = bool(tv) and bool(gv) and all(
        has_call(direct(e.arg(1)), 'variable') for e in tv) and \
        has_call(r, 'target_variable') and has_call(r, 'variable')
    ctx.ob(R, 'make.flags_vars|default-is-pattern-specific', ok, f.node,
           'the per-target flags variable is not a target-specific variable '
           'defaulting to the global one: a plain global lets a target\'s '
           'options leak into its prerequisites\' recipes')
    w = F.fn(E.MAKE_SYN + ':Makefile.write')
    wv = [e for e in F.calls_to(w, '_write_variable', depth=1)
          if has(e.all_args(), 'self._target_variables')]
    ok = bool(wv) and all(any("Pattern('%')" in a
                              for a in e.arg(4, kw='target'))
                          for e in wv)
    ctx.ob(R, 'Makefile.write|target-variables-under-%', ok, w.node,
           'default target variables are not written as `%: NAME := ...`')
    wr = F.fn(E.MAKE_SYN + ':Makefile._write_rule')
    wv = [e for e in F.calls_to(wr, '_write_variable', depth=1)
          if has(e.all_args(), 'variables')]
    ok = bool(wv) and all(has(e.arg(4, kw='target'), 'targets')
                          for e in wv)
    ctx.ob(R, 'Makefile._write_rule|rule-variables-are-target-specific', ok,
           wr.node, 'rule variables are not written per target')


def check(ctx):
    ctx.rule('ESC-MAKE', 'every Syntax member (escape chain extracted from '
             'Writer.escape_str per member) escapes every GNU Make '
             'metacharacter of the lexical contexts it is designed for '
             '(shell/clean: variable values, recipes, define bodies; '
             'function: $(call ...) arguments) and escapes nothing the reader '
             'leaves alone there (an escape Make does not undo in a recipe '
             'reaches the shell); every producer of run-time data for a Make '
             'variable value is an instance of the unescaped `#`; keys are '
             'context|member|character')
    ctx.rule('SYNTAX-POSITION', 'value flow from Makefile.write through its '
             'helpers: recipe lines, define bodies and variable values are '
             'written with Syntax.shell (or clean), and each of these kinds '
             'of data is written with the shell member at least once')
    ctx.not_decided += [
        'that sh un-quoting o Make expansion o quote is the identity for '
        'every string (incl. quote de-duplication in wrap_quotes): a string-'
        'transducer property over all inputs',
        'what GNU Make really does with each character (taken from '
        'sa/tables.py)']
    table, members, sites = make_sites(ctx)
    E2.esc_members(ctx, 'ESC-MAKE', E.MAKE_SYN, table,
                   {'MK_VARVALUE', 'MK_RECIPE', 'MK_DEFINE'},
                   only_members={'shell', 'clean'})
    # argument positions only: path contexts belong to C04
    esc_make_extra(ctx, table)
    var_producers(ctx, table)
    shell_roles = [r for r in E2.MAKE_ROLES
                   if set(r[1]) & {'shell', 'clean'}]
    E2.position_rule(ctx, 'SYNTAX-POSITION', sites, shell_roles, 'make')
    E2.write_flow(ctx, E.MAKE_SYN, {'function', 'shell'})
    E2.lit_sites(ctx, [E.MAKE_SYN, 'bfg9000.backends.make.writer',
                       'bfg9000.builtins.find'], minimum=12)
    E2.literal_origin(ctx)
    E2.sh_safe(ctx, include_make_recipe=True)
    target_var_scope(ctx)
    from ..rules import graph as G
    ctx.rule('ENV-EXPORT', 'command steps export their environment for '
             'every command of the step')
    _env_export(ctx, 'ENV-EXPORT', ('make',))


def _env_export(ctx, rule_id, backends):
    from ..facts import Facts, direct, has, has_call
    F = getattr(ctx, '_facts', None)
    if F is None:
        F = ctx._facts = Facts(ctx.repo)
    K = 'bfg9000.builtins.command:'
    table = {'make': (K + 'make_command', 'recipe'),
             'ninja': (K + 'ninja_command', 'command'),
             'compdb': (K + 'compdb_copy_file', 'arguments')}
    for b in backends:
        fq, kw = table[b]
        f = F.fn(fq)
        p = Q.params(f.node)[0]
        ems = [e for e in F.effects(f, lambda e: Q.kwarg(e.call, kw)
                                    is not None, depth=0)]
        ok = bool(ems) and all(
            has_call(e.arg(kw=kw), 'global_env') and has(
                e.arg(kw=kw), p + '.env') and has(e.arg(kw=kw), p + '.cmds')
            and all('global_env(' in a
                    for a in direct(e.arg(kw=kw, shallow=True))
                    if not a.startswith(('const:', 'alloc:')))
            for e in ems)
        ctx.ob(rule_id, 'env-export|' + fq, ok, f.node,
               '{} does not pass exactly global_env(rule.env, rule.cmds) as '
               'the command: the step environment is not exported for every '
               'command of the step'.format(fq.split(':')[1]))
