"""C01 -- Make backend: every argument reaches the spawned process unchanged.

Decided: ESC-MAKE, SYNTAX-POSITION, WRITE-FLOW, LIT-SITES, LITERAL-ORIGIN,
SH-SAFE (see sa/rules/escape.py). Not decided: that sh un-quoting o Make
expansion o quote is the identity for every string (a transducer property).
"""
import ast

from ..consteval import EnumMember, const_eval
from ..index import unparse
from .. import query as Q
from ..rules import escape as E
from .. import substchain
from .. import tables as T

MAKE_FUNCS = [
    E.MAKE_SYN + ':Makefile._write_variable',
    E.MAKE_SYN + ':Makefile._write_define',
    E.MAKE_SYN + ':Makefile._write_rule',
    E.MAKE_SYN + ':Makefile.write',
]
DEPFILE_FUNC = 'bfg9000.builtins.find:write_depfile'


def make_sites(ctx):
    repo = ctx.repo
    table, members = E.escape_table(repo, E.MAKE_SYN)
    sites = E.emission_sites(ctx, MAKE_FUNCS + [DEPFILE_FUNC], E.MAKE_SYN,
                             members, E.classify_make)
    ctx.require_min('ESC-MAKE', len(sites), 12, 'make emission sites')
    ctx.stat('make_emission_sites', len(sites))
    ctx.stat('make_escape_table', {
        m: ([repr(o) for o in ops] if ops is not None else 'rejected')
        for m, ops in table.items()})
    return table, members, sites


def esc_make_extra(ctx, table):
    """Function-argument context, the comma variable, quoted auto variables."""
    repo = ctx.repo
    R = 'ESC-MAKE'
    # Function.use -> syntax_string(..., Syntax.function, ...)
    f = repo.method(E.MAKE_SYN + ':Function', 'use')
    ss = [c for c in Q.calls(f.node) if unparse(c.func) == 'syntax_string']
    Q.require(len(ss) == 1, 'Function.use: syntax_string construction not '
              'found')
    v = const_eval(repo, f.module, ss[0].args[1]) if len(ss[0].args) > 1 \
        else None
    ok = isinstance(v, EnumMember) and v.name == 'function'
    ctx.ob(R, f.fq + '|arguments-use-Syntax.function', ok, ss[0],
           'arguments of $(call ...)/$(patsubst ...) are not written with '
           'Syntax.function')
    ops = table.get('function')
    for ch, why in sorted(T.MK_FUNCARG.items()):
        ctx.ob(R, '{}|MK_FUNCARG|Syntax.function|{!r}'.format(f.fq, ch),
               ops is not None and substchain.altered(ops, ch), ss[0],
               '{!r} ({}) is written unescaped inside a function call'
               .format(ch, why))
    # GNU Make splits the arguments of $(call ...) at every comma that is not
    # inside $(...) / ${...} *before* expanding anything: a one-character
    # reference `$,` does not protect the comma (reader-table audit row
    # "MK_FUNCARG bare $, is still split"). The replacement must therefore be
    # a parenthesised or braced reference.
    for o in (ops or []):
        if o.kind == 'replace' and o.old == ',':
            ok = isinstance(o.new, str) and ',' in o.new and (
                o.new.startswith('$(') and o.new.endswith(')') or
                o.new.startswith('${') and o.new.endswith('}'))
            ctx.ob(R, "{}|MK_FUNCARG|','-replacement-protected".format(f.fq),
                   ok, o.node,
                   "a comma inside a function argument is written as {!r}: "
                   "make's argument splitter still sees the bare comma "
                   "(only $(...)/${{...}} references are skipped), so the "
                   "argument is cut in two".format(o.new))
    # syntax_string branch of Writer.write honours the embedded syntax
    W = repo.method(E.MAKE_SYN + ':Writer', 'write')
    nested = [c for c in Q.calls(W.node) if unparse(c.func) == 'out.write'
              and len(c.args) >= 2 and 'thing.syntax' in unparse(c.args[1])]
    ok = len(nested) == 1 and unparse(nested[0].args[1]) == \
        'thing.syntax or syntax' and unparse(nested[0].args[0]) == \
        'thing.data'
    ctx.ob(R, W.fq + '|syntax_string-uses-own-syntax', ok, W.node,
           'embedded syntax_string is not written with its own syntax')
    if nested and len(nested[0].args) >= 3:
        ok = unparse(nested[0].args[2]) == \
            'None if thing.quoted else shell_quote'
        ctx.ob(R, W.fq + '|syntax_string-quoted-once', ok, nested[0],
               'a quoted syntax_string must disable inner quoting and be '
               'wrapped once')
    # if the function branch emits `$,` the variable `,` must be defined
    emits_comma_var = ops is not None and any(
        '$,' in o.text for o in ops)
    if emits_comma_var:
        w = repo.method(E.MAKE_SYN + ':Makefile', 'write')
        defs = [c for c in Q.calls(w.node) if unparse(c.func) ==
                'self._write_variable' and len(c.args) >= 3 and
                unparse(c.args[1]) == "Variable(',')" and
                const_eval(repo, w.module, c.args[2]) == ',']
        ctx.ob(R, w.fq + '|comma-variable-defined', len(defs) == 1, w.node,
               'escape_str emits `$,` but Makefile.write does not define '
               'the variable `,` := ,')
    # quoted automatic variables
    f = repo.method(E.MAKE_SYN + ':Variable', 'use')
    wraps = [n for n in ast.walk(f.node) if isinstance(n, ast.If) and
             'quoted' in unparse(n.test)]
    if wraps:
        for ch, why in sorted(T.MK_SQ_AUTOVAR.items()):
            ctx.ob(R, '{}|MK_SQ_AUTOVAR|{!r}'.format(f.fq, ch), False, f.node,
                   "a quoted variable is emitted as '$(name)'/'$@': Make "
                   "substitutes the value verbatim inside sh single quotes, "
                   "so {!r} in the value ({}) is not neutralised".format(
                       ch, why))
    else:
        ctx.ob(R, f.fq + '|MK_SQ_AUTOVAR|no-quoted-variables', True, f.node,
               'Variable.use no longer wraps references in quotes')


def target_var_scope(ctx):
    R = 'TARGET-VAR-SCOPE'
    ctx.rule(R, 'per-target compile/link options are Make target-specific '
             'variables whose default is the pattern-specific `%: VAR := '
             '$(GLOBAL_VAR)`: GNU Make hands target-specific variables down '
             'to prerequisites, the `%:` default stops that inheritance, so '
             'options of one target never reach another target\'s command '
             'line')
    repo = ctx.repo
    f = repo.func('bfg9000.backends.make.writer:flags_vars')
    vals = [v for v in Q.local_assignments(f.node, 'flags') if v is not None]
    ok = len(vals) == 1 and isinstance(vals[0], ast.Call) and unparse(
        vals[0].func) == 'buildfile.target_variable' and len(
            vals[0].args) >= 2 and unparse(vals[0].args[1]) == 'gflags'
    ctx.ob(R, 'make.flags_vars|default-is-pattern-specific', ok, f.node,
           'the per-target flags variable is defined as {}: a plain global '
           'lets a target\'s options leak into its prerequisites\' '
           'recipes'.format(unparse(vals[0]) if vals else None))
    w = repo.method(E.MAKE_SYN + ':Makefile', 'write')
    ok = any(isinstance(n, ast.For) and unparse(n.iter) ==
             'self._target_variables' and 'target=target' in unparse(n)
             for n in ast.walk(w.node)) and "target = Pattern('%')" in \
        unparse(w.node)
    ctx.ob(R, 'Makefile.write|target-variables-under-%', ok, w.node,
           'default target variables are not written as `%: NAME := ...`')
    wr = repo.method(E.MAKE_SYN + ':Makefile', '_write_rule')
    ok = 'self._write_variable(out, name, value, target=target)' in unparse(
        wr.node) and 'for target in rule.targets' in unparse(wr.node)
    ctx.ob(R, 'Makefile._write_rule|rule-variables-are-target-specific', ok,
           wr.node, 'rule variables are not written per target')


def check(ctx):
    ctx.rule('ESC-MAKE', 'for every site where Makefile/Writer emits script-'
             'derived text, every Syntax member that reaches the site escapes '
             'every GNU Make metacharacter of that lexical context')
    ctx.rule('SYNTAX-POSITION', 'names left of a colon are written with '
             'Syntax.target, right of it with Syntax.dependency; values and '
             'recipes with Syntax.shell/clean')
    ctx.not_decided += [
        'that sh un-quoting o Make expansion o quote is the identity for '
        'every string (incl. quote de-duplication in wrap_quotes): a string-'
        'transducer property over all inputs',
        'what GNU Make really does with each character (taken from '
        'sa/tables.py)']
    table, members, sites = make_sites(ctx)
    E.esc_rule(ctx, 'ESC-MAKE', sites, table,
               only_contexts={'MK_VARVALUE', 'MK_RECIPE', 'MK_DEFINE'})
    # argument positions only: path contexts belong to C04
    esc_make_extra(ctx, table)
    E.position_rule(ctx, 'SYNTAX-POSITION', [
        s for s in sites if any(c in ('MK_VARVALUE', 'MK_RECIPE',
                                      'MK_DEFINE') for c in s[2])])
    E.write_flow(ctx, E.MAKE_SYN, {'function', 'shell'})
    E.lit_sites(ctx, [E.MAKE_SYN, 'bfg9000.backends.make.writer',
                      'bfg9000.builtins.find'], minimum=18)
    E.literal_origin(ctx)
    E.sh_safe(ctx, include_make_recipe=True)
    target_var_scope(ctx)
    from ..rules import graph as G
    ctx.rule('ENV-EXPORT', 'command steps export their environment for every command of the step')
    G.env_export(ctx, 'ENV-EXPORT', backends=('make',))
