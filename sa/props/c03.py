"""C03 -- Generated dependency graph equals the graph the build script
describes.

Decided: HANDLERS, DEPS-COVER, OUTPUT-COVER, RULE-OWNER, EDGE-INIT, DEFAULTS,
PASS-THROUGH (helper functions forward the dependency arguments).
Not decided: "changing a file rebuilds exactly the downstream steps", "a
second build does nothing" -- behaviour of make/ninja over histories.
"""
import ast

from ..cfg import EXIT, build as build_cfg
from ..facts import (Facts, components, direct, has, has_call, has_const,
                     param_of)
from ..index import AnalysisError, unparse, walk_no_nested
from .. import query as Q
from ..rules import graph as G
from ..rules import owner


def _facts(ctx):
    f = getattr(ctx, '_facts', None)
    if f is None:
        f = ctx._facts = Facts(ctx.repo)
    return f


def _rule_roots(atoms, param='rule'):
    """Attributes `a` such that an access path `<param>.a...` is among the
    atoms."""
    out = set()
    for a in atoms:
        if a.startswith(('const:', 'key:', 'alloc:')):
            continue
        cs = components(a)
        if len(cs) >= 2 and cs[0] == param:
            m = cs[1]
            for ch in '([':
                m = m.split(ch)[0]
            out.add(m)
    return out

C = 'bfg9000.builtins.compile:'
L = 'bfg9000.builtins.link:'
K = 'bfg9000.builtins.command:'
F = 'bfg9000.builtins.copy_file:'
A = 'bfg9000.builtins.alias:'

# attributes of each edge class that hold consumed nodes (confirmed by
# reading the constructors); one line of reason each
REQUIRED = {
    C + 'CompileSource': {
        'file': 'the source', 'pch': 'precompiled header used',
        'include_deps': 'generated/explicit headers passed as includes',
        'libs': 'libraries needed at compile time (jvm)',
        'packages': 'package build deps (packages[*].deps)',
        'extra_deps': 'explicit extra_deps'},
    C + 'CompileHeader': {
        'file': 'the header', 'pch_source': 'msvc pch source',
        'pch': 'precompiled header used',
        'include_deps': 'headers', 'libs': 'libs', 'packages': 'packages',
        'extra_deps': 'explicit extra_deps'},
    C + 'GenerateSource': {'file': 'the input', 'extra_deps': 'explicit'},
    L + 'DynamicLink': {
        'files': 'object files', 'libs': 'libraries incl. forwarded',
        'packages': 'package build deps', 'module_defs': '.def file',
        'manifest': 'jar manifest', 'extra_deps': 'explicit'},
    L + 'SharedLink': {
        'files': 'object files', 'libs': 'libraries', 'packages': 'packages',
        'module_defs': '.def file', 'manifest': 'jar manifest',
        'extra_deps': 'explicit'},
    L + 'StaticLink': {
        'files': 'object files', 'libs': 'libraries', 'packages': 'packages',
        'extra_deps': 'explicit'},
    K + 'Command': {'files': 'declared inputs',
                    'extra_deps': 'explicit + nodes named in the command'},
    K + 'BuildStep': {'files': 'declared inputs',
                      'extra_deps': 'explicit + nodes named in the command'},
    F + 'CopyFile': {'file': 'the copied file', 'extra_deps': 'explicit'},
    F + 'CompressFile': {'file': 'the file', 'extra_deps': 'explicit'},
    A + 'Alias': {'extra_deps': 'the alias members'},
}
# classes whose outputs are real files (need their output directory)
FILE_PRODUCERS = {C + 'CompileSource', C + 'CompileHeader',
                  C + 'GenerateSource', L + 'DynamicLink', L + 'SharedLink',
                  L + 'StaticLink', K + 'BuildStep', F + 'CopyFile',
                  F + 'CompressFile'}


def handlers(ctx, reg):
    R = 'HANDLERS'
    ctx.rule(R, 'BuildRuleHandler.run dispatches on the exact type of each '
             'edge: every Edge subclass that is instantiated anywhere has a '
             'registered handler in the make and in the ninja backend')
    repo = ctx.repo
    F = _facts(ctx)
    concrete, abstract = G.edge_classes(repo)
    ctx.ob(R, 'edge-classes|found', len(concrete) >= 8, None,
           'only {} concrete edge classes found'.format(len(concrete)))
    ctx.stat('edge_classes_concrete', sorted(c.fq for c in concrete))
    ctx.stat('edge_classes_abstract', sorted(c.fq for c in abstract))
    for c in concrete:
        for b in ('make', 'ninja'):
            ctx.ob(R, '{}|{}'.format(b, c.fq), c.fq in reg.handlers[b],
                   c.node, 'edge class {} has no {} rule handler: '
                   'BuildRuleHandler.run raises KeyError / the step is not '
                   'emitted'.format(c.name, b))
        if c.fq not in REQUIRED:
            ctx.ob(R, 'table|' + c.fq, False, c.node,
                   'new edge class {} is not in the checker\'s consumed-'
                   'attribute table; its dependencies are unchecked'.format(
                       c.name))
    run = F.fn('bfg9000.backends:BuildRuleHandler.run')
    edges_p = Q.params(run.node)[1]
    ok = False
    for n in ast.walk(run.node):
        if isinstance(n, ast.Subscript) and has(F.atoms(n.value, run),
                                                'self.handlers'):
            k = n.slice
            if isinstance(k, ast.Call) and isinstance(
                    k.func, ast.Name) and k.func.id == 'type' and \
                    k.args and param_of(F.atoms(k.args[0], run), edges_p):
                ok = True
    ctx.ob(R, 'BuildRuleHandler.run|exact-type-dispatch', ok, run.node,
           'dispatch is no longer self.handlers[type(e)] for each edge')
    calls = [e for e in F.effects(run, lambda e: True, depth=0)
             if has(e.heads(), 'self.handlers') or has(
                 e.heads() | e.recv(), 'handlers')]
    ok = bool(calls) and all(
        param_of(e.arg(0), edges_p) and not has_call(e.arg(0), 'if') and
        not e.control() - {'param:' + edges_p} for e in calls)
    ctx.ob(R, 'BuildRuleHandler.run|all-edges', ok, run.node,
           'run() does not hand every edge to its handler')
    for b in ('make', 'ninja'):
        w = F.fn(G.BACKEND_WRITERS[b] + ':write')
        runs = [e for e in F.effects(w, lambda e: e.name == 'run', depth=1)
                if any(h.endswith('rule_handler.run') for h in e.heads())]
        ok = bool(runs) and all(has(e.arg(0), 'build_inputs.edges()')
                                for e in runs) and F.must(
            w, lambda e: e.name == 'run' and any(
                h.endswith('rule_handler.run') for h in e.heads()))
        ctx.ob(R, b + '.write|runs-handlers-on-all-edges', ok, w.node,
               'write() does not run the rule handlers over '
               'build_inputs.edges()')
    bi = F.fn('bfg9000.build_inputs:BuildInputs.edges')
    r = F.returns(bi)
    ok = has(r, 'self._edges') and not has_call(r, 'if') and not has_call(
        r, 'filter')
    ctx.ob(R, 'BuildInputs.edges|all', ok, bi.node, 'edges() filters edges')
    return concrete


def _emissions(F, h):
    """Effects that register a rule/build statement for a handler (in the
    handler or a private helper it calls): (effect, kind)."""
    out = []
    for e in F.effects(h, lambda e: e.name in (
            'rule', 'multitarget_rule', 'build', 'command_build'), depth=1):
        if e.fn is not h and not e.fn.node.name.startswith('_'):
            continue
        hd = e.heads()
        if e.name == 'rule' and Q.kwarg(e.call, 'name') is None and (
                Q.kwarg(e.call, 'target') is not None or e.call.args):
            out.append((e, 'make-rule'))
        elif e.name == 'multitarget_rule':
            out.append((e, 'make-multi'))
        elif e.name == 'build':
            out.append((e, 'ninja-build'))
        elif e.name == 'command_build':
            out.append((e, 'ninja-command'))
    return out


def _terms(F, ex, fn, _d=0):
    """Operands of a concatenation / elements contributed to a local list:
    the pieces a dependency argument is assembled from."""
    if ex is None:
        return []
    if isinstance(ex, ast.BinOp) and isinstance(ex.op, ast.Add):
        return _terms(F, ex.left, fn, _d) + _terms(F, ex.right, fn, _d)
    if isinstance(ex, ast.Name) and _d < 2:
        ds = F.flow.defs(fn.node).get(ex.id)
        if ds and ex.id not in Q.params(fn.node):
            out = []
            rd = F.flow._reaching_values(ex.id, ds, fn, ex) if len(
                ds) >= 2 and getattr(ex, '_parent', None) is not None \
                else None
            if rd is not None:
                ds = [('value', e2, None) for e2 in rd]
            for kind, e2, idx in ds:
                if kind in ('value', 'seq'):
                    out += _terms(F, e2, fn, _d + 1)
                else:
                    out.append(e2)
            return out
    if isinstance(ex, (ast.List, ast.Tuple)) and ex.elts:
        return list(ex.elts)
    if isinstance(ex, ast.Call) and isinstance(ex.func, ast.Name) and \
            ex.func.id in ('list', 'tuple', 'chain', 'listify') and ex.args:
        out = []
        for a in ex.args:
            out += _terms(F, a, fn, _d)
        return out
    return [ex]


def deps_cover(ctx, reg, concrete):
    R = 'DEPS-COVER'
    R2 = 'OUTPUT-COVER'
    ctx.rule(R, 'every handler passes every consumed-node attribute of its '
             'edge classes (sources, objects, libs, pch, headers, package '
             'deps, extra_deps, ...) to the dependency arguments of the '
             'rule/build statement it emits (value flow, through locals '
             'and private helpers); order-only arguments hold only the '
             'output directories')
    ctx.rule(R2, 'the target/output argument of every handler derives from '
             'the whole of rule.output')
    repo = ctx.repo
    F = _facts(ctx)
    result = {}
    for b in ('make', 'ninja'):
        by_handler = {}
        for cfq, h in reg.handlers[b].items():
            by_handler.setdefault(h.fq, (h, []))[1].append(cfq)
        for hfq, (h, classes) in sorted(by_handler.items()):
            required = {}
            for cfq in classes:
                for a, why in REQUIRED.get(cfq, {}).items():
                    required[a] = why
            pname = Q.params(h.node)[0]
            ems = _emissions(F, h)
            Q.require(ems, '{}: no rule/build emission found'.format(hfq))
            best, out_roots, oo_roots = set(), set(), set()
            out_atoms = set()
            for e, k in ems:
                (oname, opos), deps, oos = G.DEP_ARGS[k]
                got = set()
                for nm, pos in deps:
                    got |= _rule_roots(e.arg(pos, kw=nm), pname)
                if len(got) >= len(best):
                    best = got
                oa = e.arg(opos, kw=oname)
                out_atoms |= oa
                out_roots |= _rule_roots(oa, pname)
                for nm, pos in oos:
                    oo_roots |= _rule_roots(e.arg(pos, kw=nm), pname)
            result[(b, hfq)] = best
            # old-style def-use inside the handler body, for the
            # "unconditional" clause only
            ro = G.Roots(h.node, pname)
            old_all, old_clean = set(), set()
            for c, k in G.emission_calls(h.node):
                if k not in G.DEP_ARGS:
                    continue
                (on_, op_), deps, oos = G.DEP_ARGS[k]
                for nm, pos in deps:
                    old_all |= ro.of(G.call_arg(c, nm, pos))
                    old_clean |= ro.clean(G.call_arg(c, nm, pos))
            # terms of the dependency arguments (operands of +, elements
            # appended to a local list ...): an attribute must arrive
            # through at least one term that does not filter it
            unfiltered = set()
            for e, k in ems:
                (on_, op_), deps, oos = G.DEP_ARGS[k]
                for nm, pos in deps:
                    ex = None
                    if pos is not None and pos < len(e.call.args):
                        ex = e.call.args[pos]
                    ex = Q.kwarg(e.call, nm) or ex
                    for t in _terms(F, ex, e.fn):
                        ta = F.atoms(t, e.fn, e.bind)
                        if not (has_call(ta, 'if') or has_call(ta,
                                                               'filter')):
                            unfiltered |= _rule_roots(ta, pname)
            for a, why in sorted(required.items()):
                if a in best:
                    ctx.ob(R, '{}|{}|rule.{}|unfiltered'.format(b, hfq, a),
                           a in unfiltered, h.node,
                           '{} handler {} passes only a filtered subset of '
                           'rule.{} to the dependencies ({})'.format(
                               b, h.qualname, a, why))
                ctx.ob(R, '{}|{}|rule.{}'.format(b, hfq, a), a in best,
                       h.node, '{} handler {} does not make the step depend '
                       'on rule.{} ({})'.format(b, h.qualname, a, why))
                if a in best and a in old_all:
                    ctx.ob(R, '{}|{}|rule.{}|unconditional'.format(
                        b, hfq, a), a in old_clean, h.node,
                        '{} handler {} adds rule.{} to the dependencies '
                        'only under a condition that is not a presence test '
                        'of rule.{} itself ({})'.format(
                            b, h.qualname, a, a, why))
            ok = 'output' in out_roots and not any(
                a.startswith(pname + '.output[') for a in out_atoms
                if not any(x == pname + '.output' or x.startswith(
                    pname + '.output.') for x in out_atoms))
            ctx.ob(R2, '{}|{}'.format(b, hfq), ok, h.node,
                   'the emitted target/output does not derive from the '
                   'whole of rule.output')
            if b == 'make' and any(c in FILE_PRODUCERS for c in classes):
                has_dd = False
                for e, k in ems:
                    (on_, op_), deps, oos = G.DEP_ARGS[k]
                    for nm, pos in oos:
                        a = e.arg(pos, kw=nm)
                        if has_call(a, 'directory_deps') and \
                                'output' in _rule_roots(a, pname):
                            has_dd = True
                ctx.ob(R, 'make|{}|order-only=directory_deps(output)'.format(
                    hfq), has_dd, h.node,
                    'output directories are not created before the step '
                    '(order_only=make.directory_deps(rule.output))')
            bad = oo_roots - {'output'}
            ctx.ob(R, '{}|{}|order-only-has-no-consumed-nodes'.format(
                b, hfq), not (bad & set(required)), h.node,
                'consumed nodes {} are only order-only dependencies'.format(
                    sorted(bad & set(required))))
    for cfq, attrs in REQUIRED.items():
        ci = repo.cls(cfq)
        for a in attrs:
            found = False
            for m in repo.modules.values():
                if found:
                    break
                for n in ast.walk(m.tree):
                    if isinstance(n, ast.Attribute) and n.attr == a and \
                            isinstance(n.ctx, ast.Store):
                        found = True
                        break
            if not found:
                raise AnalysisError('consumed attribute {}.{} is never '
                                    'assigned'.format(cfq, a))
    return result


def pass_through(ctx):
    R = 'PASS-THROUGH'
    ctx.rule(R, 'multitarget_rule and command_build forward the dependency '
             'arguments they receive to the statement they register; with '
             'several targets the stamp file carries the dependencies and '
             'every target depends on the stamp; the forwarded arguments '
             'carry the caller\'s value on every path (must-flow: extended, '
             'never replaced)')
    F = _facts(ctx)
    f = F.fn('bfg9000.backends.make.writer:multitarget_rule')
    rules = F.effects(f, lambda e: e.name == 'rule', depth=1)

    def a_(e, pos, kw):
        return e.arg(pos, kw=kw)
    main = [e for e in rules if param_of(a_(e, 1, 'deps'), 'deps')]
    ok = bool(main) and all(
        {x for x in direct(a_(e, 1, 'deps')) if not x.startswith(
            ('const:', 'alloc:'))} == {'param:deps'} and
        param_of(a_(e, 2, 'order_only'), 'order_only') and
        param_of(a_(e, 3, 'recipe'), 'recipe') and
        param_of(a_(e, 4, 'variables'), 'variables') and
        param_of(a_(e, 5, 'phony'), 'phony') for e in main) and any(
        any('addext(' in x for x in a_(e, 0, 'target')) and
        param_of(a_(e, 0, 'target'), 'targets') for e in main)
    ctx.ob(R, 'multitarget_rule|primary-rule-gets-all-args', ok, f.node,
           'the primary (stamp or only) rule does not receive deps/'
           'order_only/recipe/variables/phony unchanged')

    def expr_(e, pos, kw):
        x = Q.kwarg(e.call, kw)
        if x is None and pos < len(e.call.args) and not any(
                isinstance(a, ast.Starred) for a in e.call.args[:pos + 1]):
            x = e.call.args[pos]
        return x
    bad = []
    for e in main:
        if e.fn is not f:
            continue        # call sits in a helper: may-flow only (above)
        for pos, kw in ((1, 'deps'), (2, 'order_only'), (3, 'recipe'),
                        (4, 'variables'), (5, 'phony')):
            x = expr_(e, pos, kw)
            if x is not None and not F.must_carry(f, x, kw):
                bad.append(kw)
    ctx.ob(R, 'multitarget_rule|args-forwarded-on-every-path', not bad,
           f.node, 'on some path the primary rule is registered without '
           'the caller\'s {} (replaced, not extended)'.format(
               '/'.join(sorted(set(bad)))))
    multi = [e for e in rules if e not in main]
    ok = bool(multi) and all(
        param_of(a_(e, 0, 'target'), 'targets') and any(
            'addext(' in x for x in a_(e, 1, 'deps')) for e in multi)
    ctx.ob(R, 'multitarget_rule|targets-depend-on-stamp', ok, f.node,
           'with several targets, the targets do not all depend on the '
           'stamp file')
    f = F.fn('bfg9000.backends.ninja.writer:command_build')
    builds = [e for e in F.effects(f, lambda e: e.name == 'build', depth=1)
              if param_of(e.arg(kw='output'), 'output')]
    ok = bool(builds) and all(
        param_of(e.arg(kw='inputs'), 'inputs') and
        param_of(e.arg(kw='order_only'), 'order_only') and
        param_of(e.arg(kw='implicit'), 'implicit') for e in builds)
    ctx.ob(R, 'command_build|forwards-inputs-implicit-order_only', ok,
           f.node, 'command_build does not forward output/inputs/implicit/'
           'order_only')
    f = F.fn(K + 'BaseCommand.__init__')
    sup = [e for e in F.effects(f, lambda e: e.name == '__init__', depth=0)
           if any('super()' in h for h in e.heads())]
    ok = bool(sup) and all(
        param_of(e.arg(kw='extra_deps'), 'extra_deps') and
        has(e.arg(kw='extra_deps'), 'cmds') and
        not has_call({a for a in direct(e.arg(kw='extra_deps'))
                      if 'extra_deps' in a}, 'if') for e in sup)
    ctx.ob(R, 'BaseCommand.__init__|cmd-nodes-become-extra_deps', ok, f.node,
           'files named in custom commands / extra_deps are not registered '
           'as dependencies of the step')


def edge_init(ctx, concrete):
    R = 'EDGE-INIT'
    ctx.rule(R, 'every Edge subclass __init__ reaches super().__init__ on '
             'every non-raising path; Edge.__init__ sets creator on every '
             'output, converts extra_deps into nodes and calls '
             'build.add_edge(self)')
    repo = ctx.repo
    F = _facts(ctx)
    base = repo.cls(G.EDGE)
    for ci in sorted(base.subclasses(), key=lambda c: c.fq):
        if '__init__' not in ci.methods:
            continue
        fn = ci.methods['__init__']
        ok = F.must(fn._func, lambda e: e.name == '__init__' and any(
            'super()' in h for h in e.heads()), depth=1)
        ctx.ob(R, ci.fq + '.__init__|reaches-super', ok, fn,
               'a non-raising path through {}.__init__ skips '
               'super().__init__: the edge is never registered'.format(
                   ci.name))
    f = F.fn(G.EDGE + '.__init__')
    ok = F.must(f, lambda e: e.name == 'add_edge' and param_of(
        e.all_args(), 'self') and param_of(e.recv(), 'build'))
    ctx.ob(R, 'Edge.__init__|add_edge', ok, f.node,
           'Edge.__init__ does not always register the edge')
    ok = any(has(t, 'self.output', 'creator') and param_of(v, 'self') and
             not F.guards(n, f) for t, v, n in F.stores(f))
    ctx.ob(R, 'Edge.__init__|creator-on-every-output', ok, f.node,
           'creator is not set on every output')
    v = F.stored(f, 'output') or set()
    ok = param_of(v, 'output') and not has_call(v, 'if') and not any(
        a.startswith('output[') for a in v)
    ctx.ob(R, 'Edge.__init__|output=listify(output)', ok, f.node,
           'self.output is not the full list of outputs')
    v = F.stored(f, 'extra_deps') or set()
    ok = param_of(v, 'extra_deps') and has_call(v, 'objectify') and \
        not has_call(v, 'if') and not has_call(v, 'filter')
    ctx.ob(R, 'Edge.__init__|extra_deps-all-kept', ok, f.node,
           'extra_deps are filtered or dropped')
    ae = F.fn('bfg9000.build_inputs:BuildInputs.add_edge')
    ok = any(has(e.recv(), 'self._edges') and param_of(
        e.all_args(), Q.params(ae.node)[1]) and not e.control()
        for e in F.effects(ae, lambda e: e.name in ('append', 'add'),
                           depth=0))
    ctx.ob(R, 'BuildInputs.add_edge|appends', ok, ae.node,
           'add_edge does not record the edge')


def _attr_nodes(fn, attr, base='self'):
    return [n for n in ast.walk(fn.node) if isinstance(n, ast.Attribute) and
            n.attr == attr and isinstance(n.value, ast.Name) and
            n.value.id == base and isinstance(n.ctx, ast.Load)]


def defaults(ctx):
    R = 'DEFAULTS'
    ctx.rule(R, 'the default target of both backends is taken from '
             'build_inputs[defaults].outputs (explicit else fallback); '
             'Link adds to the fallback set, test() removes its primary, '
             'install() calls default(); test/tests/install targets of make '
             'and ninja use the same members')
    repo = ctx.repo
    F = _facts(ctx)
    D = 'bfg9000.builtins.default:'

    def named(fn, name, depth=1):
        out = []
        for e in F.effects(fn, lambda e: e.name in (
                'rule', 'build', 'command_build'), depth=depth):
            t = e.arg(kw='target') | e.arg(kw='output')
            if has_const(direct(t), name) and Q.kwarg(e.call, 'name') is \
                    None:
                out.append(e)
        return out

    def deps_of(e):
        return e.arg(kw='deps') | e.arg(kw='inputs')
    for fq in (D + 'make_all_rule', D + 'ninja_all_rule'):
        f = F.fn(fq)
        ems = named(f, 'all', depth=0)
        ok = bool(ems) and all(
            has(deps_of(e), "['defaults']", 'outputs') and not has_call(
                deps_of(e), 'if') for e in ems)
        ctx.ob(R, fq + '|all<-defaults.outputs', ok, f.node,
               '`all` does not depend on exactly the default outputs')
    f = F.fn(D + 'ninja_all_rule')
    ok = any(has_const(e.all_args(), 'all')
             for e in F.calls_to(f, 'default', depth=0))
    ctx.ob(R, D + 'ninja_all_rule|default all', ok, f.node,
           'ninja default target is not `all`')
    ok = any(unparse(d) == 'make.pre_rules_hook'
             for d in repo.func(D + 'make_all_rule').node.decorator_list)
    ctx.ob(R, D + 'make_all_rule|first-rule', ok, None,
           'make `all` rule is not registered before the edge rules (the '
           'first rule of a Makefile is its default goal)')
    p = F.fn(D + 'DefaultOutputs.outputs')
    r = F.returns(p)
    fb = _attr_nodes(p, 'fallback_defaults')
    ok = has(r, 'self.default_outputs') and has(
        r, 'self.fallback_defaults') and not has_call(
        r, 'if') and bool(fb) and all(
        any(not pos and has(F.atoms(t, f_, b_), 'self.default_outputs')
            for t, pos, f_, b_ in F.guard_leaves(n, p)) for n in fb)
    ctx.ob(R, 'DefaultOutputs.outputs|explicit-else-fallback', ok, p.node,
           'default set is not "explicit outputs, else fallback outputs"')
    for mname in ('add', 'remove'):
        a = F.fn(D + 'DefaultOutputs.' + mname)
        ex, fb = [], []
        for g, b in F.frames(a, 1):
            if g.cls is not a.cls:
                continue
            ex += [(n, g, b) for n in _attr_nodes(g, 'default_outputs')]
            fb += [(n, g, b) for n in _attr_nodes(g, 'fallback_defaults')]

        def guarded(ngb, want):
            n, g, b = ngb
            return any(pos == want and param_of(F.atoms(t, f_, b_ if f_ is
                                                        not g else b),
                                                'explicit')
                       for t, pos, f_, b_ in F.guard_leaves(n, g, b))
        ok = bool(ex) and bool(fb) and all(guarded(n, True) for n in ex) \
            and all(guarded(n, False) for n in fb)
        ctx.ob(R, 'DefaultOutputs.{}|explicit-flag'.format(mname), ok,
               a.node, '{}() does not separate explicit from fallback '
               'defaults'.format(mname))
    d = F.fn(D + 'default')
    ok = any(has(e.recv(), "['defaults']") and e.kw_const('explicit') is True
             for e in F.calls_to(d, 'add', depth=1))
    ctx.ob(R, 'default()|explicit-add', ok, d.node,
           'default() does not add explicit defaults')
    li = F.fn(L + 'Link.__init__')
    ok = any(has(e.recv(), "['defaults']") and has(
        e.arg(0), 'self.public_output') and e.kw_const('explicit') is not
        True for e in F.calls_to(li, 'add', depth=0))
    ctx.ob(R, 'Link.__init__|fallback-add', ok, li.node,
           'linked binaries are not added to the fallback default set')
    t = F.fn('bfg9000.builtins.tests:Test.__init__')
    rm = [e for e in F.calls_to(t, 'remove', depth=1)
          if has(e.recv(), "['defaults']")]
    ok = bool(rm) and not any(has_const(e.arg(1, kw='explicit'), True)
                              for e in rm) and not any(e.loops() for e in rm)
    ctx.ob(R, 'Test.__init__|removes-primary', ok, t.node,
           'test() does not remove its program from the fallback defaults '
           '(only that one: not every built file named on its command '
           'line)')
    ins = F.fn('bfg9000.builtins.install:install')
    ok = any(has(e.heads(), "['default']") and param_of(e.all_args(), 'args')
             for e in F.effects(ins, lambda e: True, depth=0))
    ctx.ob(R, 'install()|calls-default', ok, ins.node,
           'install() does not make its arguments default targets')
    T = 'bfg9000.builtins.tests:'
    for fq in (T + 'make_test_rule', T + 'ninja_test_rule'):
        f = F.fn(fq)
        hit = named(f, 'tests', depth=0)
        ok = bool(hit) and all(
            has_call(deps_of(e), '_build_commands') and has(
                deps_of(e), 'extra_deps') for e in hit)
        ctx.ob(R, fq + '|tests<-deps+extra_deps', ok, f.node,
               '`tests` does not depend on the test inputs + '
               'tests.extra_deps')
        hit = named(f, 'test', depth=0)
        ok = bool(hit) and all(has_const(deps_of(e), 'tests') for e in hit)
        ctx.ob(R, fq + '|test<-tests', ok, f.node,
               '`test` does not depend on `tests`')
    bc = F.fn(T + '_build_commands')
    r = F.returns(bc)
    ok = has(r, 'inputs') and has_call(r, '_build_commands')
    ctx.ob(R, '_build_commands|collects-inputs-recursively', ok, bc.node,
           'test inputs (incl. those of driver children) are not collected')
    I = 'bfg9000.builtins.install:'
    for fq in (I + 'make_install_rule', I + 'ninja_install_rule'):
        f = F.fn(fq)
        hit = named(f, 'install', depth=0)
        ok = bool(hit) and all(has_const(deps_of(e), 'all') for e in hit)
        ctx.ob(R, fq + '|install<-all', ok, f.node,
               '`install` does not depend on `all`')
    for fq in (A + 'make_alias', A + 'ninja_alias'):
        f = F.fn(fq)
        ems = F.effects(f, lambda e: e.name in ('rule', 'build'), depth=0)
        ok = bool(ems) and all(
            'extra_deps' in _rule_roots(deps_of(e), Q.params(f.node)[0])
            and not has_call(deps_of(e), 'if') for e in ems)
        ctx.ob(R, fq + '|alias<-members', ok, f.node,
               'alias does not depend on exactly its members')


def check(ctx):
    ctx.not_decided += [
        '"changing any file rebuilds exactly the downstream steps" and "a '
        'build right after a build does nothing": behaviour of make/ninja '
        'over histories of file modifications']
    reg = G.Registry(ctx.repo)
    concrete = handlers(ctx, reg)
    deps_cover(ctx, reg, concrete)
    pass_through(ctx)
    owner.check(ctx)
    edge_init(ctx, concrete)
    defaults(ctx)
