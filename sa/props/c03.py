"""C03 -- Generated dependency graph equals the graph the build script
describes.

Decided: HANDLERS, DEPS-COVER, OUTPUT-COVER, RULE-OWNER, EDGE-INIT, DEFAULTS,
PASS-THROUGH (helper functions forward the dependency arguments).
Not decided: "changing a file rebuilds exactly the downstream steps", "a
second build does nothing" -- behaviour of make/ninja over histories.
"""
import ast

from ..cfg import EXIT, build as build_cfg
from ..index import AnalysisError, unparse, walk_no_nested
from .. import query as Q
from ..rules import graph as G
from ..rules import owner

C = 'bfg9000.builtins.compile:'
L = 'bfg9000.builtins.link:'
K = 'bfg9000.builtins.command:'
F = 'bfg9000.builtins.copy_file:'
A = 'bfg9000.builtins.alias:'

# attributes of each edge class that hold consumed nodes (confirmed by
# reading the constructors); one line of reason each
REQUIRED = {
    C + 'CompileSource': {
        'file': 'the source', 'pch': 'precompiled header used',
        'include_deps': 'generated/explicit headers passed as includes',
        'libs': 'libraries needed at compile time (jvm)',
        'packages': 'package build deps (packages[*].deps)',
        'extra_deps': 'explicit extra_deps'},
    C + 'CompileHeader': {
        'file': 'the header', 'pch_source': 'msvc pch source',
        'pch': 'precompiled header used',
        'include_deps': 'headers', 'libs': 'libs', 'packages': 'packages',
        'extra_deps': 'explicit extra_deps'},
    C + 'GenerateSource': {'file': 'the input', 'extra_deps': 'explicit'},
    L + 'DynamicLink': {
        'files': 'object files', 'libs': 'libraries incl. forwarded',
        'packages': 'package build deps', 'module_defs': '.def file',
        'manifest': 'jar manifest', 'extra_deps': 'explicit'},
    L + 'SharedLink': {
        'files': 'object files', 'libs': 'libraries', 'packages': 'packages',
        'module_defs': '.def file', 'manifest': 'jar manifest',
        'extra_deps': 'explicit'},
    L + 'StaticLink': {
        'files': 'object files', 'libs': 'libraries', 'packages': 'packages',
        'extra_deps': 'explicit'},
    K + 'Command': {'files': 'declared inputs',
                    'extra_deps': 'explicit + nodes named in the command'},
    K + 'BuildStep': {'files': 'declared inputs',
                      'extra_deps': 'explicit + nodes named in the command'},
    F + 'CopyFile': {'file': 'the copied file', 'extra_deps': 'explicit'},
    F + 'CompressFile': {'file': 'the file', 'extra_deps': 'explicit'},
    A + 'Alias': {'extra_deps': 'the alias members'},
}
# classes whose outputs are real files (need their output directory)
FILE_PRODUCERS = {C + 'CompileSource', C + 'CompileHeader',
                  C + 'GenerateSource', L + 'DynamicLink', L + 'SharedLink',
                  L + 'StaticLink', K + 'BuildStep', F + 'CopyFile',
                  F + 'CompressFile'}


def handlers(ctx, reg):
    R = 'HANDLERS'
    ctx.rule(R, 'BuildRuleHandler.run dispatches on the exact type of each '
             'edge: every Edge subclass that is instantiated anywhere has a '
             'registered handler in the make and in the ninja backend')
    repo = ctx.repo
    concrete, abstract = G.edge_classes(repo)
    ctx.require_min(R, len(concrete), 11, 'concrete edge classes')
    ctx.stat('edge_classes_concrete', sorted(c.fq for c in concrete))
    ctx.stat('edge_classes_abstract', sorted(c.fq for c in abstract))
    for c in concrete:
        for b in ('make', 'ninja'):
            ctx.ob(R, '{}|{}'.format(b, c.fq), c.fq in reg.handlers[b],
                   c.node, 'edge class {} has no {} rule handler: '
                   'BuildRuleHandler.run raises KeyError / the step is not '
                   'emitted'.format(c.name, b))
        if c.fq not in REQUIRED:
            ctx.ob(R, 'table|' + c.fq, False, c.node,
                   'new edge class {} is not in the checker\'s consumed-'
                   'attribute table; its dependencies are unchecked'.format(
                       c.name))
    # dispatch is by exact type
    run = repo.method('bfg9000.backends:BuildRuleHandler', 'run')
    ok = any(unparse(n) == 'self.handlers[type(e)]'
             for n in ast.walk(run.node))
    ctx.ob(R, 'BuildRuleHandler.run|exact-type-dispatch', ok, run.node,
           'dispatch is no longer self.handlers[type(e)]')
    loops = [n for n in walk_no_nested(run.node) if isinstance(n, ast.For)]
    ok = len(loops) == 1 and unparse(loops[0].iter) == 'edges'
    ctx.ob(R, 'BuildRuleHandler.run|all-edges', ok, run.node,
           'run() does not visit every edge')
    # writers feed every edge to the handlers
    for b in ('make', 'ninja'):
        w = repo.func(G.BACKEND_WRITERS[b] + ':write')
        ok = any(unparse(c) == 'rule_handler.run(build_inputs.edges(), '
                 'build_inputs, buildfile, env)' for c in Q.calls(w.node))
        ctx.ob(R, b + '.write|runs-handlers-on-all-edges', ok, w.node,
               'write() does not run the rule handlers over '
               'build_inputs.edges()')
    bi = repo.method('bfg9000.build_inputs:BuildInputs', 'edges')
    ok = unparse(Q.returns(bi.node)[0].value) == 'iter(self._edges)'
    ctx.ob(R, 'BuildInputs.edges|all', ok, bi.node, 'edges() filters edges')
    return concrete


def deps_cover(ctx, reg, concrete):
    R = 'DEPS-COVER'
    R2 = 'OUTPUT-COVER'
    ctx.rule(R, 'every handler passes every consumed-node attribute of its '
             'edge classes (sources, objects, libs, pch, headers, package '
             'deps, extra_deps, ...) to the dependency arguments of the '
             'rule/build statement it emits; order-only arguments hold only '
             'the output directories')
    ctx.rule(R2, 'the target/output argument of every handler derives from '
             'the whole of rule.output')
    repo = ctx.repo
    result = {}
    for b in ('make', 'ninja'):
        by_handler = {}
        for cfq, h in reg.handlers[b].items():
            by_handler.setdefault(h.fq, (h, []))[1].append(cfq)
        for hfq, (h, classes) in sorted(by_handler.items()):
            required = {}
            for cfq in classes:
                for a, why in REQUIRED.get(cfq, {}).items():
                    required[a] = why
            ro = G.Roots(h.node)
            ems = [(c, k) for c, k in G.emission_calls(h.node)
                   if k in G.DEP_ARGS]
            Q.require(ems, '{}: no rule/build emission found'.format(hfq))
            best = set()
            best_clean = set()
            out_roots = set()
            oo_roots = set()
            for c, k in ems:
                (oname, opos), deps, oos = G.DEP_ARGS[k]
                got = set()
                got_clean = set()
                for nm, pos in deps:
                    got |= ro.of(G.call_arg(c, nm, pos))
                    got_clean |= ro.clean(G.call_arg(c, nm, pos))
                if len(got) >= len(best):
                    best = got
                    best_clean = got_clean
                out_roots |= ro.of(G.call_arg(c, oname, opos))
                for nm, pos in oos:
                    oo_roots |= ro.of(G.call_arg(c, nm, pos))
            result[(b, hfq)] = best
            for a, why in sorted(required.items()):
                ctx.ob(R, '{}|{}|rule.{}'.format(b, hfq, a), a in best,
                       h.node, '{} handler {} does not make the step depend '
                       'on rule.{} ({})'.format(b, h.qualname, a, why))
                if a in best:
                    ctx.ob(R, '{}|{}|rule.{}|unconditional'.format(
                        b, hfq, a), a in best_clean, h.node,
                        '{} handler {} adds rule.{} to the dependencies '
                        'only under a condition that is not a presence test '
                        'of rule.{} itself ({})'.format(
                            b, h.qualname, a, a, why))
            ctx.ob(R2, '{}|{}'.format(b, hfq), 'output' in out_roots, h.node,
                   'the emitted target/output does not derive from '
                   'rule.output')
            # order-only
            if b == 'make' and any(c in FILE_PRODUCERS for c in classes):
                has_dd = any(
                    isinstance(n, ast.Call) and unparse(n) ==
                    'make.directory_deps(rule.output)'
                    for c, k in ems for n in ast.walk(c))
                ctx.ob(R, 'make|{}|order-only=directory_deps(output)'.format(
                    hfq), has_dd, h.node,
                    'output directories are not created before the step '
                    '(order_only=make.directory_deps(rule.output))')
            bad = oo_roots - {'output'}
            ctx.ob(R, '{}|{}|order-only-has-no-consumed-nodes'.format(
                b, hfq), not (bad & set(required)), h.node,
                'consumed nodes {} are only order-only dependencies'.format(
                    sorted(bad & set(required))))
    # the attributes in the table exist on the classes (anchors)
    for cfq, attrs in REQUIRED.items():
        ci = repo.cls(cfq)
        for a in attrs:
            found = False
            for c2 in ci.mro():
                for meth in c2.methods.values():
                    for n in ast.walk(meth):
                        if isinstance(n, ast.Attribute) and n.attr == a and \
                                isinstance(n.ctx, ast.Store):
                            found = True
            if not found and a in ('manifest', 'pch_source'):
                # assigned by a tool hook: step.manifest / step.pch_source
                for m in repo.modules.values():
                    for n in ast.walk(m.tree):
                        if isinstance(n, ast.Attribute) and n.attr == a and \
                                isinstance(n.ctx, ast.Store):
                            found = True
            if not found:
                raise AnalysisError('consumed attribute {}.{} is never '
                                    'assigned'.format(cfq, a))
    return result


def pass_through(ctx):
    R = 'PASS-THROUGH'
    ctx.rule(R, 'multitarget_rule and command_build forward the dependency '
             'arguments they receive to the statement they register; with '
             'several targets the stamp file carries the dependencies and '
             'every target depends on the stamp')
    repo = ctx.repo
    f = repo.func('bfg9000.backends.make.writer:multitarget_rule')
    rules = [c for c in Q.calls(f.node) if unparse(c.func) ==
             'buildfile.rule']
    Q.require(len(rules) == 2, 'multitarget_rule: expected two '
              'buildfile.rule calls')
    main = [c for c in rules if c.args and unparse(c.args[0]) == 'primary']
    ok = len(main) == 1 and [unparse(a) for a in main[0].args] == [
        'primary', 'deps', 'order_only', 'recipe', 'variables', 'phony']
    ctx.ob(R, 'multitarget_rule|primary-rule-gets-all-args', ok, f.node,
           'the primary rule does not receive deps/order_only/recipe/'
           'variables/phony unchanged')
    multi = [c for c in rules if c not in main]
    ok = len(multi) == 1 and unparse(Q.kwarg(multi[0], 'target')
                                     or ast.Constant(None)) == 'targets' \
        and unparse(Q.kwarg(multi[0], 'deps') or ast.Constant(None)) == \
        '[primary]'
    ctx.ob(R, 'multitarget_rule|targets-depend-on-stamp', ok, f.node,
           'with several targets, the targets do not all depend on the '
           'stamp file')
    # deps must not be reassigned
    for nm in ('deps', 'order_only'):
        ctx.ob(R, 'multitarget_rule|{}-not-reassigned'.format(nm),
               not Q.local_assignments(f.node, nm), f.node,
               '{} is modified before being forwarded'.format(nm))
    f = repo.func('bfg9000.backends.ninja.writer:command_build')
    builds = [c for c in Q.calls(f.node) if unparse(c.func) ==
              'buildfile.build' and Q.kwarg(c, 'variables') is not None]
    Q.require(len(builds) == 1, 'command_build: main build call not found')
    b = builds[0]
    ok = unparse(Q.kwarg(b, 'inputs')) == 'inputs' and \
        unparse(Q.kwarg(b, 'order_only')) == 'order_only' and \
        unparse(Q.kwarg(b, 'output')) == 'output' and \
        'implicit' in unparse(Q.kwarg(b, 'implicit'))
    ctx.ob(R, 'command_build|forwards-inputs-implicit-order_only', ok,
           f.node, 'command_build does not forward output/inputs/implicit/'
           'order_only')
    # Edge keeps extra_deps complete; BaseCommand adds nodes named in cmds
    f = repo.method(K + 'BaseCommand', '__init__')
    sup = [c for c in Q.calls(f.node) if unparse(c.func) ==
           'super().__init__']
    ok = len(sup) == 1 and unparse(Q.kwarg(sup[0], 'extra_deps')
                                   or ast.Constant(None)) == 'implicit'
    vals = [unparse(v) for v in Q.local_assignments(f.node, 'implicit')
            if v is not None]
    ok = ok and any('isinstance(i, Node)' in v and 'cmds' in v for v in vals)
    ext = any(unparse(c) == 'implicit.extend(iterate(extra_deps))'
              for c in Q.calls(f.node))
    ctx.ob(R, 'BaseCommand.__init__|cmd-nodes-become-extra_deps',
           ok and ext, f.node, 'files named in custom commands / extra_deps '
           'are not registered as dependencies of the step')


def edge_init(ctx, concrete):
    R = 'EDGE-INIT'
    ctx.rule(R, 'every Edge subclass __init__ reaches super().__init__ on '
             'every non-raising path; Edge.__init__ sets creator on every '
             'output, converts extra_deps into nodes and calls '
             'build.add_edge(self)')
    repo = ctx.repo
    base = repo.cls(G.EDGE)
    for ci in sorted(base.subclasses(), key=lambda c: c.fq):
        if '__init__' not in ci.methods:
            continue
        fn = ci.methods['__init__']
        g = build_cfg(fn)
        sups = [g.stmt_of(c) for c in Q.calls(fn, nested=False)
                if unparse(c.func) == 'super().__init__']
        ok = bool(sups) and g.must_pass(sups, EXIT)
        ctx.ob(R, ci.fq + '.__init__|reaches-super', ok, fn,
               'a non-raising path through {}.__init__ skips '
               'super().__init__: the edge is never registered'.format(
                   ci.name))
    f = repo.method(G.EDGE, '__init__')
    g = build_cfg(f.node)
    add = [g.stmt_of(c) for c in Q.calls(f.node, nested=False)
           if unparse(c) == 'build.add_edge(self)']
    ctx.ob(R, 'Edge.__init__|add_edge', bool(add) and g.must_pass(add, EXIT),
           f.node, 'Edge.__init__ does not always register the edge')
    loops = [n for n in walk_no_nested(f.node) if isinstance(n, ast.For) and
             unparse(n.iter) == 'self.output']
    ok = len(loops) == 1 and any(unparse(s) == 'i.creator = self'
                                 for s in loops[0].body)
    ctx.ob(R, 'Edge.__init__|creator-on-every-output', ok, f.node,
           'creator is not set on every output')
    vals = [unparse(n.value) for n in ast.walk(f.node)
            if isinstance(n, ast.Assign) and unparse(n.targets[0]) ==
            'self.output']
    ctx.ob(R, 'Edge.__init__|output=listify(output)',
           vals == ['listify(output)'], f.node, 'self.output is not the '
           'full list of outputs')
    ed = [n for n in ast.walk(f.node) if isinstance(n, ast.Assign) and
          unparse(n.targets[0]) == 'self.extra_deps']
    ok = len(ed) == 1 and 'iterate(extra_deps)' in unparse(ed[0].value) and \
        isinstance(ed[0].value, ast.ListComp) and not ed[0].value.generators[
            0].ifs
    ctx.ob(R, 'Edge.__init__|extra_deps-all-kept', ok, f.node,
           'extra_deps are filtered or dropped')
    ae = repo.method('bfg9000.build_inputs:BuildInputs', 'add_edge')
    ok = any(unparse(c) == 'self._edges.append(edge)' for c in
             Q.calls(ae.node))
    ctx.ob(R, 'BuildInputs.add_edge|appends', ok, ae.node,
           'add_edge does not record the edge')


def defaults(ctx):
    R = 'DEFAULTS'
    ctx.rule(R, 'the default target of both backends is taken from '
             'build_inputs[defaults].outputs (explicit else fallback); '
             'Link adds to the fallback set, test() removes its primary, '
             'install() calls default(); test/tests/install targets of make '
             'and ninja use the same member expressions')
    repo = ctx.repo
    D = 'bfg9000.builtins.default:'
    for fq, kw in ((D + 'make_all_rule', 'deps'),
                   (D + 'ninja_all_rule', 'inputs')):
        f = repo.func(fq)
        ems = [c for c in Q.calls(f.node) if unparse(c.func) in (
            'buildfile.rule', 'buildfile.build')]
        ok = len(ems) == 1 and unparse(Q.kwarg(ems[0], kw) or ast.Constant(
            None)) == "build_inputs['defaults'].outputs"
        tgt = Q.kwarg(ems[0], 'target') or Q.kwarg(ems[0], 'output') \
            if ems else None
        ok = ok and tgt is not None and unparse(tgt) == "'all'"
        ctx.ob(R, fq + '|all<-defaults.outputs', ok, f.node,
               '`all` does not depend on exactly the default outputs')
    f = repo.func(D + 'ninja_all_rule')
    ok = any(unparse(c) == "buildfile.default(['all'])"
             for c in Q.calls(f.node))
    ctx.ob(R, D + 'ninja_all_rule|default all', ok, f.node,
           'ninja default target is not `all`')
    # make: `all` must be the first rule => registered in a pre_rules_hook
    ok = any(unparse(d) == 'make.pre_rules_hook'
             for d in repo.func(D + 'make_all_rule').node.decorator_list)
    ctx.ob(R, D + 'make_all_rule|first-rule', ok, None,
           'make `all` rule is not registered before the edge rules (the '
           'first rule of a Makefile is its default goal)')
    p = repo.method(D + 'DefaultOutputs', 'outputs')
    ok = unparse(Q.returns(p.node)[0].value) == \
        'self.default_outputs or self.fallback_defaults'
    ctx.ob(R, 'DefaultOutputs.outputs|explicit-else-fallback', ok, p.node,
           'default set is not "explicit outputs, else fallback outputs"')
    a = repo.method(D + 'DefaultOutputs', 'add')
    ok = any(unparse(n) == 'self.default_outputs if explicit else '
             'self.fallback_defaults' for n in ast.walk(a.node))
    ctx.ob(R, 'DefaultOutputs.add|explicit-flag', ok, a.node,
           'add() does not separate explicit from fallback defaults')
    r = repo.method(D + 'DefaultOutputs', 'remove')
    ok = any(unparse(n) == 'self.default_outputs if explicit else '
             'self.fallback_defaults' for n in ast.walk(r.node))
    ctx.ob(R, 'DefaultOutputs.remove|explicit-flag', ok, r.node,
           'remove() does not separate explicit from fallback defaults')
    d = repo.func(D + 'default')
    ok = any(unparse(c) == "context.build['defaults'].add(i, explicit=True)"
             for c in Q.calls(d.node))
    ctx.ob(R, 'default()|explicit-add', ok, d.node,
           'default() does not add explicit defaults')
    li = repo.method(L + 'Link', '__init__')
    ok = any(unparse(c) == "build['defaults'].add(self.public_output)"
             for c in Q.calls(li.node))
    ctx.ob(R, 'Link.__init__|fallback-add', ok, li.node,
           'linked binaries are not added to the fallback default set')
    t = repo.method('bfg9000.builtins.tests:Test', '__init__')
    ok = any(unparse(c) == "context.build['defaults'].remove(primary)"
             for c in Q.calls(t.node))
    ctx.ob(R, 'Test.__init__|removes-primary', ok, t.node,
           'test() does not remove its program from the fallback defaults')
    ins = repo.func('bfg9000.builtins.install:install')
    ok = any(unparse(c) == "context['default'](*args)"
             for c in Q.calls(ins.node))
    ctx.ob(R, 'install()|calls-default', ok, ins.node,
           'install() does not make its arguments default targets')
    # tests: tests target depends on inputs of all tests + extra deps
    T = 'bfg9000.builtins.tests:'
    for fq, call, kw in ((T + 'make_test_rule', 'buildfile.rule', 'deps'),
                         (T + 'ninja_test_rule', 'buildfile.build',
                          'inputs')):
        f = repo.func(fq)
        hit = [c for c in Q.calls(f.node) if unparse(c.func) == call and
               unparse(Q.kwarg(c, 'target') or Q.kwarg(c, 'output') or
                       ast.Constant(None)) == "'tests'"]
        ok = len(hit) == 1 and unparse(Q.kwarg(hit[0], kw)) == \
            'deps + tests.extra_deps'
        ctx.ob(R, fq + '|tests<-deps+extra_deps', ok, f.node,
               '`tests` does not depend on deps + tests.extra_deps')
    f = repo.func(T + 'make_test_rule')
    hit = [c for c in Q.calls(f.node) if unparse(c.func) == 'buildfile.rule'
           and unparse(Q.kwarg(c, 'target')) == "'test'"]
    ok = len(hit) == 1 and unparse(Q.kwarg(hit[0], 'deps')) == "'tests'"
    ctx.ob(R, T + 'make_test_rule|test<-tests', ok, f.node,
           '`test` does not depend on `tests`')
    f = repo.func(T + 'ninja_test_rule')
    hit = [c for c in Q.calls(f.node) if unparse(c.func) ==
           'ninja.command_build' and unparse(Q.kwarg(c, 'output')) ==
           "'test'"]
    ok = len(hit) == 1 and unparse(Q.kwarg(hit[0], 'inputs')) == "'tests'"
    ctx.ob(R, T + 'ninja_test_rule|test<-tests', ok, f.node,
           '`test` does not depend on `tests`')
    bc = repo.func(T + '_build_commands')
    ok = any(unparse(c) == 'deps.extend(i.inputs)' for c in Q.calls(bc.node))\
        and any(unparse(c) == 'deps.extend(more_deps)'
                for c in Q.calls(bc.node))
    ctx.ob(R, '_build_commands|collects-inputs-recursively', ok, bc.node,
           'test inputs (incl. those of driver children) are not collected')
    # install: depends on all
    I = 'bfg9000.builtins.install:'
    f = repo.func(I + 'make_install_rule')
    hit = [c for c in Q.calls(f.node) if unparse(c.func) == 'buildfile.rule'
           and unparse(Q.kwarg(c, 'target')) == "'install'"]
    ok = len(hit) == 1 and unparse(Q.kwarg(hit[0], 'deps')) == "'all'"
    ctx.ob(R, I + 'make_install_rule|install<-all', ok, f.node,
           '`install` does not depend on `all`')
    f = repo.func(I + 'ninja_install_rule')
    hit = [c for c in Q.calls(f.node) if unparse(c.func) ==
           'ninja.command_build' and unparse(Q.kwarg(c, 'output')) ==
           "'install'"]
    ok = len(hit) == 1 and unparse(Q.kwarg(hit[0], 'inputs')) == "['all']"
    ctx.ob(R, I + 'ninja_install_rule|install<-all', ok, f.node,
           '`install` does not depend on `all`')
    # alias: members
    for fq, kw in ((A + 'make_alias', 'deps'), (A + 'ninja_alias', 'inputs')):
        f = repo.func(fq)
        ems = [c for c in Q.calls(f.node) if unparse(c.func) in (
            'buildfile.rule', 'buildfile.build')]
        ok = len(ems) == 1 and unparse(Q.kwarg(ems[0], kw)) == \
            'rule.extra_deps'
        ctx.ob(R, fq + '|alias<-members', ok, f.node,
               'alias does not depend on exactly its members')


def check(ctx):
    ctx.not_decided += [
        '"changing any file rebuilds exactly the downstream steps" and "a '
        'build right after a build does nothing": behaviour of make/ninja '
        'over histories of file modifications']
    reg = G.Registry(ctx.repo)
    concrete = handlers(ctx, reg)
    deps_cover(ctx, reg, concrete)
    pass_through(ctx)
    owner.check(ctx)
    edge_init(ctx, concrete)
    defaults(ctx)
