"""C16 -- Semantic options have their documented effect with the detected
compiler.

Decided: OPTION-EXHAUSTIVE (every option class is handled by the cc compiler
and/or linker translation; every enum value has a translation) and
FLAG-GRAMMAR (every flag literal tools/cc/* can emit is a word of the GCC/
Clang driver option grammar in sa/tables.py), FLAG-MERGE (global + target
flags are concatenated in both _get_flags).
Not decided: acceptance by the *detected* compiler and the effect on the
compiled program.
"""
import ast
import re

from ..consteval import EnumMember, UNKNOWN, const_eval, enum_members
from ..facts import Facts, direct, has, has_call, has_const, param_of
from ..index import AnalysisError, unparse, walk_no_nested
from .. import query as Q
from .. import tables as T


def _facts(ctx):
    f = getattr(ctx, '_facts', None)
    if f is None:
        f = ctx._facts = Facts(ctx.repo)
    return f

OPTS = 'bfg9000.options'
CC_COMPILER = 'bfg9000.tools.cc.compiler:CcBaseCompiler'
CC_LINKER = 'bfg9000.tools.cc.linker:CcLinker'

# which side must translate each option (confirmed by reading options.py's
# "Compilation options" / "Link options" / "General options" sections)
COMPILE_ONLY = {'include_dir', 'pch', 'pic', 'sanitize', 'std', 'warning',
                'define'}
LINK_ONLY = {'entry_point', 'install_name_change', 'lib', 'lib_dir',
             'lib_literal', 'module_def', 'rpath_link_dir', 'gui',
             'rpath_dir'}
BOTH = {'debug', 'pthread', 'static', 'optimize'}
EXEMPT = {'lang': 'only meaningful to lex/yacc (tools/lex.py, tools/yacc.py '
                  'translate it); never passed to a cc tool'}


def option_classes(repo):
    m = repo.module(OPTS)
    names = []
    for name, v in m.assigns.items():
        if isinstance(v, ast.Call) and unparse(v.func) in (
                'option', 'variadic_option'):
            names.append(name)
    for name, d in m.defs.items():
        if isinstance(d, ast.ClassDef) and any(
                unparse(b) == 'Option' for b in d.bases):
            names.append(name)
    return sorted(set(names))


def handled_options(repo, fn, F=None):
    """Option class names tested with isinstance(i, opts.X) in a function
    (or in the helpers of the same class it calls); the tested type may be
    spelled directly, as a tuple, or through a local."""
    out = set()
    funcs = [fn._func] if getattr(fn, '_func', None) is not None else []
    if F is not None and funcs:
        funcs = [g for g in F.reach(funcs[0], 1)
                 if g.cls is funcs[0].cls or g.module is funcs[0].module]
    for g in funcs:
        for n in ast.walk(g.node):
            if isinstance(n, ast.Call) and unparse(n.func) == 'isinstance' \
                    and len(n.args) == 2:
                for t in ast.walk(n.args[1]):
                    if isinstance(t, ast.Attribute) and unparse(
                            t.value) == 'opts':
                        out.add(t.attr)
                if F is not None:
                    for a in F.atoms(n.args[1], g):
                        if a.startswith('via:'):
                            a = a[4:]        # a row of a dispatch table
                        if a.startswith('opts.') and a.count('.') == 1:
                            out.add(a.split('.')[1])
    return out


def option_exhaustive(ctx):
    R = 'OPTION-EXHAUSTIVE'
    ctx.rule(R, 'every option class of options.py is translated by the cc '
             'compiler and/or linker flag functions (side per options.py '
             'section), unknown options raise, and every member of '
             'OptimizeValue/WarningValue has a translation')
    repo = ctx.repo
    classes = option_classes(repo)
    ctx.ob(R, 'option-classes|found', len(classes) >= 15, None,
           'only {} option classes found'.format(len(classes)))
    cf = repo.method(CC_COMPILER, 'flags')
    lf = repo.method(CC_LINKER, 'flags')
    llf = repo.method(CC_LINKER, 'lib_flags')
    F = _facts(ctx)
    comp = handled_options(repo, cf.node, F)
    link = handled_options(repo, lf.node, F) | handled_options(
        repo, llf.node, F)
    for c in classes:
        if c in EXEMPT:
            ctx.ob(R, 'option|' + c, True, None, 'allow-listed: ' + EXEMPT[c])
            continue
        if c in COMPILE_ONLY:
            ok, where = c in comp, 'CcBaseCompiler.flags'
        elif c in LINK_ONLY:
            ok, where = c in link, 'CcLinker.flags/lib_flags'
        elif c in BOTH:
            ok, where = c in comp and c in link, 'both compiler and linker'
        else:
            # a new option class: must be handled somewhere
            ok, where = c in comp or c in link, 'compiler or linker'
        ctx.ob(R, 'option|' + c, ok, cf.node if c in COMPILE_ONLY else
               lf.node, 'option {} is not translated by {}'.format(c, where))
    # unknown options are rejected, strings pass through
    for f in (cf, lf):
        chain_else = False
        for g in F.reach(f, 1):
            if g.cls is not f.cls:
                continue
            for n in ast.walk(g.node):
                if isinstance(n, ast.Raise):
                    neg = [t for t, pos in F.guard_truths(n, g)
                           if not pos and has_call(F.atoms(t, g),
                                                   'isinstance')]
                    if len(neg) >= 5:
                        chain_else = True
                    # table-driven dispatch (`for kind, .. in table: if
                    # isinstance(i, kind): ..; break` ... else: raise): the
                    # raise is control-dependent on an isinstance test over
                    # at least as many option kinds
                    kinds = set()
                    for t in F.cfg_tests(n, g):
                        if isinstance(t, ast.Call) and unparse(
                                t.func) == 'isinstance' and len(t.args) == 2:
                            for a in F.atoms(t.args[1], g):
                                a = a[4:] if a.startswith('via:') else a
                                if a.startswith('opts.'):
                                    kinds.add(a)
                    # ... or on the result of a helper that tried them
                    for a in F.control(n, g):
                        a = a[4:] if a.startswith('via:') else a
                        if a.startswith('opts.') and a.count('.') == 1:
                            kinds.add(a)
                    if len(kinds) >= 5:
                        chain_else = True
        ctx.ob(R, f.fq + '|unknown-option-raises', chain_else, f.node,
               'unknown option types are silently ignored')
        ctx.ob(R, f.fq + '|strings-pass-through',
               any('stringy_types' in unparse(n) or (
                   len(n.args) == 2 and has(F.atoms(n.args[1], g),
                                            'stringy_types'))
                   for g in F.reach(f, 1) if g.cls is f.cls
                   for n in ast.walk(g.node)
                   if isinstance(n, ast.Call) and unparse(n.func) ==
                   'isinstance'), f.node, 'raw string options are dropped')
    # each isinstance branch that is not an explicit `pass` emits something
    for f in (cf, lf, llf):
        for ty, body in _branches(f.node):
            def _emitting(n, d=0):
                if not isinstance(n, ast.Call):
                    return False
                if Q.callee_attr(n) in ('append', 'extend'):
                    return True
                callee = F.flow.resolve_call(n, f) if d < 2 else None
                # a helper method of the class that does the emitting
                return callee is not None and callee.cls is f.cls and any(
                    _emitting(x, d + 1) for x in ast.walk(callee.node))
            emits = any(_emitting(n) for s in body for n in ast.walk(s))
            is_pass = all(isinstance(s, ast.Pass) for s in body)
            if ty in ('static',) and f is cf:
                continue
            if ty in ('install_name_change', 'lib_literal') and f is lf:
                continue
            ctx.ob(R, '{}|branch-emits|{}'.format(f.fq, ty),
                   emits and not is_pass, f.node,
                   'the branch for option {} emits no flag'.format(ty))
    # enum coverage
    flags_mod = repo.module('bfg9000.tools.cc.flags')
    table = flags_mod.assigns.get('optimize_flags')
    Q.require(table is not None, 'cc.flags.optimize_flags missing')
    # the table as a constant: a dict display and/or module-level item
    # assignments
    tv = const_eval(repo, flags_mod, ast.Name(id='optimize_flags',
                                              ctx=ast.Load()))
    Q.require(isinstance(tv, dict), 'cc.flags.optimize_flags is not a '
              'constant table')
    keys = {k.name for k in tv if isinstance(k, EnumMember)}
    for mname in enum_members(repo, OPTS, 'OptimizeValue'):
        ctx.ob(R, 'OptimizeValue.{}|cc.optimize_flags'.format(mname),
               mname in keys, table,
               'OptimizeValue.{} has no cc translation'.format(mname))
    # both sides index the table with the option's values
    for f in (cf, lf):
        ok = has(F.returns(f), 'optimize_flags')
        ctx.ob(R, f.fq + '|uses-optimize_flags', ok, f.node,
               'optimize values are not translated through optimize_flags')
    # WarningValue: explicit branch for disable, '-W' + name otherwise
    members = enum_members(repo, OPTS, 'WarningValue')
    ctx.stat('warning_members', members)
    r = F.returns(cf)
    own = [g for g in F.reach(cf, 1) if g.cls is cf.cls]
    wn = [(n, g) for g in own for n in F.consts(g, lambda v: v == '-w')]
    ok = bool(wn) and has_const(r, '-w') and all(
        any(op == 'Eq' and (has(l, 'WarningValue', 'disable') or
                            has(rr, 'WarningValue', 'disable'))
            for op, l, rr in F.guard_compares(n, g)) for n, g in wn)
    ctx.ob(R, 'WarningValue|disable->-w', ok, cf.node,
           'warning(disable) is not translated to -w (only)')
    wN = [(n, g) for g in own for n in F.consts(g, lambda v: v == '-W')]
    ok = False
    for n, g in wN:
        p = getattr(n, '_parent', None)
        if isinstance(p, (ast.BinOp, ast.JoinedStr, ast.Call, ast.Attribute)):
            while isinstance(p, ast.Attribute):
                p = getattr(p, '_parent', None)
            at = F.atoms(p, g)
            if has(at, 'value', 'name') or has(at, 'name'):
                ok = has_const(r, '-W')
    ctx.ob(R, 'WarningValue|others->-W<name>', ok, cf.node,
           'warning levels are not translated to -W<name>')


def _branches(fn):
    out = []
    for n in walk_no_nested(fn):
        if isinstance(n, ast.If) and isinstance(n.test, ast.Call) and \
                unparse(n.test.func) == 'isinstance' and len(
                    n.test.args) == 2:
            t = n.test.args[1]
            if isinstance(t, ast.Attribute) and unparse(t.value) == 'opts':
                out.append((t.attr, n.body))
    return out


def _final_else(fn):
    """The isinstance chain over options ends in `else: raise`."""
    for n in walk_no_nested(fn):
        if isinstance(n, ast.For):
            for st in n.body:
                if isinstance(st, ast.If):
                    cur = st
                    while len(cur.orelse) == 1 and isinstance(
                            cur.orelse[0], ast.If):
                        cur = cur.orelse[0]
                    if any(isinstance(s, ast.Raise) for s in cur.orelse):
                        return True
    return False


FLAG_FUNCS = [
    (CC_COMPILER, 'flags'), (CC_COMPILER, '_call'),
    (CC_COMPILER, '_always_flags'), (CC_COMPILER, '_include_dir'),
    (CC_LINKER, 'flags'), (CC_LINKER, 'lib_flags'), (CC_LINKER, '_call'),
    (CC_LINKER, '_always_flags'), (CC_LINKER, '_link_lib'),
    ('bfg9000.tools.cc.linker:CcSharedLibraryLinker', '_always_flags'),
    ('bfg9000.tools.cc.linker:CcSharedLibraryLinker', '_soname'),
    ('bfg9000.tools.cc.linker:CcSharedLibraryLinker', '_call'),
]


def _flag_literals(repo, fnode, mod):
    """(literal, is_prefix, node) for every flag-like string constant."""
    out = []
    for n in ast.walk(fnode):
        if isinstance(n, ast.Constant) and isinstance(n.value, str) and \
                n.value.startswith('-') and len(n.value) > 1:
            p = getattr(n, '_parent', None)
            prefix = False
            if isinstance(p, ast.BinOp) and isinstance(p.op, ast.Add) and \
                    p.left is n:
                prefix = True
            if isinstance(p, ast.Attribute) and p.attr == 'format':
                prefix = True
            if isinstance(p, ast.Compare):
                continue     # comparison, not emission
            out.append((n.value, prefix, n))
    return out


def flag_grammar(ctx):
    R = 'FLAG-GRAMMAR'
    ctx.rule(R, 'every flag literal the cc compiler/linker classes can emit '
             'is a word (or the fixed prefix of a word) of the GCC/Clang '
             'driver option grammar')
    repo = ctx.repo
    grammar = [re.compile(g) for g in T.GCC_FLAG_GRAMMAR]

    def in_grammar(lit, prefix):
        cands = [lit]
        if prefix:
            stem = lit.split('{')[0]
            cands = [stem + 'x', stem]
        return any(g.fullmatch(c) for g in grammar for c in cands)

    n = 0
    for cls_fq, meth in FLAG_FUNCS:
        f = repo.method(cls_fq, meth)
        for lit, prefix, node in _flag_literals(repo, f.node, f.module):
            if lit == '-W' and prefix:
                # '-W' + j.name over WarningValue members except disable
                for mname in enum_members(repo, OPTS, 'WarningValue'):
                    if mname == 'disable':
                        continue
                    n += 1
                    ctx.ob(R, '{}|-W{}'.format(f.fq, mname),
                           in_grammar('-W' + mname, False), node,
                           '-W{} is not a GCC/Clang option'.format(mname))
                continue
            n += 1
            ctx.ob(R, '{}|{}'.format(f.fq, lit), in_grammar(lit, prefix),
                   node, 'flag {!r} is not an option of the GCC/Clang '
                   'driver'.format(lit))
    m = repo.module('bfg9000.tools.cc.flags')
    table = m.assigns.get('optimize_flags')
    for k, v in zip(table.keys, table.values):
        lit = const_eval(repo, m, v)
        if not isinstance(lit, str):
            raise AnalysisError('optimize_flags: non-constant value')
        n += 1
        ctx.ob(R, 'cc.flags.optimize_flags|{}|{}'.format(unparse(k), lit),
               in_grammar(lit, False), v,
               'flag {!r} (for {}) is not an option of the GCC/Clang driver'
               .format(lit, unparse(k)))
    ctx.require_min(R, n, 35, 'flag literals')


def flag_merge(ctx):
    R = 'FLAG-MERGE'
    ctx.rule(R, 'per-target flags are appended after the global flags '
             '(environment flags + global options) in compile and link '
             '_get_flags, unfiltered; CcBuilder takes the environment flags')
    F = _facts(ctx)
    for fq, pairs in (
            ('bfg9000.builtins.compile:_get_flags', [('flags', 'flags')]),
            ('bfg9000.builtins.link:_get_flags',
             [('flags', 'flags'), ('libs', 'lib_flags')])):
        f = F.fn(fq)
        fv = F.calls_to(f, 'flags_vars', depth=0)
        for what, meth in pairs:
            # variables[<target var>] = [<global var>] + <rule>.<meth>(gopts)
            ok = False
            cands = []
            for n in walk_no_nested(f.node):
                if isinstance(n, ast.Assign) and isinstance(
                        n.targets[0], ast.Subscript):
                    cands.append((n.value, n.targets[0].slice))
            # ... or the variables mapping is returned as a dict display
            for r_ in Q.returns(f.node):
                for d_ in ast.walk(r_.value) if r_.value is not None else []:
                    if isinstance(d_, ast.Dict):
                        cands += [(v_, k_) for k_, v_ in zip(d_.keys,
                                                            d_.values)
                                  if k_ is not None]
            for v, key in cands:
                if isinstance(v, ast.BinOp) and isinstance(v.op, ast.Add):
                    l, r = F.atoms(v.left, f), F.atoms(v.right, f)
                    if has_call(direct(r), meth) and has(r, 'rule') and \
                            has_call(direct(l), 'flags_vars') and \
                            not has_call(direct(l), meth):
                        # every per-target flag is kept: not filtered
                        # against the global flags (a later per-target
                        # option must be able to override an earlier one)
                        ok = has_call(F.atoms(key, f), 'flags_vars') and \
                            not has_call(r, 'if')
            ctx.ob(R, '{}|target-{}=[global]+per-target'.format(fq, what),
                   ok, f.node, 'target {} are not [global variable] + '
                   'per-target flags'.format(what))
            g_ok = any(
                has(e.arg(1), 'global_' + ('libs' if what == 'libs'
                                           else 'flags')) and
                any(meth + "(~, mode='global')" in a for a in e.arg(1))
                for e in fv)
            ctx.ob(R, '{}|global-{}=tool.global+tool.{}(mode=global)'.format(
                fq, what, meth), g_ok, f.node,
                'global flags are not tool.global_* + tool.{}(gopts, '
                'mode=global)'.format(meth))
            # ... in that order (the same order compile_commands.json
            # uses, C06): flags from the environment first, then the
            # project's global options, so that a semantic option is not
            # overridden by an earlier-intended environment flag
            from . import c03 as _c03
            order_ok = None
            for e in fv:
                x = Q.arg(e.call, 1, 'value')
                if x is None or e.fn is not f:
                    continue
                if not (has(e.arg(1), 'global_' + (
                        'libs' if what == 'libs' else 'flags'))):
                    continue
                ig = io = None
                for i_, t in enumerate(_c03._terms(F, x, f)):
                    a = F.atoms(t, f)
                    if ig is None and has(a, 'global_' + (
                            'libs' if what == 'libs' else 'flags')):
                        ig = i_
                    if io is None and any(
                            meth + "(~, mode='global')" in z for z in a):
                        io = i_
                if ig is not None and io is not None:
                    order_ok = ig < io if order_ok is None else (
                        order_ok and ig < io)
            if order_ok is not None:
                ctx.ob(R, '{}|global-{}-order'.format(fq, what), order_ok,
                       f.node, 'the project\'s global options are placed '
                       'before the flags from the environment (the compdb '
                       'emitter and the documented precedence say the '
                       'opposite)')


def option_order(ctx):
    R = 'FLAG-MERGE'
    F = _facts(ctx)
    for fq, user in (('bfg9000.builtins.compile:Compile.options',
                      'user_options'),
                     ('bfg9000.builtins.link:DynamicLink.options',
                      'user_options'),
                     ('bfg9000.builtins.link:StaticLink.options',
                      'user_static_options')):
        f = F.fn(fq)
        ok = False
        for r in F.flow._returns(f):
            q = r
            if isinstance(q, ast.BinOp) and isinstance(q.op, ast.Add):
                l, rr = F.atoms(q.left, f), F.atoms(q.right, f)
                ok = has(l, 'self', '_internal_options') and has(
                    rr, 'self', user) and not has(l, 'self', user)
        ctx.ob(R, fq + '|internal-options-then-user-options', ok, f.node,
               'the user\'s options do not come after the automatically '
               'added ones: later words win for most driver options, so '
               'user options could no longer override them')
    cb = F.fn('bfg9000.tools.cc:CcBuilder.__init__')
    fl = [e for e in F.effects(cb, lambda e: bool(e.arg(kw='flags')) or
                               bool(e.arg(kw='libs')), depth=0)]
    ok = len(fl) >= 3 and not any(
        has_call(e.arg(kw=k), x) for e in fl for k in ('flags', 'libs')
        for x in ('uniques', 'set', 'frozenset', 'sorted'))
    ctx.ob(R, 'CcBuilder.__init__|environment-flags-kept-verbatim', ok,
           cb.node, 'flags from the environment are de-duplicated or '
           'reordered: `-Xlinker a -Xlinker b`, repeated -framework/-arch '
           'words lose their meaning')


def option_identity(ctx):
    R = 'OPTION-IDENTITY'
    ctx.rule(R, 'option_list de-duplicates semantic options only when they '
             'are equal in every field (Option.matches is full equality and '
             'no option class weakens it), so a later define/std/... with a '
             'different value is kept; environment flag variables are split '
             'with sh rules (shell.split); default include directories are '
             'probed with the environment flags; the -l<name> pattern is '
             'anchored as a whole')
    repo = ctx.repo
    base = repo.cls(OPTS + ':Option')
    F = _facts(ctx)
    mt = base.methods.get('matches')
    ok = False
    if mt is not None:
        for r in Q.returns(mt):
            v = r.value
            if isinstance(v, ast.Compare) and len(v.ops) == 1 and isinstance(
                    v.ops[0], ast.Eq):
                a = F.atoms(v.left, mt._func) | F.atoms(
                    v.comparators[0], mt._func)
                ok = param_of(a, 'self') and param_of(
                    a, Q.params(mt)[1])
            elif isinstance(v, ast.Call) and Q.callee_attr(v) == '__eq__':
                ok = True
    ctx.ob(R, 'Option.matches|full-equality', ok, mt or base.node,
           'Option.matches is not equality of the two options')
    eq = base.methods.get('__eq__')
    ok = False
    if eq is not None:
        a = F.returns(eq._func) | F.return_control(eq._func)
        ok = has(a, '__slots__') and has_call(a, 'type')
    ctx.ob(R, 'Option.__eq__|all-slots', ok, eq or base.node,
           'Option equality does not compare the type and every field')
    for ci in sorted(base.subclasses(), key=lambda c: c.fq):
        for nm in ('matches', '__eq__'):
            if nm in ci.methods:
                ctx.ob(R, '{}|overrides-{}'.format(ci.fq, nm), False,
                       ci.methods[nm],
                       'option class {} overrides {}: options that differ in '
                       'a field may be treated as duplicates and dropped'
                       .format(ci.name, nm))
    # include directories: "default" search dirs are computed with CPATH
    # neutralised, so a requested directory that merely is on CPATH still
    # gets its -I flag (and its position in the search order)
    idf = F.fn(CC_COMPILER + '._include_dir')
    sds = F.calls_to(idf, '_search_dirs', depth=0)
    ok = bool(sds) and all(
        e.call.args and isinstance(e.call.args[0], ast.Constant) and
        e.call.args[0].value is None or
        isinstance(Q.kwarg(e.call, 'cpath'), ast.Constant) and
        Q.kwarg(e.call, 'cpath').value is None for e in sds)
    ctx.ob(R, 'CcBaseCompiler._include_dir|default-dirs-without-CPATH',
           ok, idf.node,
           'default include dirs are computed with the ambient CPATH '
           'included: an include_dir option for a directory on CPATH emits '
           'no -I flag')
    sd = F.fn(CC_COMPILER + '._search_dirs')
    envs = [e for e in F.effects(sd, lambda e: Q.kwarg(e.call, 'env')
                                 is not None or Q.kwarg(e.call, 'extra_env')
                                 is not None, depth=0)]
    a = set()
    for e in envs:
        a |= e.all_args()
    ok = ('key:\'CPATH\'' in a or has_const(a, 'CPATH')) and param_of(
        a, 'cpath')
    ctx.ob(R, 'CcBaseCompiler._search_dirs|cpath-override', ok, sd.node,
           'the cpath argument does not override CPATH for the probe')
    # the probe runs the compiler as the build will: with the flags from
    # the environment (-nostdinc, --sysroot=... change the default list)
    ok = bool(envs) and all(has(e.arg(0), 'self', 'global_flags') and has(
        e.arg(0), 'self', 'command') for e in envs)
    ctx.ob(R, 'CcBaseCompiler._search_dirs|probed-with-environment-flags',
           ok, sd.node, 'the default include directories are probed '
           'without the environment flags: with CFLAGS=-nostdinc an '
           'include_dir for a would-be default directory is dropped')
    # -l<name> extraction: the pattern is anchored as a whole
    from ..consteval import const_eval as _ce
    li = F.fn('bfg9000.tools.cc.linker:CcLinker.__init__')
    pats = []
    for n_ in ast.walk(li.node):
        if isinstance(n_, ast.Call) and unparse(n_.func) in (
                're.compile', 'compile') and n_.args:
            # the list of alternatives is built at run time: fold the
            # pattern for a sample list (whatever the local is called)
            env_ = {x.args[0].id: ['lib(.*)\\.a', 'lib(.*)\\.so']
                    for x in ast.walk(n_.args[0])
                    if isinstance(x, ast.Call) and isinstance(
                        x.func, ast.Attribute) and x.func.attr == 'join' and
                    len(x.args) == 1 and isinstance(x.args[0], ast.Name)}
            p_ = _ce(repo, li.module, n_.args[0], li.cls, env_)
            if isinstance(p_, str):
                pats.append(p_)
    import re as _re

    def libname(p_, s_):
        m_ = _re.match(p_, s_)
        if not m_:
            return None
        return next((g_ for g_ in m_.groups() if g_ is not None), None)
    Q.require(bool(pats), 'CcLinker.__init__: library-name pattern not '
              'found')
    ok = bool(pats) and all(
        libname(p_, 'libfoo.a') == 'foo' and libname(
            p_, 'libfoo.so') == 'foo' and libname(
                p_, 'libvendor.api.so') == 'vendor.api' and libname(
                    p_, 'libfoo.a.bak') is None for p_ in pats)
    ctx.ob(R, 'CcLinker._lib_re|whole-name-anchored', ok, li.node,
           'the library-name pattern {} is not anchored as a whole: '
           '`libvendor.api.so` is read as -lvendor'.format(pats))
    F = _facts(ctx)
    cb = F.fn('bfg9000.tools.cc:CcBuilder.__init__')
    gets = F.effects(cb, lambda e: e.name == 'getvar', depth=1)
    splits = F.effects(cb, lambda e: e.name == 'split', depth=1)
    raw = [e for e in splits if has_call(direct(e.recv()), 'getvar') and not
           any(h.endswith('shell.split') for h in e.heads())]
    ctx.ob(R, 'CcBuilder.__init__|no-str.split-of-environment', not raw,
           raw[0].call if raw else cb.node,
           'an environment variable is split on whitespace with '
           'str.split() instead of sh rules (shell.split): a quoted word '
           'containing a space is torn apart')
    shsplit = set()
    for e in splits:
        if any(h.endswith('shell.split') or h == 'split' for h in
               e.heads()) and not isinstance(e.call.func.value
                                             if isinstance(
                                                 e.call.func, ast.Attribute)
                                             else None, ast.Call):
            shsplit |= e.arg(0)
    for want, pat in (("'CPPFLAGS'", ("getvar('CPPFLAGS'",)),
                      ("langinfo.var('flags')", ("langinfo.var('flags')",)),
                      ("ldinfo.var('flags')", ("var('flags')",
                                               "['dynamic']")),
                      ("ldinfo.var('libs')", ("var('libs')",))):
        ok = any(all(x in a for x in pat) for a in shsplit)
        ctx.ob(R, 'CcBuilder.__init__|shell.split(env.getvar({}))'.format(
            want), ok, cb.node,
            'the flags variable {} is not read through '
            'shell.split(env.getvar(...)) (sh word splitting)'.format(want))


def check(ctx):
    ctx.not_decided += [
        'acceptance of each flag by the compiler actually detected on the '
        'system', 'the effect of the flag on the compiled program',
        'msvc / jvm translations (siblings listed in evidence only)']
    option_exhaustive(ctx)
    flag_grammar(ctx)
    flag_merge(ctx)
    option_order(ctx)
    option_identity(ctx)
