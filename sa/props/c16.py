"""C16 -- Semantic options have their documented effect with the detected
compiler.

Decided: OPTION-EXHAUSTIVE (every option class is handled by the cc compiler
and/or linker translation; every enum value has a translation) and
FLAG-GRAMMAR (every flag literal tools/cc/* can emit is a word of the GCC/
Clang driver option grammar in sa/tables.py), FLAG-MERGE (global + target
flags are concatenated in both _get_flags).
Not decided: acceptance by the *detected* compiler and the effect on the
compiled program.
"""
import ast
import re

from ..consteval import EnumMember, UNKNOWN, const_eval, enum_members
from ..index import AnalysisError, unparse, walk_no_nested
from .. import query as Q
from .. import tables as T

OPTS = 'bfg9000.options'
CC_COMPILER = 'bfg9000.tools.cc.compiler:CcBaseCompiler'
CC_LINKER = 'bfg9000.tools.cc.linker:CcLinker'

# which side must translate each option (confirmed by reading options.py's
# "Compilation options" / "Link options" / "General options" sections)
COMPILE_ONLY = {'include_dir', 'pch', 'pic', 'sanitize', 'std', 'warning',
                'define'}
LINK_ONLY = {'entry_point', 'install_name_change', 'lib', 'lib_dir',
             'lib_literal', 'module_def', 'rpath_link_dir', 'gui',
             'rpath_dir'}
BOTH = {'debug', 'pthread', 'static', 'optimize'}
EXEMPT = {'lang': 'only meaningful to lex/yacc (tools/lex.py, tools/yacc.py '
                  'translate it); never passed to a cc tool'}


def option_classes(repo):
    m = repo.module(OPTS)
    names = []
    for name, v in m.assigns.items():
        if isinstance(v, ast.Call) and unparse(v.func) in (
                'option', 'variadic_option'):
            names.append(name)
    for name, d in m.defs.items():
        if isinstance(d, ast.ClassDef) and any(
                unparse(b) == 'Option' for b in d.bases):
            names.append(name)
    return sorted(set(names))


def handled_options(repo, fn):
    """Option class names tested with isinstance(i, opts.X) in a function."""
    out = set()
    for n in ast.walk(fn):
        if isinstance(n, ast.Call) and unparse(n.func) == 'isinstance' and \
                len(n.args) == 2:
            for t in ast.walk(n.args[1]):
                if isinstance(t, ast.Attribute) and unparse(
                        t.value) == 'opts':
                    out.add(t.attr)
    return out


def option_exhaustive(ctx):
    R = 'OPTION-EXHAUSTIVE'
    ctx.rule(R, 'every option class of options.py is translated by the cc '
             'compiler and/or linker flag functions (side per options.py '
             'section), unknown options raise, and every member of '
             'OptimizeValue/WarningValue has a translation')
    repo = ctx.repo
    classes = option_classes(repo)
    ctx.require_min(R, len(classes), 21, 'option classes')
    cf = repo.method(CC_COMPILER, 'flags')
    lf = repo.method(CC_LINKER, 'flags')
    llf = repo.method(CC_LINKER, 'lib_flags')
    comp = handled_options(repo, cf.node)
    link = handled_options(repo, lf.node) | handled_options(repo, llf.node)
    for c in classes:
        if c in EXEMPT:
            ctx.ob(R, 'option|' + c, True, None, 'allow-listed: ' + EXEMPT[c])
            continue
        if c in COMPILE_ONLY:
            ok, where = c in comp, 'CcBaseCompiler.flags'
        elif c in LINK_ONLY:
            ok, where = c in link, 'CcLinker.flags/lib_flags'
        elif c in BOTH:
            ok, where = c in comp and c in link, 'both compiler and linker'
        else:
            # a new option class: must be handled somewhere
            ok, where = c in comp or c in link, 'compiler or linker'
        ctx.ob(R, 'option|' + c, ok, cf.node if c in COMPILE_ONLY else
               lf.node, 'option {} is not translated by {}'.format(c, where))
    # unknown options are rejected, strings pass through
    for f in (cf, lf):
        chain_else = _final_else(f.node)
        ctx.ob(R, f.fq + '|unknown-option-raises', chain_else, f.node,
               'unknown option types are silently ignored')
        ctx.ob(R, f.fq + '|strings-pass-through',
               any('stringy_types' in unparse(n) for n in ast.walk(f.node)
                   if isinstance(n, ast.Call) and unparse(n.func) ==
                   'isinstance'), f.node, 'raw string options are dropped')
    # each isinstance branch that is not an explicit `pass` emits something
    for f in (cf, lf, llf):
        for ty, body in _branches(f.node):
            emits = any(isinstance(n, ast.Call) and Q.callee_attr(n) in (
                'append', 'extend') for s in body for n in ast.walk(s))
            is_pass = all(isinstance(s, ast.Pass) for s in body)
            if ty in ('static',) and f is cf:
                continue
            if ty in ('install_name_change', 'lib_literal') and f is lf:
                continue
            ctx.ob(R, '{}|branch-emits|{}'.format(f.fq, ty),
                   emits and not is_pass, f.node,
                   'the branch for option {} emits no flag'.format(ty))
    # enum coverage
    flags_mod = repo.module('bfg9000.tools.cc.flags')
    table = flags_mod.assigns.get('optimize_flags')
    Q.require(isinstance(table, ast.Dict), 'cc.flags.optimize_flags missing')
    keys = set()
    for k in table.keys:
        v = const_eval(repo, flags_mod, k)
        if isinstance(v, EnumMember):
            keys.add(v.name)
    for mname in enum_members(repo, OPTS, 'OptimizeValue'):
        ctx.ob(R, 'OptimizeValue.{}|cc.optimize_flags'.format(mname),
               mname in keys, table,
               'OptimizeValue.{} has no cc translation'.format(mname))
    # both sides index the table with the option's values
    for f in (cf, lf):
        ok = any(isinstance(n, ast.Subscript) and unparse(n.value) ==
                 'optimize_flags' for n in ast.walk(f.node))
        ctx.ob(R, f.fq + '|uses-optimize_flags', ok, f.node,
               'optimize values are not translated through optimize_flags')
    # WarningValue: explicit branch for disable, '-W' + name otherwise
    members = enum_members(repo, OPTS, 'WarningValue')
    ctx.stat('warning_members', members)
    wb = [body for ty, body in _branches(cf.node) if ty == 'warning']
    Q.require(wb, 'CcBaseCompiler.flags: no warning branch')
    txt = ' '.join(unparse(s) for s in wb[0])
    ctx.ob(R, 'WarningValue|disable->-w', 'WarningValue.disable' in txt and
           "'-w'" in txt, cf.node, 'warning(disable) is not translated')
    ctx.ob(R, 'WarningValue|others->-W<name>', "'-W' + j.name" in txt,
           cf.node, 'warning levels are not translated to -W<name>')


def _branches(fn):
    out = []
    for n in walk_no_nested(fn):
        if isinstance(n, ast.If) and isinstance(n.test, ast.Call) and \
                unparse(n.test.func) == 'isinstance' and len(
                    n.test.args) == 2:
            t = n.test.args[1]
            if isinstance(t, ast.Attribute) and unparse(t.value) == 'opts':
                out.append((t.attr, n.body))
    return out


def _final_else(fn):
    """The isinstance chain over options ends in `else: raise`."""
    for n in walk_no_nested(fn):
        if isinstance(n, ast.For):
            for st in n.body:
                if isinstance(st, ast.If):
                    cur = st
                    while len(cur.orelse) == 1 and isinstance(
                            cur.orelse[0], ast.If):
                        cur = cur.orelse[0]
                    if any(isinstance(s, ast.Raise) for s in cur.orelse):
                        return True
    return False


FLAG_FUNCS = [
    (CC_COMPILER, 'flags'), (CC_COMPILER, '_call'),
    (CC_COMPILER, '_always_flags'), (CC_COMPILER, '_include_dir'),
    (CC_LINKER, 'flags'), (CC_LINKER, 'lib_flags'), (CC_LINKER, '_call'),
    (CC_LINKER, '_always_flags'), (CC_LINKER, '_link_lib'),
    ('bfg9000.tools.cc.linker:CcSharedLibraryLinker', '_always_flags'),
    ('bfg9000.tools.cc.linker:CcSharedLibraryLinker', '_soname'),
    ('bfg9000.tools.cc.linker:CcSharedLibraryLinker', '_call'),
]


def _flag_literals(repo, fnode, mod):
    """(literal, is_prefix, node) for every flag-like string constant."""
    out = []
    for n in ast.walk(fnode):
        if isinstance(n, ast.Constant) and isinstance(n.value, str) and \
                n.value.startswith('-') and len(n.value) > 1:
            p = getattr(n, '_parent', None)
            prefix = False
            if isinstance(p, ast.BinOp) and isinstance(p.op, ast.Add) and \
                    p.left is n:
                prefix = True
            if isinstance(p, ast.Attribute) and p.attr == 'format':
                prefix = True
            if isinstance(p, ast.Compare):
                continue     # comparison, not emission
            out.append((n.value, prefix, n))
    return out


def flag_grammar(ctx):
    R = 'FLAG-GRAMMAR'
    ctx.rule(R, 'every flag literal the cc compiler/linker classes can emit '
             'is a word (or the fixed prefix of a word) of the GCC/Clang '
             'driver option grammar')
    repo = ctx.repo
    grammar = [re.compile(g) for g in T.GCC_FLAG_GRAMMAR]

    def in_grammar(lit, prefix):
        cands = [lit]
        if prefix:
            stem = lit.split('{')[0]
            cands = [stem + 'x', stem]
        return any(g.fullmatch(c) for g in grammar for c in cands)

    n = 0
    for cls_fq, meth in FLAG_FUNCS:
        f = repo.method(cls_fq, meth)
        for lit, prefix, node in _flag_literals(repo, f.node, f.module):
            if lit == '-W' and prefix:
                # '-W' + j.name over WarningValue members except disable
                for mname in enum_members(repo, OPTS, 'WarningValue'):
                    if mname == 'disable':
                        continue
                    n += 1
                    ctx.ob(R, '{}|-W{}'.format(f.fq, mname),
                           in_grammar('-W' + mname, False), node,
                           '-W{} is not a GCC/Clang option'.format(mname))
                continue
            n += 1
            ctx.ob(R, '{}|{}'.format(f.fq, lit), in_grammar(lit, prefix),
                   node, 'flag {!r} is not an option of the GCC/Clang '
                   'driver'.format(lit))
    m = repo.module('bfg9000.tools.cc.flags')
    table = m.assigns.get('optimize_flags')
    for k, v in zip(table.keys, table.values):
        lit = const_eval(repo, m, v)
        if not isinstance(lit, str):
            raise AnalysisError('optimize_flags: non-constant value')
        n += 1
        ctx.ob(R, 'cc.flags.optimize_flags|{}|{}'.format(unparse(k), lit),
               in_grammar(lit, False), v,
               'flag {!r} (for {}) is not an option of the GCC/Clang driver'
               .format(lit, unparse(k)))
    ctx.require_min(R, n, 35, 'flag literals')


def flag_merge(ctx):
    R = 'FLAG-MERGE'
    ctx.rule(R, 'per-target flags are appended after the global flags '
             '(environment flags + global options) in compile and link '
             '_get_flags; CcBuilder takes the environment flags')
    repo = ctx.repo
    for fq, pairs in (
            ('bfg9000.builtins.compile:_get_flags',
             [('cflags', 'global_cflags', 'flags')]),
            ('bfg9000.builtins.link:_get_flags',
             [('ldflags', 'global_ldflags', 'flags'),
              ('ldlibs', 'global_ldlibs', 'lib_flags')])):
        f = repo.func(fq)
        for var, gvar, local in pairs:
            hit = [n for n in ast.walk(f.node) if isinstance(n, ast.Assign)
                   and unparse(n.targets[0]) == 'variables[{}]'.format(var)]
            ok = len(hit) == 1 and unparse(hit[0].value) == \
                '[{}] + {}'.format(gvar, local)
            ctx.ob(R, '{}|{}=[{}]+{}'.format(fq, var, gvar, local), ok,
                   f.node, 'target {} is not [global] + per-target flags'
                   .format(var))
        for c in Q.calls(f.node):
            if unparse(c.func) == 'backend.flags_vars' and len(c.args) >= 2:
                a = unparse(c.args[1])
                ok = 'global_' in a and "mode='global'" in a and ' + ' in a
                ctx.ob(R, '{}|global={}'.format(fq, a[:50]), ok, c,
                       'global flags are not tool.global_* + '
                       'tool.flags(gopts, mode=global)')


def option_identity(ctx):
    R = 'OPTION-IDENTITY'
    ctx.rule(R, 'option_list de-duplicates semantic options only when they '
             'are equal in every field (Option.matches is full equality and '
             'no option class weakens it), so a later define/std/... with a '
             'different value is kept; environment flag variables are split '
             'with sh rules (shell.split)')
    repo = ctx.repo
    base = repo.cls(OPTS + ':Option')
    mt = base.methods.get('matches')
    ok = mt is not None and unparse(Q.returns(mt)[0].value) == 'self == rhs'
    ctx.ob(R, 'Option.matches|full-equality', ok, mt or base.node,
           'Option.matches is not `self == rhs`')
    eq = base.methods.get('__eq__')
    ok = eq is not None and '__slots__' in unparse(eq) and \
        'type(self) is type(rhs)' in unparse(eq)
    ctx.ob(R, 'Option.__eq__|all-slots', ok, eq or base.node,
           'Option equality does not compare every field')
    for ci in sorted(base.subclasses(), key=lambda c: c.fq):
        for nm in ('matches', '__eq__'):
            if nm in ci.methods:
                ctx.ob(R, '{}|overrides-{}'.format(ci.fq, nm), False,
                       ci.methods[nm],
                       'option class {} overrides {}: options that differ in '
                       'a field may be treated as duplicates and dropped'
                       .format(ci.name, nm))
    # include directories: "default" search dirs are computed with CPATH
    # neutralised, so a requested directory that merely is on CPATH still
    # gets its -I flag (and its position in the search order)
    idf = repo.method(CC_COMPILER, '_include_dir')
    vals = [unparse(v) for v in Q.local_assignments(idf.node, 'default_dirs')
            if v is not None]
    ctx.ob(R, 'CcBaseCompiler._include_dir|default-dirs-without-CPATH',
           vals == ['self._search_dirs(None)'], idf.node,
           'default include dirs are computed as {}: with the ambient CPATH '
           'included, an include_dir option for a directory on CPATH emits '
           'no -I flag'.format(vals))
    sd = repo.method(CC_COMPILER, '_search_dirs')
    ok = "{'CPATH': cpath or ''}" in unparse(sd.node) and \
        'cpath is not default_sentinel' in unparse(sd.node)
    ctx.ob(R, 'CcBaseCompiler._search_dirs|cpath-override', ok, sd.node, '')
    # environment flags
    cb = repo.method('bfg9000.tools.cc:CcBuilder', '__init__')
    seen = set()
    for c in Q.calls(cb.node):
        if unparse(c.func) != 'env.getvar' or not c.args:
            continue
        par = getattr(c, '_parent', None)
        # `.split()` called on the raw string: whitespace split, no quoting
        if isinstance(par, ast.Attribute) and par.attr == 'split' and \
                par.value is c:
            ctx.ob(R, 'CcBuilder.__init__|str.split|' + unparse(c), False, c,
                   'an environment variable is split on whitespace with '
                   'str.split() instead of sh rules (shell.split): a quoted '
                   'word containing a space is torn apart')
            continue
        if isinstance(par, ast.Call) and unparse(par.func) == \
                'shell.split' and par.args and par.args[0] is c:
            seen.add(unparse(c.args[0]))
    for want in ("'CPPFLAGS'", "langinfo.var('flags')",
                 "ldinfo.var('flags')", "ldinfo.var('libs')"):
        ctx.ob(R, 'CcBuilder.__init__|shell.split(env.getvar({}))'.format(
            want), want in seen, cb.node,
            'the flags variable {} is not read through '
            'shell.split(env.getvar(...)) (sh word splitting)'.format(want))


def check(ctx):
    ctx.not_decided += [
        'acceptance of each flag by the compiler actually detected on the '
        'system', 'the effect of the flag on the compiled program',
        'msvc / jvm translations (siblings listed in evidence only)']
    option_exhaustive(ctx)
    flag_grammar(ctx)
    flag_merge(ctx)
    option_identity(ctx)
