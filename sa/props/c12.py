"""C12 -- Path algebra: normalised, root-confined, invertible,
separator-agnostic.

Decided: PATH-CTOR (every path is built through BasePath.__init__, where the
containment and root checks dominate the assignment of the fields, and every
string entry point normalises both separators), HASH-EQ (hash reads a subset
of what eq compares, for every class defining both), PATH-JSON (3 elements
written, indices 0..2 read, directory flag encoded in the suffix).
Not decided: the algebraic laws over all strings.
"""
import ast

from ..cfg import build as build_cfg
from ..facts import Facts, direct, has, has_call, has_const, param_of
from ..index import AnalysisError, unparse, walk_no_nested
from .. import query as Q


def _facts(ctx):
    f = getattr(ctx, '_facts', None)
    if f is None:
        f = ctx._facts = Facts(ctx.repo)
    return f

BP = 'bfg9000.platforms.basepath:BasePath'


def path_ctor(ctx):
    R = 'PATH-CTOR'
    ctx.rule(R, 'suffix/root/destdir/directory are assigned only in '
             'BasePath.__init__; there the "too many .." raise and the '
             'root-type raise dominate the assignment of suffix; every '
             'method returning a path constructs it through the class; every '
             'string entry point passes through the separator-normalising '
             '__normpath')
    repo = ctx.repo
    ci = repo.cls(BP)
    init = ci.methods['__init__']
    fields = ('suffix', 'root', 'destdir', 'directory')
    # who assigns the fields
    n = 0
    for m in repo.modules.values():
        for node in ast.walk(m.tree):
            if isinstance(node, (ast.Assign, ast.AugAssign)):
                tgts = node.targets if isinstance(node, ast.Assign) else [
                    node.target]
                for t in tgts:
                    for s in ast.walk(t):
                        if isinstance(s, ast.Attribute) and \
                                s.attr in fields and isinstance(
                                    s.ctx, ast.Store):
                            owner = repo.enclosing_class(node)
                            fn = repo.enclosing_func(node)
                            is_path = owner is not None and \
                                owner.is_subclass_of(BP)
                            if not is_path:
                                # other classes have their own `root`,
                                # `directory`... attributes (self.X only)
                                if isinstance(s.value, ast.Name) and \
                                        s.value.id == 'self':
                                    continue
                            n += 1
                            ok = is_path and fn is not None and \
                                fn.node.name == '__init__'
                            ctx.ob(R, 'field-writer|{}|{}'.format(
                                fn.fq if fn else m.name, s.attr), ok, node,
                                'path field {} is assigned outside '
                                'BasePath.__init__: {}'.format(
                                    s.attr, unparse(node)[:60]))
    ctx.ob(R, 'field-writers|found', n >= 4, None,
           'only {} path field assignments found'.format(n))
    slots = ci.attrs.get('__slots__')
    ok = slots is not None and {'destdir', 'root', 'suffix'} <= {
        e.value for e in slots.elts if isinstance(e, ast.Constant)}
    ctx.ob(R, '__slots__', ok, ci.node, 'BasePath no longer restricts its '
           'attributes with __slots__')
    F = _facts(ctx)
    fi = init._func
    sto = [(v, n_) for t, v, n_ in F.stores(fi) if has(t, 'self', 'suffix')]
    Q.require(len(sto) >= 1, 'BasePath.__init__: self.suffix assignment')

    def failed_guards(node, *pats):
        """isinstance(.., <pats>) tests known to hold at node."""
        return [t for t, pos, f_, b_ in F.guard_leaves(node, fi)
                if pos and isinstance(t, ast.Call) and unparse(
                    t.func) == 'isinstance' and all(
                        has(F.atoms(t, f_, b_), *p_) for p_ in pats)]
    ok = all(bool(failed_guards(n_, ('Root',), ('InstallRoot',)))
             for v, n_ in sto)
    ctx.ob(R, '__init__|roottype-guard-dominates-suffix', ok, sto[0][1],
           'the check is missing or can be bypassed: an invalid root object '
           'is accepted')
    esc_ok = same_ok = True
    for v, n_ in sto:
        stored = {a.replace('via:', '') for a in v
                  if '__normalize' in a or '__join' in a}
        cmps = F.guard_compares(n_, fi)
        whole = comp = False
        for op, l, r in cmps:
            for a, b in ((l, r), (r, l)):
                if op == 'NotEq' and has(direct(a), 'posixpath', 'pardir'):
                    if direct(b) & stored:
                        whole = True
                    if has_call(b, 'split') or has_call(b, 'partition'):
                        comp = True
        prefix = False
        for t, pos, f_, b_ in F.guard_leaves(n_, fi):
            if not pos and isinstance(t, ast.Call) and Q.callee_attr(t) == \
                    'startswith' and t.args:
                a = F.atoms(t.args[0], f_, b_)
                if has(a, 'posixpath', 'pardir') and (
                        has(a, 'posixpath', 'sep') or has_const(a, '/')) \
                        and direct(F.atoms(t.func.value, f_, b_)) & stored:
                    prefix = True
        if not ((whole and prefix) or comp):
            esc_ok = False
        if not stored:
            same_ok = False
    ctx.ob(R, '__init__|escape-guard-dominates-suffix', esc_ok, sto[0][1],
           'the check is missing, weaker than "== .. or starts with ../", '
           'or can be bypassed: a path with too many ".." escapes its root')
    ctx.ob(R, '__init__|stores-the-checked-value', esc_ok and same_ok,
           sto[0][1], 'the stored suffix is not the normalised value the '
           'containment check looked at')
    ok = all(has_call(v, '__normalize') and has_call(v, '__join')
             for v, n_ in sto)
    ctx.ob(R, '__init__|normpath-from-normalisers', ok, init,
           'the stored suffix does not come from __normalize / __join')
    np = ci.methods.get('__normpath')
    Q.require(np is not None, 'BasePath.__normpath missing')
    npf = np._func
    nps = F.effects(npf, lambda e: e.name == 'normpath', depth=0)
    reps = [e for e in F.effects(npf, lambda e: e.name == 'replace', depth=1)
            if e.fn.cls is npf.cls and has_const(e.arg(0), '\\') and (
                has_const(e.arg(1), '/') or has(e.arg(1), 'posixpath',
                                                'sep'))]
    ok = bool(nps) and all(any("replace('\\\\', '/')" in a
                               for a in e.arg(0)) or (
        bool(reps) and has_call(e.arg(0), 'replace')) for e in nps)
    ctx.ob(R, '__normpath|backslash-to-slash-first', ok, np,
           'backslashes are not converted to / before normalisation')
    ok = has_call(F.returns(npf), 'normpath')
    ctx.ob(R, '__normpath|posix-normpath', ok, np,
           'the result is not posix-normalised')
    for mname in ('__normalize', '__join'):
        mm = ci.methods.get(mname)
        ok = mm is not None and has_call(F.returns(mm._func), '__normpath')
        ctx.ob(R, mname + '|calls-__normpath', ok, mm or ci.node,
               mname + ' does not normalise separators')
    for mname in ('append', 'abspath'):
        mm = ci.methods.get(mname)
        ok = mm is not None and has_call(F.returns(mm._func), '__normalize')
        ctx.ob(R, mname + '|normalises-input', ok, mm or ci.node,
               '{} does not normalise its string argument'.format(mname))
    for mname in ('as_directory', 'parent', 'append', 'addext', 'stripext',
                  'reroot', 'cross', 'abspath', 'from_json'):
        mm = ci.methods.get(mname)
        Q.require(mm is not None, 'BasePath.' + mname + ' missing')
        mf = mm._func
        ctors = [e for e in F.effects(mf, lambda e: True, depth=1)
                 if any(h.startswith('type(') or h == 'cls' or
                        h.endswith('.Path') for h in e.heads())]
        ctx.ob(R, mname + '|constructs-through-class', bool(ctors) and (
            has_call(F.returns(mf), 'type') or has_call(
                F.returns(mf), 'cls') or has(F.returns(mf), 'Path()')), mm,
            '{} does not build its result through the class constructor '
            '(normalisation and containment would be skipped)'.format(
                mname))
        if mname in ('parent', 'append', 'addext', 'stripext', 'reroot',
                     'as_directory'):
            ok = bool(ctors) and all(
                has(e.arg(1, kw='root'), 'self', 'root') or param_of(
                    e.arg(1, kw='root'), 'root') for e in ctors)
            ctx.ob(R, mname + '|keeps-root', ok, mm,
                   '{} does not carry the root over'.format(mname))
            if mname != 'reroot':
                ok = bool(ctors) and all(
                    has(e.arg(2, kw='destdir'), 'self', 'destdir')
                    for e in ctors)
                ctx.ob(R, mname + '|keeps-destdir', ok, mm,
                       '{} does not carry destdir over'.format(mname))
    pm = ci.methods['parent']._func
    ok = any(any(not pos and has(F.atoms(t, pm), 'self', 'suffix')
                 for t, pos in F.guard_truths(n_, pm))
             for n_ in walk_no_nested(pm.node) if isinstance(n_, ast.Raise))
    ctx.ob(R, 'parent|root-has-no-parent', ok, pm.node,
           'parent() of the root does not raise')
    rp = ci.methods['relpath']._func
    ok = any(any(op == 'NotEq' and has(l | r, 'self', 'root') and has(
        l | r, 'start', 'root') for op, l, r in F.guard_compares(n_, rp))
        for n_ in walk_no_nested(rp.node) if isinstance(n_, ast.Raise))
    ctx.ob(R, 'relpath|same-root-required', ok, rp.node,
           'relpath between different roots is not rejected')


def relpath_impl(ctx):
    R = 'RELPATH-IMPL'
    ctx.rule(R, 'BasePath.relpath computes the relative path with '
             'posixpath.relpath on the two normalised suffixes (no hand-'
             'rolled prefix arithmetic), then joins the prefix')
    F = _facts(ctx)
    rp = F.fn(BP + '.relpath')
    rels = [e for e in F.effects(rp, lambda e: e.name == 'relpath', depth=1)
            if any(h.endswith('posixpath.relpath') for h in e.heads())]
    ok = bool(rels) and all(has(e.arg(0), 'self', 'suffix') and has(
        e.arg(1, kw='start'), 'start', 'suffix') for e in rels) and \
        has_call(F.returns(rp), 'relpath')
    ctx.ob(R, 'BasePath.relpath|posixpath.relpath(self, start)', ok, rp.node,
           'the relative path is not computed by posixpath.relpath(self '
           'suffix, start suffix)')
    joins = [e for e in F.effects(rp, lambda e: e.name == 'join', depth=1)
             if param_of(e.arg(0), 'prefix')]
    ok = bool(joins) and all(has_call(e.arg(1), 'relpath') for e in joins)
    ctx.ob(R, 'BasePath.relpath|prefix-joined', ok, rp.node,
           'the prefix is not joined in front of the relative path')


def hash_eq(ctx):
    R = 'HASH-EQ'
    ctx.rule(R, 'for every class defining both __eq__ and __hash__, the '
             'attributes read by __hash__ (also through the methods it calls '
             'on self) are a subset of those compared by __eq__ (equal '
             'objects hash equal)')
    repo = ctx.repo
    n = 0
    only_eq = []
    for ci in sorted(repo.classes.values(), key=lambda c: c.fq):
        if ci.module.name.startswith('bfg9000.e1m1'):
            continue
        eq = ci.methods.get('__eq__')
        hs = ci.methods.get('__hash__')
        if eq is None and hs is None:
            continue
        if eq is not None and hs is None:
            # is a __hash__ inherited from a bfg class?
            o, inh = ci.find_method('__hash__')
            if inh is None:
                only_eq.append(ci.fq)
                continue
            hs = inh
        if eq is None:
            o, eq = ci.find_method('__eq__')
            if eq is None:
                continue
        n += 1
        ha = _self_attrs_deep(ci, hs)
        ea = _self_attrs_deep(ci, eq)
        # eq may delegate to super().__eq__
        if any(unparse(c.func) == 'super().__eq__' for c in Q.calls(eq)):
            for b in ci.mro()[1:]:
                if '__eq__' in b.methods:
                    ea |= _self_attrs(b.methods['__eq__'])
                    break
        # generic comparisons over __slots__ / all attributes
        generic = any('__slots__' in unparse(x) or '__dict__' in unparse(x)
                      for x in ast.walk(eq))
        ok = ha <= ea or generic
        ctx.ob(R, ci.fq, ok, hs,
               '__hash__ reads {} but __eq__ only compares {}: equal '
               'objects can hash differently (or unequal roots collide by '
               'design but equal ones must not differ)'.format(
                   sorted(ha - ea), sorted(ea)))
    ctx.ob(R, 'classes|found', n >= 6, None,
           'only {} classes with __eq__ and __hash__ found'.format(n))
    ctx.stat('classes_with_eq_only_unhashable', only_eq)
    # BasePath specifically: eq compares root, suffix, destdir
    bp = repo.cls(BP)
    ea = _self_attrs(bp.methods['__eq__'])
    ctx.ob(R, 'BasePath.__eq__|root+suffix+destdir',
           {'root', 'suffix', 'destdir'} <= ea, bp.methods['__eq__'],
           'BasePath equality compares only {}'.format(sorted(ea)))
    ok = 'type(self) is not type(rhs)' in unparse(bp.methods['__eq__'])
    ctx.ob(R, 'BasePath.__eq__|type-checked', ok, bp.methods['__eq__'],
           'paths of different flavours compare equal')


def _self_attrs_deep(ci, fn, depth=0, seen=None):
    """Attributes of self read by fn, including those read by the methods
    it calls on self (self.to_json(), self._key(), properties)."""
    seen = set() if seen is None else seen
    out = set(_self_attrs(fn))
    if depth >= 3:
        return out
    for n in ast.walk(fn):
        if isinstance(n, ast.Attribute) and isinstance(
                n.value, ast.Name) and n.value.id == 'self':
            o, m = ci.find_method(n.attr)
            if m is not None and m is not fn and id(m) not in seen and \
                    not n.attr.startswith('__') or (
                        m is not None and m is not fn and id(m) not in seen
                        and n.attr.startswith('__') and
                        not n.attr.endswith('__')):
                seen.add(id(m))
                out.discard(n.attr)
                out |= _self_attrs_deep(ci, m, depth + 1, seen)
    return out


def _self_attrs(fn):
    return {n.attr for n in ast.walk(fn) if isinstance(n, ast.Attribute) and
            isinstance(n.value, ast.Name) and n.value.id == 'self' and
            isinstance(n.ctx, ast.Load) and not isinstance(
                getattr(n, '_parent', None), ast.Call) or (
                isinstance(n, ast.Attribute) and isinstance(
                    n.value, ast.Name) and n.value.id == 'self' and
                isinstance(getattr(n, '_parent', None), ast.Call) and
                n._parent.func is not n)}


def path_json(ctx):
    R = 'PATH-JSON'
    ctx.rule(R, 'to_json writes [suffix(with trailing separator for '
             'directories), root name, destdir]; from_json reads indices '
             '0..2 and resolves the root name in Root then InstallRoot')
    F = _facts(ctx)
    tj, fj = F.fn(BP + '.to_json'), F.fn(BP + '.from_json')
    ok = False
    got = None
    for r in F.flow._returns(tj):
        q = F.flow.sequence(r, tj)
        if q is not None and len(q) == 3:
            el = [F.atoms(e_, f_, b_) for e_, f_, b_ in q]
            got = [sorted(x)[:3] for x in el]
            ok = has(el[0], 'self', 'suffix') and has(
                el[1], 'self', 'root', 'name') and has(
                    el[2], 'self', 'destdir')
    ctx.ob(R, 'to_json|fields', ok, tj.node, 'to_json writes {}'.format(got))
    ok = False
    for g in F.reach(tj, 1):
        if g.cls is not tj.cls:
            continue
        for n in ast.walk(g.node):
            if isinstance(n, (ast.Assign, ast.AugAssign, ast.Return)) and \
                    n.value is not None and _adds_separator(F, n.value, g):
                c = F.control(n, g)
                if isinstance(n, ast.Return):
                    c |= F.return_control(g)
                if has(c, 'self', 'directory'):
                    ok = True
    ctx.ob(R, 'to_json|directory-flag-in-suffix', ok, tj.node,
           'the directory flag is not encoded (trailing separator)')
    from .c09 import _keys_read
    idx = {k for k in _keys_read(F, fj, lambda a: param_of(direct(a),
                                                           'data'))
           if isinstance(k, int)}
    ctx.ob(R, 'from_json|indices', idx == {0, 1, 2}, fj.node,
           'from_json reads indices {}'.format(sorted(idx)))
    ctors = [e for e in F.effects(fj, lambda e: True, depth=0)
             if 'cls' in e.heads()]
    ok = bool(ctors) and all(
        has(e.arg(0), 'data[0]') and has(e.arg(2, kw='destdir'), 'data[2]')
        and has(e.arg(1, kw='root'), 'data[1]') for e in ctors)
    ctx.ob(R, 'from_json|argument-order', ok, fj.node,
           'from_json does not build cls(data[0], <root of data[1]>, '
           'data[2])')
    ok = bool(ctors) and all(has(e.arg(1, kw='root'), 'Root') and has(
        e.arg(1, kw='root'), 'InstallRoot') for e in ctors)
    ctx.ob(R, 'from_json|root-lookup', ok, fj.node,
           'root name is not resolved in Root, then InstallRoot')


def _adds_separator(F, value, g):
    """The expression appends a path separator: it mentions posixpath.sep /
    '/', or joins with an empty last component (`posixpath.join(x, '')`)."""
    a = F.atoms(value, g)
    if has(a, 'posixpath', 'sep') or has_const(a, '/'):
        return True
    for c in ast.walk(value):
        if isinstance(c, ast.Call) and Q.callee_attr(c) == 'join' and \
                c.args and isinstance(c.args[-1], ast.Constant) and \
                c.args[-1].value == '' and has(
                    F.atoms(c.func, g), 'posixpath'):
            return True
    return False


def check(ctx):
    ctx.not_decided += [
        'the algebraic laws (parent/append/basename, relpath/append, JSON '
        'round trip, realise = join, commonprefix/uniquetrees minimality) '
        'over all path strings and both platform flavours']
    path_ctor(ctx)
    hash_eq(ctx)
    path_json(ctx)
    relpath_impl(ctx)
    from ..rules import pathops
    pathops.check(ctx)
