"""C12 -- Path algebra: normalised, root-confined, invertible,
separator-agnostic.

Decided: PATH-CTOR (every path is built through BasePath.__init__, where the
containment and root checks dominate the assignment of the fields, and every
string entry point normalises both separators), HASH-EQ (hash reads a subset
of what eq compares, for every class defining both), PATH-JSON (3 elements
written, indices 0..2 read, directory flag encoded in the suffix).
Not decided: the algebraic laws over all strings.
"""
import ast

from ..cfg import build as build_cfg
from ..index import AnalysisError, unparse, walk_no_nested
from .. import query as Q

BP = 'bfg9000.platforms.basepath:BasePath'


def path_ctor(ctx):
    R = 'PATH-CTOR'
    ctx.rule(R, 'suffix/root/destdir/directory are assigned only in '
             'BasePath.__init__; there the "too many .." raise and the '
             'root-type raise dominate the assignment of suffix; every '
             'method returning a path constructs it through the class; every '
             'string entry point passes through the separator-normalising '
             '__normpath')
    repo = ctx.repo
    ci = repo.cls(BP)
    init = ci.methods['__init__']
    fields = ('suffix', 'root', 'destdir', 'directory')
    # who assigns the fields
    n = 0
    for m in repo.modules.values():
        for node in ast.walk(m.tree):
            if isinstance(node, (ast.Assign, ast.AugAssign)):
                tgts = node.targets if isinstance(node, ast.Assign) else [
                    node.target]
                for t in tgts:
                    for s in ast.walk(t):
                        if isinstance(s, ast.Attribute) and \
                                s.attr in fields and isinstance(
                                    s.ctx, ast.Store):
                            owner = repo.enclosing_class(node)
                            fn = repo.enclosing_func(node)
                            is_path = owner is not None and \
                                owner.is_subclass_of(BP)
                            if not is_path:
                                # other classes have their own `root`,
                                # `directory`... attributes (self.X only)
                                if isinstance(s.value, ast.Name) and \
                                        s.value.id == 'self':
                                    continue
                            n += 1
                            ok = is_path and fn is not None and \
                                fn.node.name == '__init__'
                            ctx.ob(R, 'field-writer|{}|{}'.format(
                                fn.fq if fn else m.name, s.attr), ok, node,
                                'path field {} is assigned outside '
                                'BasePath.__init__: {}'.format(
                                    s.attr, unparse(node)[:60]))
    ctx.require_min(R, n, 4, 'path field assignments')
    slots = ci.attrs.get('__slots__')
    ok = slots is not None and {'destdir', 'root', 'suffix'} <= {
        e.value for e in slots.elts if isinstance(e, ast.Constant)}
    ctx.ob(R, '__slots__', ok, ci.node, 'BasePath no longer restricts its '
           'attributes with __slots__')
    # dominance in __init__
    g = build_cfg(init)
    asg = [s for s in walk_no_nested(init) if isinstance(s, ast.Assign) and
           unparse(s.targets[0]) == 'self.suffix']
    Q.require(len(asg) == 1, 'BasePath.__init__: self.suffix assignment')
    guards = {}
    for s in walk_no_nested(init):
        if isinstance(s, ast.If) and any(isinstance(x, ast.Raise)
                                         for x in s.body):
            t = unparse(s.test)
            if 'pardir' in t:
                guards['escape'] = s
            elif 'isinstance(root, (Root, InstallRoot))' in t:
                guards['roottype'] = s
            elif 'root == Root.absolute' in t:
                guards['notabs'] = s
            elif 'destdir' in t and 'Root.absolute' in t:
                guards['destdir'] = s
    for k, why in (('escape', 'a path with too many ".." escapes its root'),
                   ('roottype', 'an invalid root object is accepted')):
        s = guards.get(k)
        ctx.ob(R, '__init__|{}-guard-dominates-suffix'.format(k),
               s is not None and g.dominates(s, asg[0]), asg[0],
               'the check is missing or can be bypassed: ' + why)
    esc = guards.get('escape')
    if esc is not None:
        t = unparse(esc.test)
        ok = 'normpath == posixpath.pardir' in t and \
            'normpath.startswith(posixpath.pardir + posixpath.sep)' in t
        ctx.ob(R, '__init__|escape-test-shape', ok, esc,
               'containment test is {}'.format(t))
        # the tested value is what is stored
        ok = unparse(asg[0].value) == 'drive + normpath'
        ctx.ob(R, '__init__|stores-the-checked-value', ok, asg[0],
               'the stored suffix is not the normalised, checked value')
    # normpath is computed by __normalize / __join (both end in __normpath)
    vals = []
    for s in walk_no_nested(init):
        if isinstance(s, ast.Assign):
            for t in s.targets:
                if 'normpath' in unparse(t):
                    vals.append(unparse(s.value))
    ok = all('self.__normalize(' in v or 'self.__join(' in v for v in vals) \
        and len(vals) == 2
    ctx.ob(R, '__init__|normpath-from-normalisers', ok, init,
           'normpath is computed by {}'.format(vals))
    # string entry points normalise
    np = ci.methods.get('__normpath')
    Q.require(np is not None, 'BasePath.__normpath missing')
    body_t = unparse(np)
    first = np.body[0]
    ok = isinstance(first, ast.Assign) and unparse(first.value) == \
        "path.replace('\\\\', '/')"
    ctx.ob(R, '__normpath|backslash-to-slash-first', ok, np,
           'backslashes are not converted to / before normalisation')
    ok = 'posixpath.normpath(path)' in body_t
    ctx.ob(R, '__normpath|posix-normpath', ok, np, '')
    nz = ci.methods.get('__normalize')
    ok = nz is not None and 'cls.__normpath(path)' in unparse(nz)
    ctx.ob(R, '__normalize|calls-__normpath', ok, nz or ci.node,
           '__normalize does not normalise separators')
    jn = ci.methods.get('__join')
    ok = jn is not None and 'cls.__normpath(posixpath.join(path1, path2))' \
        in unparse(jn)
    ctx.ob(R, '__join|calls-__normpath', ok, jn or ci.node, '')
    for mname in ('append', 'abspath'):
        mm = ci.methods.get(mname)
        ok = mm is not None and '__normalize(path' in unparse(mm)
        ctx.ob(R, mname + '|normalises-input', ok, mm or ci.node,
               '{} does not normalise its string argument'.format(mname))
    # every method returning a new path constructs it via the class
    for mname in ('as_directory', 'parent', 'append', 'addext', 'stripext',
                  'reroot', 'cross', 'abspath', 'from_json'):
        mm = ci.methods.get(mname)
        Q.require(mm is not None, 'BasePath.' + mname + ' missing')
        ctors = [c for c in Q.calls(mm) if unparse(c.func) in (
            'type(self)', 'cls')]
        ctx.ob(R, mname + '|constructs-through-class', bool(ctors), mm,
               '{} does not build its result through the class constructor '
               '(normalisation and containment would be skipped)'.format(
                   mname))
        if mname in ('parent', 'append', 'addext', 'stripext', 'reroot',
                     'as_directory'):
            ok = all(len(c.args) >= 2 for c in ctors) and all(
                unparse(c.args[1]) in ('self.root', 'root')
                for c in ctors)
            ctx.ob(R, mname + '|keeps-root', ok, mm,
                   '{} does not carry the root over'.format(mname))
            if mname != 'reroot':
                ok = all(len(c.args) >= 3 and unparse(c.args[2]) ==
                         'self.destdir' for c in ctors)
                ctx.ob(R, mname + '|keeps-destdir', ok, mm,
                       '{} does not carry destdir over'.format(mname))
    # parent refuses to leave the root
    pm = ci.methods['parent']
    ok = isinstance(pm.body[0], ast.If) and unparse(pm.body[0].test) == \
        'not self.suffix' and isinstance(pm.body[0].body[0], ast.Raise)
    ctx.ob(R, 'parent|root-has-no-parent', ok, pm,
           'parent() of the root does not raise')
    # relpath: roots must agree
    rp = ci.methods['relpath']
    ok = any(isinstance(s, ast.If) and unparse(s.test) ==
             'self.root != start.root' and isinstance(s.body[0], ast.Raise)
             for s in walk_no_nested(rp))
    ctx.ob(R, 'relpath|same-root-required', ok, rp,
           'relpath between different roots is not rejected')


def relpath_impl(ctx):
    R = 'RELPATH-IMPL'
    ctx.rule(R, 'BasePath.relpath computes the relative path with '
             'posixpath.relpath on the two normalised suffixes (no hand-'
             'rolled prefix arithmetic), then joins the prefix')
    repo = ctx.repo
    rp = repo.method(BP, 'relpath')
    defs = [v for v in Q.local_assignments(rp.node, 'rel')]
    ok = len(defs) == 1 and defs[0] is not None and isinstance(
        defs[0], ast.Call) and unparse(defs[0].func) == \
        'posixpath.relpath' and len(defs[0].args) == 2 and \
        'self.suffix' in unparse(defs[0].args[0]) and \
        'start.suffix' in unparse(defs[0].args[1])
    ctx.ob(R, 'BasePath.relpath|posixpath.relpath(self, start)', ok, rp.node,
           'the relative path is computed by {}'.format(
               [unparse(d)[:60] if d is not None else '<loop/aug>'
                for d in defs]))
    ok = 'posixpath.join(prefix, rel)' in unparse(rp.node)
    ctx.ob(R, 'BasePath.relpath|prefix-joined', ok, rp.node, '')


def hash_eq(ctx):
    R = 'HASH-EQ'
    ctx.rule(R, 'for every class defining both __eq__ and __hash__, the '
             'attributes read by __hash__ are a subset of those compared by '
             '__eq__ (equal objects hash equal)')
    repo = ctx.repo
    n = 0
    only_eq = []
    for ci in sorted(repo.classes.values(), key=lambda c: c.fq):
        if ci.module.name.startswith('bfg9000.e1m1'):
            continue
        eq = ci.methods.get('__eq__')
        hs = ci.methods.get('__hash__')
        if eq is None and hs is None:
            continue
        if eq is not None and hs is None:
            # is a __hash__ inherited from a bfg class?
            o, inh = ci.find_method('__hash__')
            if inh is None:
                only_eq.append(ci.fq)
                continue
            hs = inh
        if eq is None:
            o, eq = ci.find_method('__eq__')
            if eq is None:
                continue
        n += 1
        ha = _self_attrs(hs)
        ea = _self_attrs(eq)
        # eq may delegate to super().__eq__
        if any(unparse(c.func) == 'super().__eq__' for c in Q.calls(eq)):
            for b in ci.mro()[1:]:
                if '__eq__' in b.methods:
                    ea |= _self_attrs(b.methods['__eq__'])
                    break
        # generic comparisons over __slots__ / all attributes
        generic = any('__slots__' in unparse(x) or '__dict__' in unparse(x)
                      for x in ast.walk(eq))
        ok = ha <= ea or generic
        ctx.ob(R, ci.fq, ok, hs,
               '__hash__ reads {} but __eq__ only compares {}: equal '
               'objects can hash differently (or unequal roots collide by '
               'design but equal ones must not differ)'.format(
                   sorted(ha - ea), sorted(ea)))
    ctx.require_min(R, n, 10, 'classes with __eq__ and __hash__')
    ctx.stat('classes_with_eq_only_unhashable', only_eq)
    # BasePath specifically: eq compares root, suffix, destdir
    bp = repo.cls(BP)
    ea = _self_attrs(bp.methods['__eq__'])
    ctx.ob(R, 'BasePath.__eq__|root+suffix+destdir',
           {'root', 'suffix', 'destdir'} <= ea, bp.methods['__eq__'],
           'BasePath equality compares only {}'.format(sorted(ea)))
    ok = 'type(self) is not type(rhs)' in unparse(bp.methods['__eq__'])
    ctx.ob(R, 'BasePath.__eq__|type-checked', ok, bp.methods['__eq__'],
           'paths of different flavours compare equal')


def _self_attrs(fn):
    return {n.attr for n in ast.walk(fn) if isinstance(n, ast.Attribute) and
            isinstance(n.value, ast.Name) and n.value.id == 'self' and
            isinstance(n.ctx, ast.Load) and not isinstance(
                getattr(n, '_parent', None), ast.Call) or (
                isinstance(n, ast.Attribute) and isinstance(
                    n.value, ast.Name) and n.value.id == 'self' and
                isinstance(getattr(n, '_parent', None), ast.Call) and
                n._parent.func is not n)}


def path_json(ctx):
    R = 'PATH-JSON'
    ctx.rule(R, 'to_json writes [suffix(with trailing separator for '
             'directories), root name, destdir]; from_json reads indices '
             '0..2 and resolves the root name in Root then InstallRoot')
    repo = ctx.repo
    ci = repo.cls(BP)
    tj, fj = ci.methods['to_json'], ci.methods['from_json']
    r = [x.value for x in Q.returns(tj) if isinstance(x.value, ast.List)]
    ok = len(r) == 1 and [unparse(e) for e in r[0].elts] == [
        'suffix', 'self.root.name', 'self.destdir']
    ctx.ob(R, 'to_json|fields', ok, tj, 'to_json writes {}'.format(
        [unparse(e) for e in r[0].elts] if r else None))
    ok = any(isinstance(s, ast.If) and 'self.directory' in unparse(s.test)
             and 'endswith(posixpath.sep)' in unparse(s.test)
             for s in walk_no_nested(tj))
    ctx.ob(R, 'to_json|directory-flag-in-suffix', ok, tj,
           'the directory flag is not encoded (trailing separator)')
    idx = {n.slice.value for n in ast.walk(fj) if isinstance(
        n, ast.Subscript) and unparse(n.value) == 'data' and isinstance(
            n.slice, ast.Constant)}
    ctx.ob(R, 'from_json|indices', idx == {0, 1, 2}, fj,
           'from_json reads indices {}'.format(sorted(idx)))
    rets = Q.returns(fj)
    ok = len(rets) == 1 and unparse(rets[0].value) == \
        'cls(data[0], base, data[2])'
    ctx.ob(R, 'from_json|argument-order', ok, fj,
           'from_json builds {}'.format(unparse(rets[0].value)
                                        if rets else None))
    t = unparse(fj)
    ok = 'Root[data[1]]' in t and 'InstallRoot[data[1]]' in t and \
        'except KeyError' in t
    ctx.ob(R, 'from_json|root-lookup', ok, fj,
           'root name is not resolved in Root, then InstallRoot')


def check(ctx):
    ctx.not_decided += [
        'the algebraic laws (parent/append/basename, relpath/append, JSON '
        'round trip, realise = join, commonprefix/uniquetrees minimality) '
        'over all path strings and both platform flavours']
    path_ctor(ctx)
    hash_eq(ctx)
    path_json(ctx)
    relpath_impl(ctx)
    from ..rules import pathops
    pathops.check(ctx)
