"""C20 -- Windows command lines and MSBuild solutions are well-formed and
stable.

Decided (MSBuild half + quoting tables): UUID-PERSIST -- the GUID map is
loaded from the persisted file, consulted before a new GUID is drawn, new
GUIDs are stored back, every key handed out is written by save(), and
msbuild.write saves after the projects are written; SLN-DEPS -- a dependency
on an unknown project raises before it is recorded; WIN-QUOTE-TABLE -- the
Windows quoter's bad-character set covers the characters the MS C runtime
splits or unquotes on (space, tab, double quote), and backslashes before a
quote / at the end are doubled.
Not decided: the Windows quoting round trip (2n / 2n+1 backslashes) over all
strings; GUID uniqueness per name.
"""
import ast

from ..cfg import build as build_cfg
from ..consteval import RegexConst, const_eval
from ..index import unparse, walk_no_nested
from .. import query as Q
from .. import rx

SOL = 'bfg9000.backends.msbuild.solution:'
WIN = 'bfg9000.shell.windows:'


def uuid_persist(ctx):
    R = 'UUID-PERSIST'
    ctx.rule(R, 'UuidMap loads the persisted map, looks a key up before '
             'drawing a new GUID, stores new GUIDs, save() writes every key '
             'handed out in this run, msbuild.write saves after writing the '
             'projects')
    repo = ctx.repo
    init = repo.method(SOL + 'UuidMap', '__init__')
    t = unparse(init.node)
    ok = 'self._map = self._load(path)' in t and 'except OSError' in t and \
        'self._map = {}' in t
    ctx.ob(R, 'UuidMap.__init__|loads-persisted-map', ok, init.node,
           'the persisted GUID map is not loaded')
    gi = repo.method(SOL + 'UuidMap', '__getitem__')
    g = build_cfg(gi.node)
    news = [g.stmt_of(c) for c in Q.calls(gi.node, nested=False)
            if unparse(c.func) in ('uuid.uuid4', 'uuid4')]
    lookups = [n for n in walk_no_nested(gi.node) if isinstance(n, ast.If)
               and unparse(n.test) == 'key in self._map']
    ok = len(news) == 1 and len(lookups) == 1 and g.dominates(
        lookups[0], news[0]) and any(
            unparse(s) == 'return self._map[key]' for s in lookups[0].body)
    ctx.ob(R, 'UuidMap.__getitem__|lookup-before-new', ok, gi.node,
           'a new GUID is drawn although the key is in the persisted map')
    # the new GUID is not on the lookup-hit path
    if news and lookups:
        in_body = any(news[0] is s or _contains(s, news[0])
                      for s in lookups[0].body)
        ctx.ob(R, 'UuidMap.__getitem__|new-only-when-missing', not in_body,
               gi.node, 'existing keys get a fresh GUID')
    ok = any(unparse(n) == 'self._map[key] = u' for n in ast.walk(gi.node)
             if isinstance(n, ast.Assign))
    ctx.ob(R, 'UuidMap.__getitem__|stores-new', ok, gi.node,
           'a newly drawn GUID is not stored in the map')
    ok = unparse(gi.node.body[0]) == 'self._seen.add(key)'
    ctx.ob(R, 'UuidMap.__getitem__|marks-seen', ok, gi.node,
           'keys handed out are not marked as seen (save would drop them)')
    sv = repo.method(SOL + 'UuidMap', 'save')
    t = unparse(sv.node)
    ok = 'in self._map.items() if k in self._seen' in t and \
        "'map': seenmap" in t and "'version': self.version" in t
    ctx.ob(R, 'UuidMap.save|writes-all-seen-keys', ok, sv.node,
           'save() does not write every key handed out in this run')
    ok = "open(path or self._path, 'w')" in t
    ctx.ob(R, 'UuidMap.save|same-file', ok, sv.node, '')
    ld = repo.method(SOL + 'UuidMap', '_load')
    t = unparse(ld.node)
    ok = 'uuid.UUID(hex=v) for' in t and "in state['map'].items()" in t and \
        "state['version'] > cls.version" in t
    ctx.ob(R, 'UuidMap._load|reads-map', ok, ld.node, '')
    ok = 'v.hex' in unparse(sv.node)
    ctx.ob(R, 'UuidMap|hex-round-trip', ok, sv.node, '')
    w = repo.func('bfg9000.backends.msbuild.writer:write')
    g = build_cfg(w.node)
    saves = [g.stmt_of(c) for c in Q.calls(w.node, nested=False)
             if unparse(c) == 'uuids.save()']
    loops = [n for n in walk_no_nested(w.node) if isinstance(n, ast.For) and
             unparse(n.iter) == 'solution']
    ok = len(saves) == 1 and len(loops) == 1 and g.dominates(
        loops[0], saves[0]) and g.must_pass(saves)
    ctx.ob(R, 'msbuild.write|save-after-projects', ok, w.node,
           'the GUID map is not saved at the end of a normal run')
    ok = "UuidMap(env.builddir.append('.bfg_uuid').string())" in unparse(
        w.node) and 'Solution(uuids)' in unparse(w.node)
    ctx.ob(R, 'msbuild.write|map-in-builddir', ok, w.node, '')
    # projects take their GUID from the map by a key derived from the name
    si = repo.method(SOL + 'Solution', '__setitem__')
    ok = 'value.set_uuid(self._uuids)' in unparse(si.node)
    ctx.ob(R, 'Solution.__setitem__|guid-from-map', ok, si.node, '')
    pj = repo.method('bfg9000.backends.msbuild.syntax:Project', 'set_uuid')
    ok = 'self.uuid = uuids[self.name]' in unparse(pj.node)
    ctx.ob(R, 'Project.set_uuid|keyed-by-name', ok, pj.node,
           'project GUIDs are not keyed by the project name')


def _contains(outer, inner):
    return any(n is inner for n in ast.walk(outer))


def sln_deps(ctx):
    R = 'SLN-DEPS'
    ctx.rule(R, 'every project dependency refers to a project of the same '
             'solution: the `not in self` raise dominates the append')
    repo = ctx.repo
    f = repo.method(SOL + 'Solution', 'dependencies')
    g = build_cfg(f.node)
    aps = [g.stmt_of(c) for c in Q.calls(f.node, nested=False)
           if unparse(c.func) == 'dependencies.append']
    guards = [n for n in walk_no_nested(f.node) if isinstance(n, ast.If) and
              unparse(n.test) == 'dep_output not in self' and any(
                  isinstance(s, ast.Raise) for s in n.body)]
    ok = len(aps) == 1 and len(guards) == 1 and g.dominates(guards[0],
                                                            aps[0])
    ctx.ob(R, 'Solution.dependencies|unknown-raises-before-append', ok,
           f.node, 'a dependency on a project outside the solution can be '
           'recorded')
    if aps:
        ok = unparse(aps[0]) == 'dependencies.append(self[dep_output])'
        ctx.ob(R, 'Solution.dependencies|appends-the-checked-project', ok,
               f.node, '')
    c = repo.method(SOL + 'Solution', '__contains__')
    ok = 'key in self._projects' in unparse(c.node)
    ctx.ob(R, 'Solution.__contains__|projects', ok, c.node, '')
    w = repo.method(SOL + 'Solution', 'write')
    ok = 'Var(i.uuid_str, i.uuid_str) for i in p.dependencies' in unparse(
        w.node)
    ctx.ob(R, 'Solution.write|deps-by-guid', ok, w.node, '')


def win_quote_table(ctx):
    R = 'WIN-QUOTE-TABLE'
    ctx.rule(R, 'the Windows quoter quotes every word containing a character '
             'the MS C runtime argument parser splits or unquotes on (space, '
             'tab, double quote), quotes the empty string, doubles '
             'backslashes before a quote and at the end of a quoted word')
    repo = ctx.repo
    m = repo.module('bfg9000.shell.windows')
    f = repo.func(WIN + 'inner_quote_info')
    searches = [n for n in ast.walk(f.node) if isinstance(n, ast.Call) and
                Q.callee_attr(n) == 'search']
    Q.require(len(searches) == 1, 'windows.inner_quote_info: regex test')
    rc = const_eval(repo, m, searches[0].func.value)
    Q.require(isinstance(rc, RegexConst), 'windows: bad-char regex')
    bad, bad_at_end = rx.search_alternative_chars(rc.pattern)
    for ch, why in ((' ', 'argument separator'), ('\t', 'argument separator'),
                    ('"', 'quote character')):
        ctx.ob(R, 'windows._bad_chars|{!r}'.format(ch), ch in bad,
               searches[0], '{!r} ({}) does not trigger quoting'.format(
                   ch, why))
    t = unparse(f.node)
    ok = "if s == ''" in t or 's == \'\'' in t
    ctx.ob(R, 'inner_quote_info|empty-string-quoted', ok, f.node,
           'the empty string is not quoted')
    # backslash doubling: runs of backslashes before a quote or at the end
    ctx.ob(R, 'windows._bad_chars|trailing-backslash', '\\' in bad_at_end
           or '\\' in bad, searches[0],
           'a trailing backslash does not trigger quoting (it would escape '
           'the closing quote)')
    subs = [n for n in ast.walk(f.node) if isinstance(n, ast.Call) and
            Q.callee_attr(n) == 'sub']
    ok = False
    if len(subs) == 1:
        rr = const_eval(repo, m, subs[0].func.value)
        reps = [n for n in ast.walk(f.node) if isinstance(
            n, ast.FunctionDef) and n is not f.node]
        if isinstance(rr, RegexConst) and len(reps) == 1:
            anywhere, start, grp = rx.sub_pattern_chars(
                rr.pattern.replace('|$)', ')'))
            rt = unparse(reps[0])
            ok = '"' in anywhere and rr.pattern.endswith('|$)') and \
                'm.group(1) * 2' in rt and 'm.group(2)' in rt
    ctx.ob(R, 'inner_quote_info|backslashes-doubled', ok, f.node,
           'backslashes before a quote / at the end are not doubled and the '
           'quote escaped')
    wq = repo.func(WIN + 'wrap_quotes')
    ok = '\'"\' + s + \'"\'' in unparse(wq.node)
    ctx.ob(R, 'wrap_quotes|double-quotes', ok, wq.node, '')


def win_tokenize_parity(ctx):
    R = 'WIN-TOKENIZE-PARITY'
    ctx.rule(R, 'the Windows splitter implements the MS C runtime backslash '
             'rule structurally: a run of n backslashes before a double '
             'quote yields n//2 backslashes and, by parity, a literal quote '
             'or a quote toggle; a run not followed by a quote is literal; '
             'the run counter is reset after either')
    repo = ctx.repo
    f = repo.func(WIN + '_tokenize')
    t = unparse(f.node)
    loops = [n for n in f.node.body if isinstance(n, ast.For)]
    ok = len(loops) == 1
    ctx.ob(R, '_tokenize|single-pass', ok, f.node, '')
    if not ok:
        return
    branches = {}
    cur = loops[0].body[0] if loops[0].body and isinstance(
        loops[0].body[0], ast.If) else None
    while cur is not None:
        branches[unparse(cur.test)] = cur.body
        if len(cur.orelse) == 1 and isinstance(cur.orelse[0], ast.If):
            cur = cur.orelse[0]
        else:
            branches['<else>'] = cur.orelse
            cur = None
    bs = branches.get("c == '\\\\'")
    ok = bs is not None and len(bs) == 1 and isinstance(
        bs[0], ast.AugAssign) and isinstance(bs[0].op, ast.Add) and \
        unparse(bs[0].value) == '1'
    ctx.ob(R, '_tokenize|backslash-counts', ok, f.node,
           'backslashes are not counted as a run')
    var = unparse(bs[0].target) if ok else 'escapes'
    q = branches.get("c == '\"'")
    qt = ' '.join(unparse(s_) for s_ in q) if q else ''
    ok = q is not None and 'range({} // 2)'.format(var) in qt and \
        '{} % 2'.format(var) in qt and '_Token.quote' in qt and \
        "(_Token.char, '\"')" in qt and '{} = 0'.format(var) in qt
    ctx.ob(R, '_tokenize|quote-branch-halves-and-parity', ok, f.node,
           'before a quote the run is not halved / the parity does not '
           'decide between a literal quote and a quote toggle')
    e = branches.get('<else>')
    et = ' '.join(unparse(s_) for s_ in e) if e else ''
    ok = e is not None and 'range({})'.format(var) in et and \
        '{} = 0'.format(var) in et and '_Token.space' in et
    ctx.ob(R, '_tokenize|other-branch-keeps-run', ok, f.node,
           'a backslash run that is not followed by a quote is not kept '
           'literally')


def check(ctx):
    ctx.not_decided += [
        'that quoting followed by MS C runtime parsing is the identity for '
        'every argument list (2n / 2n+1 backslash rule) and that split is '
        'the inverse of join: string-transducer properties',
        'uniqueness of GUIDs per project name (uuid4 collisions)']
    uuid_persist(ctx)
    sln_deps(ctx)
    win_quote_table(ctx)
    win_tokenize_parity(ctx)
