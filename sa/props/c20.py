"""C20 -- Windows command lines and MSBuild solutions are well-formed and
stable.

Decided (MSBuild half + quoting tables): UUID-PERSIST -- the GUID map is
loaded from the persisted file, consulted before a new GUID is drawn, new
GUIDs are stored back, every key handed out is written by save(), and
msbuild.write saves after the projects are written; SLN-DEPS -- a dependency
on an unknown project raises before it is recorded; WIN-QUOTE-TABLE -- the
Windows quoter's bad-character set covers the characters the MS C runtime
splits or unquotes on (space, tab, double quote), and backslashes before a
quote / at the end are doubled.
Not decided: the Windows quoting round trip (2n / 2n+1 backslashes) over all
strings; GUID uniqueness per name.
"""
import ast

import re

from ..cfg import build as build_cfg
from ..consteval import RegexConst, const_eval
from ..facts import Facts, direct, has, has_call, has_const, param_of
from ..index import unparse, walk_no_nested
from .. import query as Q
from .. import rx

SOL = 'bfg9000.backends.msbuild.solution:'
WIN = 'bfg9000.shell.windows:'


def _facts(ctx):
    f = getattr(ctx, '_facts', None)
    if f is None:
        f = ctx._facts = Facts(ctx.repo)
    return f


def uuid_persist(ctx):
    R = 'UUID-PERSIST'
    ctx.rule(R, 'UuidMap loads the persisted map, looks a key up before '
             'drawing a new GUID, stores new GUIDs, save() writes every key '
             'handed out in this run, msbuild.write saves after the projects '
             'are written')
    repo = ctx.repo
    F = _facts(ctx)
    init = F.fn(SOL + 'UuidMap.__init__')
    v = F.stored(init, '_map') or set()
    ok = has_call(v, '_load') and param_of(v, 'path') and any(
        a.startswith('alloc:') for a in v)
    ctx.ob(R, 'UuidMap.__init__|loads-persisted-map', ok, init.node,
           'the persisted GUID map is not loaded (with an empty map as the '
           'fallback)')
    gi = F.fn(SOL + 'UuidMap.__getitem__')
    news = F.effects(gi, lambda e: e.name == 'uuid4', depth=1)
    ok = bool(news) and all(any(
        op == 'NotIn' and param_of(l, 'key') and has(r, 'self', '_map')
        for op, l, r in F.guard_compares(e.call, e.fn, e.bind)) or any(
        has(x, 'self', '_map') and param_of(x, 'key')
        for x in [e.control()]) for e in news)
    ctx.ob(R, 'UuidMap.__getitem__|lookup-before-new', ok, gi.node,
           'a new GUID is drawn although the key is in the persisted map')
    r_ = F.returns(gi)
    ok = has(r_, 'self', '_map') and not any(
        has_call(F.atoms(t, gi), 'uuid4') for t in F.guards(
            news[0].call, news[0].fn)) if news else False
    ctx.ob(R, 'UuidMap.__getitem__|existing-key-returns-saved-guid', ok,
           gi.node, 'the GUID saved for a key is not what a lookup returns')
    ok = any(has(t, 'self', '_map') and has_call(v_, 'uuid4')
             for t, v_, n in F.stores(gi)) or any(
        has(e.recv(), 'self', '_map') and has_call(e.arg(1), 'uuid4')
        for e in F.effects(gi, lambda e: e.name == 'setdefault', depth=1))
    ctx.ob(R, 'UuidMap.__getitem__|stores-new', ok, gi.node,
           'a newly drawn GUID is not stored in the map')
    ok = F.must(gi, lambda e: e.name == 'add' and has(
        e.recv(), 'self', '_seen') and param_of(e.all_args(), 'key'))
    ctx.ob(R, 'UuidMap.__getitem__|marks-seen', ok, gi.node,
           'keys handed out are not (always) marked as seen: save would '
           'drop them')
    sv = F.fn(SOL + 'UuidMap.save')
    top = None
    for e in F.effects(sv, lambda e: e.name == 'dump', depth=1):
        top = F.flow.record(e.call.args[0], e.fn, e.bind)
    m_ = F.flow.rec_atoms(top, 'map') if top else set()
    # entries stored one by one: state['map'][k] = v.hex
    for ent in (getattr(top, 'nested', {}) or {}).get('map', []):
        k_, v_, f_, b_ = ent
        m_ = m_ | F.flow.atoms(v_, f_, b_)
    conds = []
    for g_, b_ in F.frames(sv, 0):
        if g_.cls is not sv.cls:
            continue
        conds += [(t, g_) for n in ast.walk(g_.node) if isinstance(
            n, ast.comprehension) for t in n.ifs] + [
            (n.test, g_) for n in ast.walk(g_.node)
            if isinstance(n, (ast.If, ast.IfExp))]
    ok = top is not None and set(top) == {'version', 'map'} and \
        has(m_, 'self', '_map') and has(m_, 'hex') and \
        has(F.flow.rec_atoms(top, 'version'), 'version') and all(
            has(F.atoms(t, g_), 'self', '_seen') for t, g_ in conds)
    ctx.ob(R, 'UuidMap.save|writes-all-seen-keys', ok, sv.node,
           'save() does not write every key handed out in this run (and '
           'only those), or skips writing under some condition')
    ops = [e for e in F.effects(sv, lambda e: e.name == 'open', depth=1)]
    ok = bool(ops) and all(has(e.arg(0), 'self', '_path') and
                           has_const(e.all_args(), 'w') for e in ops)
    ctx.ob(R, 'UuidMap.save|same-file', ok, sv.node,
           'the map is not written back to the file it was loaded from')
    ld = F.fn(SOL + 'UuidMap._load')
    r = F.returns(ld)
    ok = any('UUID(hex=' in a for a in r) and has(r, "['map']")
    rs = [n for n in walk_no_nested(ld.node) if isinstance(n, ast.Raise)]
    ok = ok and any(op == 'Gt' and has(l, "['version']") and has(
        rr, 'version') for n in rs for op, l, rr in
        F.guard_compares(n, ld))
    ctx.ob(R, 'UuidMap._load|reads-map', ok, ld.node,
           'the saved map is not read back as GUIDs (hex form), or a newer '
           'file version is accepted')
    w = F.fn('bfg9000.backends.msbuild.writer:write')
    saves = [e for e in F.effects(w, lambda e: e.name == 'save', depth=1)
             if has_call(e.recv(), 'UuidMap')]
    pw = [e for e in F.effects(w, lambda e: e.name == 'write', depth=1)
          if has_call(e.recv(), 'Solution')]
    ok = bool(saves) and bool(pw) and all(
        all(F.always_before(p_, s_) for p_ in pw) for s_ in saves) and \
        F.must(w, lambda e: e.name == 'save' and has_call(e.recv(),
                                                          'UuidMap'))
    ctx.ob(R, 'msbuild.write|save-after-projects', ok, w.node,
           'the GUID map is not saved at the end of a normal run')
    um = F.calls_to(w, 'UuidMap', depth=1)
    sl = F.calls_to(w, 'Solution', depth=1)
    ok = bool(um) and all(has(e.arg(0), 'env', 'builddir') and any(
        "'.bfg_uuid'" in a for a in e.arg(0)) for e in um) and bool(
        sl) and all(
        has_call(e.arg(0), 'UuidMap') for e in sl)
    ctx.ob(R, 'msbuild.write|map-in-builddir', ok, w.node,
           'the GUID map does not live in the build directory / is not '
           'given to the solution')
    si = F.fn(SOL + 'Solution.__setitem__')
    ok = any(has(e.all_args(), 'self', '_uuids')
             for e in F.calls_to(si, 'set_uuid', depth=1))
    ctx.ob(R, 'Solution.__setitem__|guid-from-map', ok, si.node,
           'projects added to the solution do not get their GUID from the '
           'map')
    pj = F.fn('bfg9000.backends.msbuild.syntax:Project.set_uuid')
    v = F.stored(pj, 'uuid') or set()
    ok = param_of(v, 'uuids') and {a for a in v if a.startswith(
        'via:')} == {'via:self.name'}
    ctx.ob(R, 'Project.set_uuid|keyed-by-name', ok, pj.node,
           'project GUIDs are not keyed by the (full) project name')


def sln_deps(ctx):
    R = 'SLN-DEPS'
    ctx.rule(R, 'every project dependency refers to a project of the same '
             'solution: a dependency is recorded only after the membership '
             'test that raises for unknown projects')
    F = _facts(ctx)
    f = F.fn(SOL + 'Solution.dependencies')
    subs = []
    for g in F.reach(f, 1):
        if g.cls is not f.cls:
            continue
        for n in ast.walk(g.node):
            # self[x] or self._projects[x]
            if isinstance(n, ast.Subscript) and isinstance(
                    n.ctx, ast.Load) and (isinstance(
                        n.value, ast.Name) and n.value.id == 'self' or
                    has(F.atoms(n.value, g), 'self', '_projects')):
                subs.append((n, g))

    def own(r):
        return param_of(r, 'self') or has(r, 'self', '_projects')
    ok = bool(subs) and all(any(
        op == 'In' and own(r) and
        direct(l) & direct(F.atoms(n.slice, g))
        for op, l, r in F.guard_compares(n, g)) for n, g in subs)
    raising = False
    for g in F.reach(f, 1):
        if g.cls is not f.cls:
            continue
        for n in ast.walk(g.node):
            if isinstance(n, ast.Raise) and any(
                    op == 'NotIn' and own(r)
                    for op, l, r in F.guard_compares(n, g)):
                raising = True
    ctx.ob(R, 'Solution.dependencies|unknown-raises-before-append',
           ok and raising, f.node,
           'a dependency on a project outside the solution can be recorded '
           'or is silently dropped (the project is looked up without the '
           'membership test that raises)')
    ok = param_of(F.returns(f), 'self') or has(F.returns(f), 'self',
                                               '_projects')
    ctx.ob(R, 'Solution.dependencies|appends-the-checked-project', ok,
           f.node, 'the recorded dependency is not the solution\'s own '
           'project object')
    c = F.fn(SOL + 'Solution.__contains__')
    ok = has(F.returns(c), 'self', '_projects') or has(
        F.return_control(c), 'self', '_projects')
    ctx.ob(R, 'Solution.__contains__|projects', ok, c.node,
           'membership is not decided by the project table')
    w = F.fn(SOL + 'Solution.write')
    a = set()
    for e in F.effects(w, lambda e: True, depth=0):
        a |= e.all_args()
    ok = has(a, 'dependencies', 'uuid_str')
    ctx.ob(R, 'Solution.write|deps-by-guid', ok, w.node,
           'project dependencies are not written by GUID')


def _regex_const(ctx, F, fn, method):
    """Pattern strings of the compiled regexes fn applies `method` to."""
    out = []
    for e in F.effects(fn, lambda e: e.name == method, depth=1):
        if isinstance(e.call.func, ast.Attribute):
            rc = const_eval(ctx.repo, e.fn.module, e.call.func.value)
            if isinstance(rc, RegexConst):
                out.append((rc.pattern, e))
            elif isinstance(e.call.func.value, ast.Name) and \
                    e.call.func.value.id in ('re', '_re') and e.call.args:
                p = const_eval(ctx.repo, e.fn.module, e.call.args[0])
                if isinstance(p, str):
                    out.append((p, e))
    return out


def win_quote_table(ctx):
    R = 'WIN-QUOTE-TABLE'
    ctx.rule(R, 'the Windows quoter quotes every word containing a character '
             'the MS C runtime argument parser splits or unquotes on (space, '
             'tab, double quote), quotes the empty string, doubles '
             'backslashes before a quote and at the end of a quoted word')
    repo = ctx.repo
    F = _facts(ctx)
    f = F.fn(WIN + 'inner_quote_info')
    searches = _regex_const(ctx, F, f, 'search')
    Q.require(len(searches) == 1, 'windows.inner_quote_info: regex test')
    pat, se = searches[0]
    cre = re.compile(pat)
    for ch, why in ((' ', 'argument separator'), ('\t', 'argument separator'),
                    ('"', 'quote character')):
        ctx.ob(R, 'windows._bad_chars|{!r}'.format(ch),
               cre.search('a' + ch + 'b') is not None, se.call,
               '{!r} ({}) does not trigger quoting'.format(ch, why))
    ctx.ob(R, 'windows._bad_chars|trailing-backslash',
           cre.search('ab\\') is not None, se.call,
           'a trailing backslash does not trigger quoting (it would escape '
           'the closing quote)')
    ok = False
    for g, b in F.frames(f, 1):
        if g.module is not f.module:
            continue
        for r in Q.returns(g.node):
            if r.value is None:
                continue
            a = F.atoms(r.value, g, b)
            if has_const(a, '') and has_const(a, True) and any(
                    op == 'Eq' and (has_const(l, '') or has_const(rr, ''))
                    for op, l, rr in F.guard_compares(r, g, b)):
                ok = True
    ctx.ob(R, 'inner_quote_info|empty-string-quoted', ok, f.node,
           'the empty string is not quoted')
    subs = _regex_const(ctx, F, f, 'sub')
    ok = False
    if len(subs) == 1:
        spat, e = subs[0]
        try:
            c2 = re.compile(spat)
            m1 = [m for m in c2.finditer('ab\\\\') if m.end() == 4 and
                  m.group(0) == '\\\\']
            m2 = [m for m in c2.finditer('a\\"b') if m.group(0) ==
                  '\\"']
            ok = bool(m1) and bool(m2) and m1[0].group(1) == '\\\\' and \
                m2[0].group(1) == '\\' and m2[0].group(2) == '"'
        except (re.error, IndexError):
            ok = False
        repl = e.arg(0) if e.call.args and not isinstance(
            e.call.func.value, ast.Name) or True else set()
        repl = e.arg(0) if isinstance(const_eval(
            repo, e.fn.module, e.call.func.value), RegexConst) else e.arg(1)
        ok = ok and has_call(repl, 'mul2') and has_const(
            repl, '\\') and any('group(' in a or 'groups(' in a for a in repl)
    ctx.ob(R, 'inner_quote_info|backslashes-doubled', ok, f.node,
           'backslashes before a quote / at the end are not doubled and the '
           'quote escaped')
    wq = F.fn(WIN + 'wrap_quotes')
    r = F.returns(wq)
    ok = has_const(r, '"') and param_of(r, 's')
    ctx.ob(R, 'wrap_quotes|double-quotes', ok, wq.node,
           'quoted words are not wrapped in double quotes')


def win_tokenize_parity(ctx):
    R = 'WIN-TOKENIZE-PARITY'
    ctx.rule(R, 'necessary arithmetic of the MS C runtime backslash rule is '
             'present in the Windows splitter (in _tokenize or the helpers '
             'it calls): backslashes are counted as a run, the run is '
             'halved, its parity is taken, and the run is reset. (That the '
             'pieces are combined correctly is a transducer property and is '
             'not decided.)')
    F = _facts(ctx)
    f = F.fn(WIN + '_tokenize')
    halves = parity = counts = resets = False
    for g in F.reach(f, 1):
        if g.module is not f.module:
            continue
        for n in ast.walk(g.node):
            if isinstance(n, ast.BinOp) and isinstance(
                    n.right, ast.Constant):
                if isinstance(n.op, ast.FloorDiv) and n.right.value == 2 or \
                        isinstance(n.op, ast.RShift) and n.right.value == 1:
                    halves = True
                if isinstance(n.op, ast.Mod) and n.right.value == 2 or \
                        isinstance(n.op, ast.BitAnd) and n.right.value == 1:
                    parity = True
            if isinstance(n, ast.Call) and isinstance(n.func, ast.Name) and \
                    n.func.id == 'divmod' and len(n.args) == 2 and \
                    isinstance(n.args[1], ast.Constant) and \
                    n.args[1].value == 2:
                halves = parity = True
            if isinstance(n, ast.AugAssign) and isinstance(
                    n.op, ast.Add) and isinstance(
                        n.value, ast.Constant) and n.value.value == 1:
                if any(op == 'Eq' and (has_const(l, '\\') or
                                       has_const(r, '\\'))
                       for op, l, r in F.guard_compares(n, g)):
                    counts = True
            if isinstance(n, ast.Assign) and isinstance(
                    n.value, ast.Constant) and n.value.value == 0 and \
                    n in [x for x in ast.walk(g.node)
                          if getattr(x, '_parent', None) is not g.node]:
                resets = True
    ctx.ob(R, '_tokenize|backslash-counts', counts, f.node,
           'backslashes are not counted as a run')
    ctx.ob(R, '_tokenize|run-halved-before-quote', halves, f.node,
           'a run of backslashes is never halved: 2n backslashes before a '
           'quote must yield n')
    ctx.ob(R, '_tokenize|parity-decides-literal-quote', parity, f.node,
           'the parity of a backslash run is never taken: it decides '
           'between a literal quote and a quote toggle')
    ctx.ob(R, '_tokenize|run-reset', resets, f.node,
           'the run counter is never reset inside the loop')


def check(ctx):
    ctx.not_decided += [
        'that quoting followed by MS C runtime parsing is the identity for '
        'every argument list (2n / 2n+1 backslash rule) and that split is '
        'the inverse of join: string-transducer properties',
        'uniqueness of GUIDs per project name (uuid4 collisions)']
    uuid_persist(ctx)
    sln_deps(ctx)
    win_quote_table(ctx)
    win_tokenize_parity(ctx)
