"""C05 -- Distinct inputs never collide on one output path; outputs stay in
builddir.

Decided (structural necessary clauses):
  PARREF-REGEX  the pattern that rewrites parent references in
                builtins.path.within_directory matches exactly the component
                `..` (so ordinary one/two-character names are kept distinct);
  RULE-OWNER    collisions end in ValueError (shared with C03);
  OUTPUT-ROOT   every implicitly named output path is rooted in builddir;
  WRITE-ROOT    every file-system mutation of configure/regenerate targets a
                builddir-derived path.
Not decided: injectivity of naming over all pairs of paths; explicit absolute
output names.
"""
import ast
import re._constants as sre_c

from ..consteval import UNKNOWN, const_eval
from ..index import AnalysisError, unparse, walk_no_nested
from .. import query as Q
from .. import rx
from ..rules import owner
from ..rules.roots import BUILD, SRC, RootEval


def parref_regex(ctx):
    R = 'PARREF-REGEX'
    ctx.rule(R, 'the parent-reference rewrite in within_directory matches '
             'exactly the path component ".." and replaces it by a name that '
             'is not a parent reference')
    repo = ctx.repo
    f = repo.func('bfg9000.builtins.path:within_directory')
    subs = [c for c in Q.calls(f.node) if Q.text(c.func) in ('re.sub',)]
    comp_cmp = [n for n in ast.walk(f.node) if isinstance(n, ast.Compare) and
                any(const_eval(repo, f.module, x) == '..'
                    for x in [n.left] + n.comparators)]
    if not subs:
        if comp_cmp:
            ctx.ob(R, 'within_directory|component-compare', True, f.node,
                   'parent references are found by comparing whole '
                   'components with ".."')
            return
        raise AnalysisError('within_directory: no re.sub and no component '
                            'comparison with ".." found')
    n_sub = 0
    for c in subs:
        pat = const_eval(repo, f.module, c.args[0]) if c.args else UNKNOWN
        if not isinstance(pat, str):
            raise AnalysisError('within_directory: non-constant pattern')
        p = list(rx.parse(pat))
        # strip a leading separator group / anchor and a trailing
        # look-ahead / separator group
        lead, trail = [], []
        while p and (p[0][0] in (sre_c.AT,) or (
                p[0][0] is sre_c.SUBPATTERN and _is_sep_group(p[0][1][3]))):
            lead.append(p.pop(0))
        while p and (p[-1][0] in (sre_c.AT, sre_c.ASSERT) or (
                p[-1][0] is sre_c.SUBPATTERN and
                _is_sep_group(p[-1][1][3]))):
            trail.append(p.pop())
        lang = rx.literal_language(p)
        key = 'within_directory|re.sub|middle-language'
        n_sub += 1
        ctx.ob(R, key, lang == '..', c,
               'pattern {!r}: the part between the separators denotes {} '
               'instead of exactly the string ".." (an unescaped "." matches '
               'any character, so e.g. the directories "aa" and "bb" are '
               'both renamed)'.format(
                   pat, repr(lang) if lang is not None else
                   'a set of strings'))
        ctx.ob(R, 'within_directory|re.sub|anchored',
               bool(lead) and bool(trail), c,
               'pattern {!r} is not delimited by separators/anchors on both '
               'sides'.format(pat))
        repl = const_eval(repo, f.module, c.args[1]) if len(c.args) > 1 \
            else UNKNOWN
        ok = isinstance(repl, str) and '..' not in repl and bool(
            repl.replace('\\1', '').replace('\\g<1>', ''))
        ctx.ob(R, 'within_directory|re.sub|replacement', ok, c,
               'replacement {!r} does not substitute an ordinary name'
               .format(repl))
    # the rewritten suffix is appended to the directory
    rets = Q.returns(f.node)
    ok = len(rets) == 1 and isinstance(rets[0].value, ast.Call) and \
        Q.callee_attr(rets[0].value) == 'append'
    ctx.ob(R, 'within_directory|result-below-directory', ok, f.node,
           'result is not `directory.append(<rewritten suffix>)`')


def _is_sep_group(seq):
    seq = list(seq)
    if len(seq) == 1 and seq[0][0] is sre_c.BRANCH:
        return True
    if len(seq) == 1 and seq[0][0] is sre_c.LITERAL and chr(seq[0][1]) == '/':
        return True
    return False


def output_root(ctx):
    R = 'OUTPUT-ROOT'
    ctx.rule(R, 'every Path constructed for an implicitly named output '
             '(tool output_file methods and their helpers, copy/compress '
             'pathfn, BuildStep outputs, stamp files, directory sentinels) '
             'has root builddir')
    repo = ctx.repo
    n_sites = 0
    # 1. every output_file method of every tool class, plus self.* helpers
    for ci in sorted(repo.classes.values(), key=lambda c: c.fq):
        if not ci.module.name.startswith('bfg9000.tools'):
            continue
        if 'output_file' not in ci.methods:
            continue
        todo = [ci.methods['output_file']]
        seen = set()
        while todo:
            fn = todo.pop()
            if fn in seen:
                continue
            seen.add(fn)
            finfo = fn._func
            ev = RootEval(repo, finfo)
            for c in Q.calls(fn):
                nm = Q.attr_name(c.func)
                if nm == 'Path' or nm == 'reroot':
                    roots = ev.root(c)
                    n_sites += 1
                    ctx.ob(R, '{}|{}'.format(finfo.fq, unparse(c)),
                           roots == {BUILD}, c,
                           'output path may have root {}'.format(
                               sorted(roots)))
                if (isinstance(c.func, ast.Attribute) and isinstance(
                        c.func.value, ast.Name) and
                        c.func.value.id == 'self'):
                    owner_, meth = ci.find_method(c.func.attr)
                    if meth is not None and owner_.module.name.startswith(
                            'bfg9000.tools') and meth.name not in (
                                '__init__',):
                        if any(Q.attr_name(x.func) in ('Path', 'reroot')
                               for x in Q.calls(meth)):
                            todo.append(meth)
    ctx.require_min(R, n_sites, 20, 'Path constructions in output_file '
                    'methods')

    # 2. pathfn of CopyFile / CompressFile
    for cls_fq in ('bfg9000.builtins.copy_file:CopyFile',
                   'bfg9000.builtins.copy_file:CompressFile'):
        conv = repo.method(cls_fq, 'convert_args')
        pathfns = [n for n in ast.walk(conv.node)
                   if isinstance(n, ast.FunctionDef) and n is not conv.node]
        Q.require(pathfns, cls_fq + '.convert_args: no nested path function')
        # `directory` comes from buildpath(context, directory, strict=True)
        for pf in pathfns:
            ev = RootEval(repo, pf._func)
            outer = RootEval(repo, conv)
            proots = {}
            for nm in ('directory',):
                vals = [v for v in Q.local_assignments(conv.node, nm)
                        if v is not None and not (
                            isinstance(v, ast.Call) and
                            Q.attr_name(v.func) == 'pop')]
                if vals:
                    rs = set()
                    for v in vals:
                        rs |= outer.root(v)
                    proots[nm] = rs
            ev.param_roots = proots
            for r in Q.returns(pf):
                roots = ev.root(r.value)
                ctx.ob(R, '{}|return {}'.format(pf._func.fq,
                                                unparse(r.value)),
                       roots == {BUILD}, r,
                       'copied/compressed output may have root {}'.format(
                           sorted(roots)))
        # the output is built by cloning the input with that function
        clones = [c for c in Q.calls(conv.node, nested=False)
                  if Q.callee_attr(c) == 'clone']
        ok = len(clones) == 1 and clones[0].args and isinstance(
            clones[0].args[0], ast.Name) and clones[0].args[0].id in [
                p.name for p in pathfns]
        ctx.ob(R, cls_fq + '|output=file.clone(pathfn)', ok, conv.node,
               'output is not derived through the builddir path function')

    # 3. BuildStep outputs
    f = repo.method('bfg9000.builtins.command:BuildStep', '_make_outputs')
    ev = RootEval(repo, f)
    pcs = [c for c in Q.calls(f.node) if Q.attr_name(c.func) == 'Path']
    Q.require(pcs, 'BuildStep._make_outputs: no Path construction')
    for c in pcs:
        roots = ev.root(c)
        ctx.ob(R, f.fq + '|' + unparse(c), roots == {BUILD}, c,
               'build_step output may have root {}'.format(sorted(roots)))

    # 4. object files placed below the intermediate directory
    f = repo.method('bfg9000.builtins.compile:BaseCompile', '__init__')
    wd = [c for c in Q.calls(f.node) if Q.attr_name(c.func) ==
          'within_directory']
    Q.require(wd, 'BaseCompile.__init__: within_directory not used')
    conv = repo.method('bfg9000.builtins.compile:BaseCompile', 'convert_args')
    bp = [c for c in Q.calls(conv.node) if any(
        isinstance(n, ast.Call) and Q.attr_name(n.func) == 'buildpath'
        for n in ast.walk(c))]
    strict_ok = False
    for c in ast.walk(conv.node):
        if isinstance(c, ast.Call) and Q.attr_name(c.func) == 'buildpath':
            s = Q.arg(c, 2, 'strict')
            strict_ok = s is not None and const_eval(
                repo, conv.module, s) is True
    ctx.ob(R, conv.fq + '|directory=buildpath(strict)', strict_ok, conv.node,
           'the `directory` argument of compile steps is not forced into '
           'builddir (buildpath(..., strict=True))')
    for c in wd:
        ev = RootEval(repo, f, {'directory': {BUILD}})
        roots = ev.root(c)
        ctx.ob(R, f.fq + '|' + unparse(c), roots == {BUILD}, c,
               'object file below directory may have root {}'.format(
                   sorted(roots)))
    # default branch: name is None -> default_name(...) is a suffix (str),
    # turned into a builddir path by output_file: checked in (1).

    # 5. stamp files and directory sentinels in the make backend
    for fq in ('bfg9000.backends.make.writer:directory_deps',):
        f = repo.func(fq)
        ev = RootEval(repo, f)
        for c in Q.calls(f.node):
            if Q.attr_name(c.func) == 'Path':
                roots = ev.root(c)
                ctx.ob(R, f.fq + '|' + unparse(c), roots == {BUILD}, c,
                       'root {}'.format(sorted(roots)))
    f = repo.func('bfg9000.backends.make.writer:multitarget_rule')
    vals = [v for v in Q.local_assignments(f.node, 'primary')
            if v is not None]
    stamp = [v for v in vals if isinstance(v, ast.Call) and
             Q.callee_attr(v) == 'addext']
    ctx.ob(R, f.fq + '|stamp derived from first target',
           len(stamp) == 1 and 'first' in unparse(stamp[0]) or
           (len(stamp) == 1 and 'targets[0]' in unparse(stamp[0])),
           f.node, 'stamp file is not `<first target>.addext(...)`')

    # 6. intermediate directory of link steps is a relative name below the
    # (builddir-rooted) output name
    f = repo.method('bfg9000.builtins.link:Link', 'convert_args')
    vals = [v for v in Q.local_assignments(f.node, 'intdir')
            if v is not None]
    Q.require(vals, 'Link.convert_args: intdir not assigned')
    txt = ' '.join(unparse(v) for v in vals)
    ctx.ob(R, f.fq + '|intdir derived from target name',
           '__name(name)' in txt or 'cls.__name' in txt, f.node,
           'intermediate directory is not derived from the target name')


def name_strip_once(ctx):
    R = 'NAME-STRIP-ONCE'
    ctx.rule(R, 'between a source path and the default output name the '
             'extension is stripped at most once (default_name + output_file '
             'of one tool class), so stems that contain dots stay distinct '
             '(calc.c vs calc.tab.c)')
    repo = ctx.repo
    n = 0
    for ci in sorted(repo.classes.values(), key=lambda c: c.fq):
        if not ci.module.name.startswith('bfg9000.tools'):
            continue
        if 'default_name' not in ci.methods or \
                'output_file' not in ci.methods:
            continue
        n += 1

        def strips(fn):
            return [c for c in Q.calls(fn) if Q.callee_attr(c) in (
                'stripext', 'splitext')]
        a = strips(ci.methods['default_name'])
        b = strips(ci.methods['output_file'])
        # a second strip applied to the pch *source* (not the name) is fine
        b = [c for c in b if 'name' in unparse(c)]
        ctx.ob(R, ci.fq, not (a and b), ci.methods['output_file'],
               '{}: default_name strips the extension and output_file '
               'strips again ({}): `x.tab.c` and `x.c` get the same output'
               .format(ci.name, unparse(b[0]) if b else ''))
    ctx.require_min(R, n, 6, 'tool classes with default_name+output_file')
    # within_directory: everything appended to the directory went through the
    # parent-reference rewrite
    f = repo.func('bfg9000.builtins.path:within_directory')
    rets = Q.returns(f.node)
    if len(rets) == 1 and isinstance(rets[0].value, ast.Call) and \
            Q.callee_attr(rets[0].value) == 'append' and \
            rets[0].value.args and isinstance(rets[0].value.args[0],
                                              ast.Name):
        var = rets[0].value.args[0].id
        defs = [v for v in Q.local_assignments(f.node, var)]
        rewrites = [v for v in defs if v is not None and isinstance(
            v, ast.Call) and unparse(v.func) in ('re.sub',)]
        feeds = []
        for v in defs:
            if v is None or v in rewrites:
                continue
            # a definition is fine when its only use is as input of the
            # rewrite
            feeds.append(v)
        uses_ok = True
        for v in feeds:
            # the value must reach re.sub: i.e. some rewrite takes `var`
            # as its subject and follows this definition in the same block
            blk = v._parent._parent if hasattr(v, '_parent') else None
            sib = getattr(blk, 'body', None)
            ok_here = False
            if isinstance(sib, list) and v._parent in sib:
                later = sib[sib.index(v._parent) + 1:]
                ok_here = any(isinstance(s_, ast.Assign) and s_.value in
                              rewrites for s_ in later)
            uses_ok = uses_ok and ok_here
        ctx.ob('PARREF-REGEX', 'within_directory|every-suffix-is-rewritten',
               bool(rewrites) and uses_ok, f.node,
               'a path suffix can reach directory.append() without passing '
               'through the parent-reference rewrite (fast path)')


# write-effect sites: (function fq, description, how the path is obtained)
def write_root(ctx):
    R = 'WRITE-ROOT'
    ctx.rule(R, 'every open-for-write / remove / utime / makedirs reachable '
             'from configure/regenerate targets a path derived from the '
             'build directory')
    repo = ctx.repo
    sites = []
    for m in repo.modules.values():
        if m.name in ('bfg9000.e1m1', 'bfg9000.rccdep', 'bfg9000.depfixer',
                      'bfg9000.jvmoutput'):
            continue   # build-time helper programs, not configure/regenerate
        if m.name.startswith('bfg9000.backends.msbuild'):
            continue   # MSBuild project paths: out of C05's scope (make/ninja)
        for c in ast.walk(m.tree):
            if not isinstance(c, ast.Call):
                continue
            t = unparse(c.func)
            if t == 'open':
                mode = Q.arg(c, 1, 'mode')
                mv = const_eval(repo, m, mode) if mode is not None else 'r'
                if mv is UNKNOWN:
                    mv = 'w?'   # e.g. a parameter; treat as possible write
                if isinstance(mv, str) and any(x in mv for x in 'wax+?'):
                    sites.append((m, c, 'open', c.args[0]))
            elif t in ('os.remove', 'os.unlink', 'os.utime', 'os.makedirs',
                       'os.mkdir', 'os.rename', 'os.replace', 'os.rmdir',
                       'os.symlink', 'os.link', 'os.chmod'):
                sites.append((m, c, t, c.args[0]))
    ctx.require_min(R, len(sites), 14, 'file-system mutation sites')
    ctx.stat('write_sites', len(sites))
    for m, c, kind, pathexpr in sites:
        fn = repo.enclosing_func(c)
        dead = _dead_flag(repo, fn, c)
        if dead:
            ctx.ob(R, '{}|{}|{}'.format(fn.fq, kind, unparse(pathexpr)),
                   True, c, 'unreachable: ' + dead)
            continue
        tr = _Tracer(repo)
        roots = tr.trace(pathexpr, fn, 0)
        definite_bad = {r for r in roots if not r.startswith('?') and
                        r != BUILD}
        ok = not definite_bad and BUILD in roots
        if not definite_bad and BUILD not in roots:
            raise AnalysisError(
                'WRITE-ROOT: cannot determine the root of {} at {} '
                '(saw {})'.format(unparse(pathexpr), repo.site(c),
                                  sorted(roots)))
        ctx.ob(R, '{}|{}|{}'.format(fn.fq if fn else m.name, kind,
                                    unparse(pathexpr)),
               ok, c, 'path may be rooted in {}'.format(
                   sorted(definite_bad)))


def _dead_flag(repo, fn, node):
    """Is `node` inside `if <flag>:` where <flag> is a parameter defaulting
    to False that no call site in the package ever passes?"""
    if fn is None:
        return None
    n = getattr(node, '_parent', None)
    while n is not None and n is not fn.node:
        if isinstance(n, ast.If) and isinstance(n.test, ast.Name) and \
                n.test.id in Q.params(fn.node):
            d = Q.param_default(fn.node, n.test.id)
            if isinstance(d, ast.Constant) and d.value is False:
                plist = Q.params(fn.node)
                idx = plist.index(n.test.id)
                passed = False
                for m, c, exact in Q.find_callers(repo, fn):
                    if Q.arg(c, idx, n.test.id) is not None:
                        passed = True
                if not passed:
                    return 'flag `{}` defaults to False and is never ' \
                        'passed by any caller'.format(n.test.id)
        n = getattr(n, '_parent', None)
    return None


class _Tracer:
    """Inter-procedural provenance of a path / path-string expression."""

    # parameters whose provenance is fixed by the repo's conventions, each
    # with the reason (confirmed by reading the single producer)
    KNOWN = {
        # `output` handed to post_output is what output_file returned, which
        # OUTPUT-ROOT proves builddir-rooted
        ('post_output', 'output'): {BUILD},
        ('pre_output', 'name'): {BUILD},
        # find_check_cache touches `regen_files.outputs`: the backend build
        # file (module constant, builddir) and the immediate files, whose
        # creation site (make_immediate_file) is itself a WRITE-ROOT instance
        ('find_check_cache', 'i'): {BUILD},
    }

    def __init__(self, repo):
        self.repo = repo
        self.visited = set()

    def trace(self, e, fn, depth):
        repo = self.repo
        if depth > 6:
            return {'?depth'}
        if isinstance(e, ast.Call):
            t = unparse(e.func)
            nm = Q.attr_name(e.func)
            if t in ('os.path.join', 'posixpath.join') and e.args:
                return self.trace(e.args[0], fn, depth)
            if nm == 'string' and isinstance(e.func, ast.Attribute):
                return self.trace(e.func.value, fn, depth)
            if nm == 'Path':
                r = Q.arg(e, 1, 'root')
                if r is None:
                    return {BUILD}
                ev = RootEval(repo, fn)
                return ev.root(e)
            if isinstance(e.func, ast.Attribute) and nm in (
                    'append', 'addext', 'stripext', 'parent', 'as_directory',
                    'reroot'):
                if nm == 'reroot' and not e.args and not e.keywords:
                    return {BUILD}
                return self.trace(e.func.value, fn, depth)
            if isinstance(e.func, ast.Attribute) and isinstance(
                    e.func.value, ast.Name) and e.func.value.id == 'self':
                # self._output_path(...) -> trace its returns
                ci = repo.enclosing_class(e)
                if ci is not None:
                    owner_, meth = ci.find_method(nm)
                    if meth is not None:
                        out = set()
                        for r in Q.returns(meth):
                            if r.value is not None:
                                out |= self.trace(r.value, meth._func,
                                                  depth + 1)
                        return out or {'?' + t}
            # constructor of a file type: File(path) -> path
            r = repo.resolve_expr(repo.module_of(e), e.func) if isinstance(
                e.func, (ast.Name, ast.Attribute)) else None
            if r and r[0] == 'class' and e.args:
                return self.trace(e.args[0], fn, depth)
            return {'?' + unparse(e)}
        if isinstance(e, ast.BoolOp):
            out = set()
            for v in e.values:
                out |= self.trace(v, fn, depth)
            return out
        if isinstance(e, ast.Attribute):
            t = unparse(e)
            if e.attr == 'builddir':
                return {BUILD}
            if e.attr == 'srcdir':
                return {SRC}
            if e.attr == 'path':
                return self.trace(e.value, fn, depth)
            if isinstance(e.value, ast.Name) and e.value.id in ('self',
                                                                'cls'):
                ci = repo.enclosing_class(e)
                if ci is not None:
                    owner_, val = ci.find_attr(e.attr)
                    if val is not None:
                        return self.trace(val, None, depth + 1) \
                            if not isinstance(val, ast.Constant) else \
                            {'?const'}
                    # instance attribute: union of assignments in the class
                    out = set()
                    for c2 in ci.mro():
                        for meth in c2.methods.values():
                            for n in ast.walk(meth):
                                if isinstance(n, ast.Assign):
                                    for tg in n.targets:
                                        if isinstance(tg, ast.Attribute) \
                                                and tg.attr == e.attr and \
                                                isinstance(tg.value,
                                                           ast.Name) and \
                                                tg.value.id == 'self':
                                            out |= self.trace(
                                                n.value, meth._func,
                                                depth + 1)
                    return out or {'?' + t}
            if e.attr in ('pch_source', 'manifest'):
                # step attributes assigned just before the call in the same
                # function
                if fn is not None:
                    out = set()
                    for n in walk_no_nested(fn.node):
                        if isinstance(n, ast.Assign):
                            for tg in n.targets:
                                if isinstance(tg, ast.Attribute) and \
                                        tg.attr == e.attr:
                                    out |= self.trace(n.value, fn, depth + 1)
                    if out:
                        return out
            return {'?' + t}
        if isinstance(e, ast.Name):
            if fn is None:
                return {'?' + e.id}
            key = (fn.node.name, e.id)
            if key in self.KNOWN:
                return set(self.KNOWN[key])
            vals = Q.local_assignments(fn.node, e.id)
            if vals:
                out = set()
                for v in vals:
                    out |= self.trace(v, fn, depth + 1) if v is not None \
                        else {'?' + e.id}
                return out
            if e.id in Q.params(fn.node):
                return self.trace_param(fn, e.id, depth)
            r = repo.resolve_symbol(fn.module.name, e.id)
            if r and r[0] == 'value' and r[3] is not None:
                return self.trace(r[3], None, depth + 1)
            return {'?' + e.id}
        return {'?' + unparse(e)}

    def trace_param(self, fn, pname, depth):
        repo = self.repo
        if (fn.fq, pname) in self.visited:
            return set()
        self.visited.add((fn.fq, pname))
        plist = Q.params(fn.node)
        is_method = fn.cls is not None and plist and plist[0] in ('self',
                                                                  'cls')
        idx = plist.index(pname) - (1 if is_method else 0)
        out = set()
        dflt = Q.param_default(fn.node, pname)
        callers = Q.find_callers(repo, fn)
        n = 0
        for m, c, exact in callers:
            a = Q.arg(c, idx, pname)
            caller_fn = repo.enclosing_func(c)
            if a is None:
                if dflt is not None and not (isinstance(
                        dflt, ast.Constant) and dflt.value is None):
                    out |= self.trace(dflt, fn, depth + 1)
                continue
            r = self.trace(a, caller_fn, depth + 1)
            if not exact:
                # name-based candidate: may be an unrelated method of the
                # same name; keep definite facts only
                r = {x for x in r if not x.startswith('?')}
            out |= r
            n += 1
        if not n and not out:
            return {'?param ' + pname}
        return out


def check(ctx):
    ctx.not_decided += [
        'injectivity of output naming over all pairs of source paths beyond '
        'the parent-reference rewrite',
        'explicit absolute output names given by the script']
    parref_regex(ctx)
    owner.check(ctx)
    output_root(ctx)
    name_strip_once(ctx)
    write_root(ctx)
    from ..rules import pathops
    pathops.check(ctx)
