"""C05 -- Distinct inputs never collide on one output path; outputs stay in
builddir.

Decided (structural necessary clauses):
  PARREF-REGEX  the pattern that rewrites parent references in
                builtins.path.within_directory matches exactly the component
                `..` (so ordinary one/two-character names are kept distinct);
  RULE-OWNER    collisions end in ValueError (shared with C03);
  OUTPUT-ROOT   every implicitly named output path is rooted in builddir;
  WRITE-ROOT    every file-system mutation of configure/regenerate targets a
                builddir-derived path.
Not decided: injectivity of naming over all pairs of paths; explicit absolute
output names.
"""
import ast
import re._constants as sre_c

import re

from ..consteval import (FuncRef, RegexConst, UNKNOWN, const_eval,
                         repl_to_template)
from ..facts import Facts, direct, has, has_call, has_const, param_of
from ..index import AnalysisError, unparse, walk_no_nested
from .. import query as Q
from .. import rx
from ..rules import owner
from ..rules.roots import BUILD, SRC, RootEval


def _facts(ctx):
    f = getattr(ctx, '_facts', None)
    if f is None:
        f = ctx._facts = Facts(ctx.repo)
    return f


def _const_of(ctx, F, expr, fn):
    v = const_eval(ctx.repo, fn.module, expr)
    if v is UNKNOWN and isinstance(expr, ast.Name):
        v = const_eval(ctx.repo, fn.module, Q.inline(fn.node, expr))
    if isinstance(v, FuncRef):
        # a replacement function: its equivalent template
        v = repl_to_template(ctx.repo, v.func.module, v.func.node)
    elif isinstance(expr, ast.Lambda):
        v = repl_to_template(ctx.repo, fn.module, expr)
    elif v is UNKNOWN and isinstance(expr, ast.Name):
        for n in ast.walk(fn.node):
            if isinstance(n, ast.FunctionDef) and n.name == expr.id:
                v = repl_to_template(ctx.repo, fn.module, n)
    return v


def parref_regex(ctx):
    R = 'PARREF-REGEX'
    ctx.rule(R, 'the parent-reference rewrite in within_directory matches '
             'exactly the path component ".." and replaces it by a name that '
             'is not a parent reference (decided by evaluating the constant '
             'pattern and replacement on component samples)')
    repo = ctx.repo
    F = _facts(ctx)
    f = F.fn('bfg9000.builtins.path:within_directory')
    subs = []
    for e in F.effects(f, lambda e: e.name == 'sub', depth=1):
        c = e.call
        recv = c.func.value if isinstance(c.func, ast.Attribute) else None
        rc = _const_of(ctx, F, recv, e.fn) if recv is not None else UNKNOWN
        if isinstance(rc, RegexConst) and len(c.args) >= 2:
            subs.append((rc.pattern, _const_of(ctx, F, c.args[0], e.fn), e))
        elif len(c.args) >= 3:
            subs.append((_const_of(ctx, F, c.args[0], e.fn),
                         _const_of(ctx, F, c.args[1], e.fn), e))
    comp_cmp = [n for n in ast.walk(f.node) if isinstance(n, ast.Compare) and
                any(const_eval(repo, f.module, x) == '..'
                    for x in [n.left] + n.comparators)]
    if not subs:
        if comp_cmp:
            ctx.ob(R, 'within_directory|component-compare', True, f.node,
                   'parent references are found by comparing whole '
                   'components with ".."')
            return
        raise AnalysisError('within_directory: no re.sub and no component '
                            'comparison with ".." found')
    for pat, repl, e in subs:
        if hasattr(pat, 'pattern'):
            pat = pat.pattern
        if not isinstance(pat, str) or not isinstance(repl, str):
            raise AnalysisError('within_directory: non-constant pattern / '
                                'replacement')
        try:
            cre = re.compile(pat)

            def rw(x):
                return cre.sub(repl, x)
            keep = ['aa/bb', 'a/..b/c', 'a/b../c', '.../x', 'a/.b', 'a.b',
                    'xy', 'a/b..', '..a', '.', 'a/./b']
            kept = all(rw(x) == x for x in keep)
            changed = {x: rw(x) for x in ('..', '../x', 'x/..', 'a/../b',
                                          '../../x', 'a/../../b')}
        except re.error:
            kept, changed = False, {}
        ctx.ob(R, 'within_directory|re.sub|middle-language', kept, e.call,
               'pattern {!r} rewrites names that are not the component '
               '".." (an unescaped "." matches any character, so e.g. the '
               'directories "aa" and "bb" are both renamed)'.format(pat))
        ok = bool(changed) and all(
            '..' not in v.split('/') and len(v.split('/')) == len(
                k.split('/')) and all(p_ for p_ in v.split('/'))
            for k, v in changed.items()) and len(set(
                changed['a/../b'].split('/'))) == 3
        ctx.ob(R, 'within_directory|re.sub|anchored', ok, e.call,
               'pattern {!r} / replacement {!r} do not rewrite every ".." '
               'component (start, middle, end, repeated) into an ordinary '
               'name: {}'.format(pat, repl, changed))
        ok = isinstance(repl, str) and '..' not in repl
        ctx.ob(R, 'within_directory|re.sub|replacement', ok, e.call,
               'replacement {!r} does not substitute an ordinary name'
               .format(repl))
    aps = [e for e in F.effects(f, lambda e: e.name == 'append', depth=0)
           if param_of(e.recv(), 'directory')]
    ok = bool(aps) and has_call(F.returns(f), 'append')
    ctx.ob(R, 'within_directory|result-below-directory', ok, f.node,
           'result is not `directory.append(<rewritten suffix>)`')
    ok = bool(aps)
    for e in aps:
        a0 = e.call.args[0] if e.call.args else None
        vals = [a0]
        if isinstance(a0, ast.Name):
            vals = F.reaching_defs(e.fn, a0)
        def rewritten(v, fn_, d=0):
            """v is the result of the rewrite: a .sub call, or a helper
            every return of which is one."""
            if not isinstance(v, ast.Call):
                return False
            if Q.callee_attr(v) == 'sub':
                return True
            callee = F.flow.resolve_call(v, fn_) if d < 2 else None
            if callee is None:
                return False
            rets = [r.value for r in Q.returns(callee.node)]
            out = bool(rets)
            for r in rets:
                if isinstance(r, ast.Name):
                    ds = F.reaching_defs(callee, r)
                    out = out and bool(ds) and all(
                        rewritten(x, callee, d + 1) for x in ds)
                else:
                    out = out and rewritten(r, callee, d + 1)
            return out
        ok = ok and bool(vals) and all(rewritten(v, e.fn) for v in vals)
    ctx.ob(R, 'within_directory|every-suffix-is-rewritten', ok, f.node,
           'a path suffix can reach directory.append() without passing '
           'through the parent-reference rewrite (fast path)')


def output_root(ctx):
    R = 'OUTPUT-ROOT'
    ctx.rule(R, 'every Path constructed for an implicitly named output '
             '(tool output_file methods and their helpers, copy/compress '
             'pathfn, BuildStep outputs, stamp files, directory sentinels) '
             'has root builddir')
    repo = ctx.repo
    n_sites = 0
    # 1. every output_file method of every tool class, plus self.* helpers
    for ci in sorted(repo.classes.values(), key=lambda c: c.fq):
        if not ci.module.name.startswith('bfg9000.tools'):
            continue
        if 'output_file' not in ci.methods:
            continue
        todo = [ci.methods['output_file']]
        seen = set()
        while todo:
            fn = todo.pop()
            if fn in seen:
                continue
            seen.add(fn)
            finfo = fn._func
            ev = RootEval(repo, finfo)
            for c in Q.calls(fn):
                nm = Q.attr_name(c.func)
                if nm == 'Path' or nm == 'reroot':
                    roots = ev.root(c)
                    n_sites += 1
                    ctx.ob(R, '{}|{}'.format(finfo.fq, unparse(c)),
                           roots == {BUILD}, c,
                           'output path may have root {}'.format(
                               sorted(roots)))
                if (isinstance(c.func, ast.Attribute) and isinstance(
                        c.func.value, ast.Name) and
                        c.func.value.id == 'self'):
                    owner_, meth = ci.find_method(c.func.attr)
                    if meth is not None and owner_.module.name.startswith(
                            'bfg9000.tools') and meth.name not in (
                                '__init__',):
                        if any(Q.attr_name(x.func) in ('Path', 'reroot')
                               for x in Q.calls(meth)):
                            todo.append(meth)
    ctx.ob(R, 'output_file-path-constructions|found', n_sites >= 12, None,
           'only {} Path constructions in output_file methods found'.format(
               n_sites))

    # 2. pathfn of CopyFile / CompressFile
    for cls_fq in ('bfg9000.builtins.copy_file:CopyFile',
                   'bfg9000.builtins.copy_file:CompressFile'):
        conv = repo.method(cls_fq, 'convert_args')
        pathfns = [n for n in ast.walk(conv.node)
                   if isinstance(n, ast.FunctionDef) and n is not conv.node]
        Q.require(pathfns, cls_fq + '.convert_args: no nested path function')
        # `directory` comes from buildpath(context, directory, strict=True)
        for pf in pathfns:
            ev = RootEval(repo, pf._func)
            outer = RootEval(repo, conv)
            proots = {}
            for nm in ('directory',):
                vals = [v for v in Q.local_assignments(conv.node, nm)
                        if v is not None and not (
                            isinstance(v, ast.Call) and
                            Q.attr_name(v.func) == 'pop')]
                if vals:
                    rs = set()
                    for v in vals:
                        rs |= outer.root(v)
                    proots[nm] = rs
            ev.param_roots = proots
            for r in Q.returns(pf):
                roots = ev.root(r.value)
                ctx.ob(R, '{}|return {}'.format(pf._func.fq,
                                                unparse(r.value)),
                       roots == {BUILD}, r,
                       'copied/compressed output may have root {}'.format(
                           sorted(roots)))
        # the output is built by cloning the input with that function
        clones = [c for c in Q.calls(conv.node, nested=False)
                  if Q.callee_attr(c) == 'clone']
        ok = len(clones) == 1 and clones[0].args and isinstance(
            clones[0].args[0], ast.Name) and clones[0].args[0].id in [
                p.name for p in pathfns]
        ctx.ob(R, cls_fq + '|output=file.clone(pathfn)', ok, conv.node,
               'output is not derived through the builddir path function')

    # 3. BuildStep outputs
    f = repo.method('bfg9000.builtins.command:BuildStep', '_make_outputs')
    ev = RootEval(repo, f)
    pcs = [c for c in Q.calls(f.node) if Q.attr_name(c.func) == 'Path']
    Q.require(pcs, 'BuildStep._make_outputs: no Path construction')
    for c in pcs:
        roots = ev.root(c)
        ctx.ob(R, f.fq + '|' + unparse(c), roots == {BUILD}, c,
               'build_step output may have root {}'.format(sorted(roots)))

    # 4. object files placed below the intermediate directory
    f = repo.method('bfg9000.builtins.compile:BaseCompile', '__init__')
    wd = [c for c in Q.calls(f.node) if Q.attr_name(c.func) ==
          'within_directory']
    Q.require(wd, 'BaseCompile.__init__: within_directory not used')
    conv = repo.method('bfg9000.builtins.compile:BaseCompile', 'convert_args')
    bp = [c for c in Q.calls(conv.node) if any(
        isinstance(n, ast.Call) and Q.attr_name(n.func) == 'buildpath'
        for n in ast.walk(c))]
    strict_ok = False
    for c in ast.walk(conv.node):
        if isinstance(c, ast.Call) and Q.attr_name(c.func) == 'buildpath':
            s = Q.arg(c, 2, 'strict')
            strict_ok = s is not None and const_eval(
                repo, conv.module, s) is True
    ctx.ob(R, conv.fq + '|directory=buildpath(strict)', strict_ok, conv.node,
           'the `directory` argument of compile steps is not forced into '
           'builddir (buildpath(..., strict=True))')
    for c in wd:
        ev = RootEval(repo, f, {'directory': {BUILD}})
        roots = ev.root(c)
        ctx.ob(R, f.fq + '|' + unparse(c), roots == {BUILD}, c,
               'object file below directory may have root {}'.format(
                   sorted(roots)))
    # default branch: name is None -> default_name(...) is a suffix (str),
    # turned into a builddir path by output_file: checked in (1).

    # 5. stamp files and directory sentinels in the make backend
    for fq in ('bfg9000.backends.make.writer:directory_deps',):
        f = repo.func(fq)
        ev = RootEval(repo, f)
        for c in Q.calls(f.node):
            if Q.attr_name(c.func) == 'Path':
                roots = ev.root(c)
                ctx.ob(R, f.fq + '|' + unparse(c), roots == {BUILD}, c,
                       'root {}'.format(sorted(roots)))
    F = _facts(ctx)
    f = F.fn('bfg9000.backends.make.writer:multitarget_rule')
    st = [e for e in F.effects(f, lambda e: e.name == 'addext', depth=1)
          if any("'.stamp'" in a for a in e.all_args() | e.texts())]
    ok = bool(st) and all(has(e.recv(), 'targets[0]') or (
        param_of(e.recv(), 'targets') or has(e.recv(), 'targets'))
        for e in st)
    ctx.ob(R, f.fq + '|stamp derived from first target', ok, f.node,
           'stamp file is not `<first target>.addext(...)`')

    # 6. intermediate directory of link steps is a relative name below the
    # (builddir-rooted) output name
    f = F.fn('bfg9000.builtins.link:Link.convert_args')
    ds = [e for e in F.effects(f, lambda e: bool(e.kw_exprs('directory')),
                               depth=0)]
    ok = bool(ds) and all(has_call(e.arg(kw='directory'), '__name') and
                          param_of(e.arg(kw='directory'), 'name')
                          for e in ds)
    ctx.ob(R, f.fq + '|intdir derived from target name', ok, f.node,
           'intermediate directory is not derived from the target name')


def name_strip_once(ctx):
    R = 'NAME-STRIP-ONCE'
    ctx.rule(R, 'between a source path and the default output name the '
             'extension is stripped at most once (default_name + output_file '
             'of one tool class), so stems that contain dots stay distinct '
             '(calc.c vs calc.tab.c); output_file takes no decision on the '
             'content of the name')
    repo = ctx.repo
    n = 0
    for ci in sorted(repo.classes.values(), key=lambda c: c.fq):
        if not ci.module.name.startswith('bfg9000.tools'):
            continue
        if 'default_name' not in ci.methods or \
                'output_file' not in ci.methods:
            continue
        n += 1

        def strips(fn):
            return [c for c in Q.calls(fn) if Q.callee_attr(c) in (
                'stripext', 'splitext')]
        a = strips(ci.methods['default_name'])
        b = strips(ci.methods['output_file'])
        # a second strip applied to the pch *source* (not the name) is fine
        b = [c for c in b if 'name' in unparse(c)]
        ctx.ob(R, ci.fq, not (a and b), ci.methods['output_file'],
               '{}: default_name strips the extension and output_file '
               'strips again ({}): `x.tab.c` and `x.c` get the same output'
               .format(ci.name, unparse(b[0]) if b else ''))
    ctx.ob(R, 'tool-classes|found', n >= 4, None,
           'only {} tool classes with default_name+output_file'.format(n))
    # the output name is the same function of `name` for every name: a
    # decision taken on the *content* of the name (name.endswith('.o'),
    # '.' in name, ...) maps two different names to one output
    F = _facts(ctx)
    for ci in sorted(repo.classes.values(), key=lambda c: c.fq):
        if not ci.module.name.startswith('bfg9000.tools') or \
                'output_file' not in ci.methods:
            continue
        m = ci.methods['output_file']
        fn = m._func
        ps = Q.params(m)
        if len(ps) < 2 or ps[1] != 'name':
            continue
        bad = []
        for n_ in walk_no_nested(m):
            if isinstance(n_, (ast.If, ast.IfExp, ast.While)):
                t = n_.test
                skip = set()
                for c in ast.walk(t):
                    if isinstance(c, ast.Call) and isinstance(
                            c.func, ast.Name) and c.func.id in (
                                'len', 'isinstance'):
                        skip |= {id(x) for x in ast.walk(c)}
                for x in ast.walk(t):
                    if isinstance(x, ast.Name) and id(x) not in skip and \
                            param_of(F.atoms(x, fn), 'name'):
                        bad.append(unparse(t))
                        break
        ctx.ob(R, ci.fq + '|name-independent-decisions', not bad, m,
               '{}.output_file decides on the content of the name ({}): '
               'two different names can get the same output'.format(
                   ci.name, '; '.join(bad)[:120]))


# write-effect sites: (function fq, description, how the path is obtained)
def write_root(ctx):
    R = 'WRITE-ROOT'
    ctx.rule(R, 'every open-for-write / remove / utime / makedirs reachable '
             'from configure/regenerate targets a path derived from the '
             'build directory')
    repo = ctx.repo
    sites = []
    for m in repo.modules.values():
        if m.name in ('bfg9000.e1m1', 'bfg9000.rccdep', 'bfg9000.depfixer',
                      'bfg9000.jvmoutput'):
            continue   # build-time helper programs, not configure/regenerate
        if m.name.startswith('bfg9000.backends.msbuild'):
            continue   # MSBuild project paths: out of C05's scope (make/ninja)
        for c in ast.walk(m.tree):
            if not isinstance(c, ast.Call):
                continue
            t = unparse(c.func)
            if t == 'open':
                mode = Q.arg(c, 1, 'mode')
                mv = const_eval(repo, m, mode) if mode is not None else 'r'
                if mv is UNKNOWN:
                    mv = 'w?'   # e.g. a parameter; treat as possible write
                if isinstance(mv, str) and any(x in mv for x in 'wax+?'):
                    sites.append((m, c, 'open', c.args[0]))
            elif t in ('os.remove', 'os.unlink', 'os.utime', 'os.makedirs',
                       'os.mkdir', 'os.rename', 'os.replace', 'os.rmdir',
                       'os.symlink', 'os.link', 'os.chmod'):
                sites.append((m, c, t, c.args[0]))
    ctx.ob(R, 'mutation-sites|found', len(sites) >= 10, None,
           'only {} file-system mutation sites found'.format(len(sites)))
    ctx.stat('write_sites', len(sites))
    for m, c, kind, pathexpr in sites:
        fn = repo.enclosing_func(c)
        dead = _dead_flag(repo, fn, c)
        if dead:
            ctx.ob(R, '{}|{}|{}'.format(fn.fq, kind, unparse(pathexpr)),
                   True, c, 'unreachable: ' + dead)
            continue
        tr = _Tracer(repo, _facts(ctx))
        roots = tr.trace(pathexpr, fn, 0)
        definite_bad = {r for r in roots if not r.startswith('?') and
                        r != BUILD}
        ok = not definite_bad and BUILD in roots
        if not definite_bad and BUILD not in roots:
            raise AnalysisError(
                'WRITE-ROOT: cannot determine the root of {} at {} '
                '(saw {})'.format(unparse(pathexpr), repo.site(c),
                                  sorted(roots)))
        ctx.ob(R, '{}|{}|{}'.format(fn.fq if fn else m.name, kind,
                                    unparse(pathexpr)),
               ok, c, 'path may be rooted in {}'.format(
                   sorted(definite_bad)))


def _dead_flag(repo, fn, node):
    """Is `node` inside `if <flag>:` where <flag> is a parameter defaulting
    to False that no call site in the package ever passes?"""
    if fn is None:
        return None
    n = getattr(node, '_parent', None)
    while n is not None and n is not fn.node:
        if isinstance(n, ast.If) and isinstance(n.test, ast.Name) and \
                n.test.id in Q.params(fn.node):
            d = Q.param_default(fn.node, n.test.id)
            if isinstance(d, ast.Constant) and d.value is False:
                plist = Q.params(fn.node)
                idx = plist.index(n.test.id)
                passed = False
                for m, c, exact in Q.find_callers(repo, fn):
                    if Q.arg(c, idx, n.test.id) is not None:
                        passed = True
                if not passed:
                    return 'flag `{}` defaults to False and is never ' \
                        'passed by any caller'.format(n.test.id)
        n = getattr(n, '_parent', None)
    return None


class _Tracer:
    """Inter-procedural provenance of a path / path-string expression."""

    # parameters whose provenance is fixed by the repo's conventions, each
    # with the reason (confirmed by reading the single producer)
    KNOWN = {
        # `output` handed to post_output is what output_file returned, which
        # OUTPUT-ROOT proves builddir-rooted
        ('post_output', 'output'): {BUILD},
        ('pre_output', 'name'): {BUILD},
    }

    def __init__(self, repo, facts=None):
        self.repo = repo
        self.visited = set()
        self.facts = facts

    def _regen_output(self, e, fn):
        """The lazy-skip code of builtins.find touches the elements of
        `<RegenerateFiles>.outputs`: the backend build file (module
        constant, builddir) and the immediate files, whose creation site
        (make_immediate_file) is itself a WRITE-ROOT instance. Recognised
        by value flow (an element of an `.outputs` attribute), in whatever
        function/variable the loop lives."""
        if self.facts is None or fn is None or \
                fn.module.name != 'bfg9000.builtins.find':
            return False
        from ..facts import components
        a = {x for x in self.facts.atoms(e, fn)
             if not x.startswith(('via:', 'const:', 'key:', 'alloc:'))}
        return bool(a) and all('outputs' in components(x)[1:] for x in a)

    def trace(self, e, fn, depth):
        repo = self.repo
        if depth > 6:
            return {'?depth'}
        if isinstance(e, ast.Call):
            t = unparse(e.func)
            nm = Q.attr_name(e.func)
            if t in ('os.path.join', 'posixpath.join') and e.args:
                return self.trace(e.args[0], fn, depth)
            if nm == 'string' and isinstance(e.func, ast.Attribute):
                return self.trace(e.func.value, fn, depth)
            if nm == 'Path':
                r = Q.arg(e, 1, 'root')
                if r is None:
                    return {BUILD}
                ev = RootEval(repo, fn)
                return ev.root(e)
            if isinstance(e.func, ast.Attribute) and nm in (
                    'append', 'addext', 'stripext', 'parent', 'as_directory',
                    'reroot'):
                if nm == 'reroot' and not e.args and not e.keywords:
                    return {BUILD}
                return self.trace(e.func.value, fn, depth)
            if isinstance(e.func, ast.Attribute) and isinstance(
                    e.func.value, ast.Name) and e.func.value.id == 'self':
                # self._output_path(...) -> trace its returns
                ci = repo.enclosing_class(e)
                if ci is not None:
                    owner_, meth = ci.find_method(nm)
                    if meth is not None:
                        out = set()
                        for r in Q.returns(meth):
                            if r.value is not None:
                                out |= self.trace(r.value, meth._func,
                                                  depth + 1)
                        return out or {'?' + t}
            # constructor of a file type: File(path) -> path
            r = repo.resolve_expr(repo.module_of(e), e.func) if isinstance(
                e.func, (ast.Name, ast.Attribute)) else None
            if r and r[0] == 'class' and e.args:
                return self.trace(e.args[0], fn, depth)
            return {'?' + unparse(e)}
        if isinstance(e, ast.BoolOp):
            out = set()
            for v in e.values:
                out |= self.trace(v, fn, depth)
            return out
        if isinstance(e, ast.Attribute):
            t = unparse(e)
            if e.attr == 'builddir':
                return {BUILD}
            if e.attr == 'outputs' and repo.module_of(e).name == \
                    'bfg9000.builtins.find':
                # <RegenerateFiles>.outputs: see _regen_output
                return {BUILD}
            if e.attr == 'srcdir':
                return {SRC}
            if e.attr == 'path':
                return self.trace(e.value, fn, depth)
            if isinstance(e.value, ast.Name) and e.value.id in ('self',
                                                                'cls'):
                ci = repo.enclosing_class(e)
                if ci is not None:
                    owner_, val = ci.find_attr(e.attr)
                    if val is not None:
                        return self.trace(val, None, depth + 1) \
                            if not isinstance(val, ast.Constant) else \
                            {'?const'}
                    # instance attribute: union of assignments in the class
                    out = set()
                    for c2 in ci.mro():
                        for meth in c2.methods.values():
                            for n in ast.walk(meth):
                                if isinstance(n, ast.Assign):
                                    for tg in n.targets:
                                        if isinstance(tg, ast.Attribute) \
                                                and tg.attr == e.attr and \
                                                isinstance(tg.value,
                                                           ast.Name) and \
                                                tg.value.id == 'self':
                                            out |= self.trace(
                                                n.value, meth._func,
                                                depth + 1)
                    return out or {'?' + t}
            if e.attr in ('pch_source', 'manifest'):
                # step attributes assigned just before the call in the same
                # function
                if fn is not None:
                    out = set()
                    for n in walk_no_nested(fn.node):
                        if isinstance(n, ast.Assign):
                            for tg in n.targets:
                                if isinstance(tg, ast.Attribute) and \
                                        tg.attr == e.attr:
                                    out |= self.trace(n.value, fn, depth + 1)
                    if out:
                        return out
            return {'?' + t}
        if isinstance(e, ast.Name):
            if fn is None:
                return {'?' + e.id}
            key = (fn.node.name, e.id)
            if key in self.KNOWN:
                return set(self.KNOWN[key])
            if self._regen_output(e, fn):
                return {BUILD}
            # a plain loop variable: the elements share the root of the
            # iterable (`for i in paths: touch(i)`)
            loops = [n for n in walk_no_nested(fn.node) if isinstance(
                n, ast.For) and isinstance(n.target, ast.Name) and
                n.target.id == e.id]
            if loops and len(Q.local_assignments(fn.node, e.id)) == len(
                    loops):
                out = set()
                for lp in loops:
                    out |= self.trace(lp.iter, fn, depth + 1)
                return out
            vals = Q.local_assignments(fn.node, e.id)
            if vals:
                out = set()
                for v in vals:
                    out |= self.trace(v, fn, depth + 1) if v is not None \
                        else {'?' + e.id}
                return out
            if e.id in Q.params(fn.node):
                return self.trace_param(fn, e.id, depth)
            r = repo.resolve_symbol(fn.module.name, e.id)
            if r and r[0] == 'value' and r[3] is not None:
                return self.trace(r[3], None, depth + 1)
            return {'?' + e.id}
        return {'?' + unparse(e)}

    def trace_param(self, fn, pname, depth):
        repo = self.repo
        if (fn.fq, pname) in self.visited:
            return set()
        self.visited.add((fn.fq, pname))
        plist = Q.params(fn.node)
        is_method = fn.cls is not None and plist and plist[0] in ('self',
                                                                  'cls')
        idx = plist.index(pname) - (1 if is_method else 0)
        out = set()
        dflt = Q.param_default(fn.node, pname)
        callers = Q.find_callers(repo, fn)
        n = 0
        for m, c, exact in callers:
            a = Q.arg(c, idx, pname)
            caller_fn = repo.enclosing_func(c)
            if a is None:
                if dflt is not None and not (isinstance(
                        dflt, ast.Constant) and dflt.value is None):
                    out |= self.trace(dflt, fn, depth + 1)
                continue
            r = self.trace(a, caller_fn, depth + 1)
            if not exact:
                # name-based candidate: may be an unrelated method of the
                # same name; keep definite facts only
                r = {x for x in r if not x.startswith('?')}
            out |= r
            n += 1
        if not n and not out:
            return {'?param ' + pname}
        return out


def check(ctx):
    ctx.not_decided += [
        'injectivity of output naming over all pairs of source paths beyond '
        'the parent-reference rewrite',
        'explicit absolute output names given by the script']
    parref_regex(ctx)
    owner.check(ctx)
    output_root(ctx)
    name_strip_once(ctx)
    write_root(ctx)
    from ..rules import pathops
    pathops.check(ctx)
