"""C11 -- find_files returns exactly the files the documented glob semantics
select.

Decided (thin): CACHE-REPLAY (the clause "every file found plus extra/not_now
ones is part of the distribution", on the cached path too) and RESULT-LATTICE
(order of the three/four-valued results, pruning only on the strongest, the
include/not_now split). Not decided: the matching semantics themselves
(soundness of `never`, `**` wiggle room, multiple bases) over all trees and
patterns -- most of the property.
"""
from ..rules import regen


def check(ctx):
    ctx.not_decided += [
        'the glob matching semantics (*, ?, [..], **, trailing slash) over '
        'all trees and patterns', 'soundness of pruning (`never`) and of '
        'result caching over all trees', 'that every returned entry exists']
    regen.cache_replay(ctx)
    regen.result_lattice(ctx)
    from ..rules import pathops
    pathops.check(ctx)
