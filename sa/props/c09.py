"""C09 -- Saved configuration is the only input of later regenerations.

Decided: ENV-FIELDS, UPGRADE-CHAIN, MUTATORS, AMBIENT, NULLABLE-ROUNDTRIP,
LOAD-ONLY, CTOR-BYPASS (from_json via __new__ assigns the same attributes as
__init__).
Not decided: equality of objects before save / after load over all values.
"""
import ast

from ..consteval import UNKNOWN, const_eval
from ..index import AnalysisError, unparse, walk_no_nested
from .. import query as Q

ENV = 'bfg9000.environment:'
DICT_MUTATORS = ['__setitem__', '__delitem__', 'clear', 'pop', 'popitem',
                 'setdefault', 'update', '__ior__']


def _self_attrs_assigned(fn, recv='self'):
    out = set()
    for n in ast.walk(fn):
        if isinstance(n, (ast.Assign, ast.AugAssign, ast.AnnAssign)):
            tgts = n.targets if isinstance(n, ast.Assign) else [n.target]
            for t in tgts:
                for s in ast.walk(t):
                    if isinstance(s, ast.Attribute) and isinstance(
                            s.value, ast.Name) and s.value.id == recv and \
                            isinstance(s.ctx, ast.Store):
                        out.add(s.attr)
                    elif isinstance(s, ast.Subscript) and isinstance(
                            s.value, ast.Attribute) and isinstance(
                                s.value.value, ast.Name) and \
                            s.value.value.id == recv:
                        out.add(s.value.attr)
        elif isinstance(n, ast.Call) and unparse(n.func) == 'setattr' and \
                len(n.args) == 3 and isinstance(n.args[0], ast.Name) and \
                n.args[0].id == recv:
            # setattr(env, i, ...) inside `for i in (consts)`
            lp = n
            while lp is not None and not isinstance(lp, ast.For):
                lp = getattr(lp, '_parent', None)
            if lp is not None and isinstance(lp.iter, (ast.Tuple, ast.List)):
                for e in lp.iter.elts:
                    if isinstance(e, ast.Constant):
                        out.add(e.value)
    return out


def _data_keys_read(fn, after_line=0, var='data'):
    """Constant keys k used as data[k] (Load) after a given line, expanding
    `for i in (consts): ... data[i]`."""
    out = set()
    for n in ast.walk(fn):
        if isinstance(n, ast.Subscript) and isinstance(
                n.value, ast.Name) and n.value.id == var and \
                isinstance(n.ctx, ast.Load) and n.lineno > after_line:
            k = n.slice
            if isinstance(k, ast.Constant):
                out.add(k.value)
            elif isinstance(k, ast.Name):
                lp = n
                while lp is not None and not (isinstance(
                        lp, ast.For) and unparse(lp.target) == k.id):
                    lp = getattr(lp, '_parent', None)
                if lp is not None and isinstance(lp.iter,
                                                 (ast.Tuple, ast.List)):
                    for e in lp.iter.elts:
                        if isinstance(e, ast.Constant):
                            out.add(e.value)
    return out


def env_fields(ctx):
    R = 'ENV-FIELDS'
    ctx.rule(R, 'the keys written by Environment.save = the keys read by '
             'Environment.load after the upgrade chain = the attributes '
             'assigned by __init__ and finalize; same for Toolchain, '
             'EnvVarDict, RegenerateFiles, FindCacheFile, BasePath')
    repo = ctx.repo
    save = repo.method(ENV + 'Environment', 'save')
    load = repo.method(ENV + 'Environment', 'load')
    init = repo.method(ENV + 'Environment', '__init__')
    fin = repo.method(ENV + 'Environment', 'finalize')
    # save keys: the dict under 'data'
    data_dict = None
    for n in ast.walk(save.node):
        if isinstance(n, ast.Dict):
            for k, v in zip(n.keys, n.values):
                if isinstance(k, ast.Constant) and k.value == 'data' and \
                        isinstance(v, ast.Dict):
                    data_dict = v
    Q.require(data_dict is not None, 'Environment.save: data dict not found')
    saved = {k.value: v for k, v in zip(data_dict.keys, data_dict.values)
             if isinstance(k, ast.Constant)}
    # load: keys read after the last upgrade step
    ups = [n for n in walk_no_nested(load.node) if isinstance(n, ast.If) and
           unparse(n.test).startswith('version < ')]
    Q.require(ups, 'Environment.load: upgrade chain not found')
    last_line = max(getattr(n, 'end_lineno', n.lineno) for n in ups)
    loaded = _data_keys_read(load.node, last_line)
    attrs = (_self_attrs_assigned(init.node) |
             _self_attrs_assigned(fin.node)) - set()
    attrs = {a for a in attrs if not a.startswith('_')}
    restored = _self_attrs_assigned(load.node, 'env')
    ctx.require_min(R, len(saved), 8, 'saved Environment fields')
    ctx.stat('environment_fields', sorted(saved))
    for k in sorted(set(saved) | loaded | attrs | restored):
        ctx.ob(R, 'Environment|' + k,
               k in saved and k in loaded and k in attrs and k in restored,
               save.node,
               'field {!r}: saved={} loaded={} constructed={} restored={} '
               '-- a configuration choice is lost or invented across '
               'save/load'.format(k, k in saved, k in loaded, k in attrs,
                                  k in restored))
    # each saved value derives from the attribute of the same name
    for k, v in sorted(saved.items()):
        ctx.ob(R, 'Environment.save|{}<-self.{}'.format(k, k),
               'self.' + k in unparse(v), v,
               'saved field {!r} is not computed from self.{}'.format(k, k))
    # version written / checked
    top = [n for n in ast.walk(save.node) if isinstance(n, ast.Dict) and any(
        isinstance(k, ast.Constant) and k.value == 'version'
        for k in n.keys)]
    ok = bool(top) and any(
        isinstance(k, ast.Constant) and k.value == 'version' and
        unparse(v) == 'self.version'
        for k, v in zip(top[0].keys, top[0].values))
    ctx.ob(R, 'Environment.save|version', ok, save.node,
           'format version is not saved')
    ok = any(isinstance(n, ast.If) and unparse(n.test) ==
             'version > cls.version' and any(isinstance(s, ast.Raise)
                                             for s in n.body)
             for n in walk_no_nested(load.node))
    ctx.ob(R, 'Environment.load|future-version-rejected', ok, load.node,
           'a file written by a newer format version is not rejected')
    # same file name
    ok = 'self.envfile' in unparse(save.node) and 'cls.envfile' in unparse(
        load.node)
    ctx.ob(R, 'Environment|same-file', ok, save.node,
           'save and load use different file names')

    # Toolchain / EnvVarDict / RegenerateFiles: to_json keys == from_json
    for cls_fq, reader_var in (
            (ENV + 'Toolchain', 'data'), (ENV + 'EnvVarDict', 'data'),
            ('bfg9000.builtins.regenerate:RegenerateFiles', 'data'),
            ('bfg9000.builtins.find:FileFilter', 'data')):
        tj = repo.method(cls_fq, 'to_json')
        fj = repo.method(cls_fq, 'from_json')
        d = [r.value for r in Q.returns(tj.node)
             if isinstance(r.value, ast.Dict)]
        Q.require(len(d) == 1, cls_fq + '.to_json: dict return not found')
        wk = {k.value for k in d[0].keys if isinstance(k, ast.Constant)}
        rk = _data_keys_read(fj.node, 0, reader_var)
        ctx.ob(R, cls_fq.split(':')[1] + '|to_json-keys=from_json-keys',
               wk == rk, tj.node, 'written {} vs read {}'.format(
                   sorted(wk), sorted(rk)))
    # BasePath: 3 elements, indices 0..2
    tj = repo.method('bfg9000.platforms.basepath:BasePath', 'to_json')
    fj = repo.method('bfg9000.platforms.basepath:BasePath', 'from_json')
    r = [x.value for x in Q.returns(tj.node) if isinstance(
        x.value, (ast.List, ast.Tuple))]
    n_el = len(r[0].elts) if len(r) == 1 else -1
    idx = {n.slice.value for n in ast.walk(fj.node) if isinstance(
        n, ast.Subscript) and unparse(n.value) == 'data' and isinstance(
            n.slice, ast.Constant)}
    ctx.ob(R, 'BasePath|to_json-arity=from_json-indices',
           n_el == 3 and idx == {0, 1, 2}, tj.node,
           'to_json writes {} elements, from_json reads indices {}'.format(
               n_el, sorted(idx)))
    # FindCacheFile
    F = 'bfg9000.builtins.find:'
    sv = repo.method(F + 'FindCacheFile', 'save')
    ld = repo.method(F + 'FindCacheFile', 'load')
    wk = set()
    for n in ast.walk(sv.node):
        if isinstance(n, ast.Dict):
            for k, v in zip(n.keys, n.values):
                if isinstance(k, ast.Constant) and k.value == 'data' and \
                        isinstance(v, ast.Dict):
                    wk = {x.value for x in v.keys
                          if isinstance(x, ast.Constant)}
    rk = _data_keys_read(ld.node, 0, 'data')
    ctx.ob(R, 'FindCacheFile|save-keys=load-keys', wk == rk and bool(wk),
           sv.node, 'written {} vs read {}'.format(sorted(wk), sorted(rk)))


def upgrade_chain(ctx):
    R = 'UPGRADE-CHAIN'
    ctx.rule(R, 'the `if version < k` steps of Environment.load are in '
             'increasing order, contiguous, and end at Environment.version')
    repo = ctx.repo
    load = repo.method(ENV + 'Environment', 'load')
    ci = repo.cls(ENV + 'Environment')
    cur = const_eval(repo, ci.module, ci.attrs['version'])
    ks = []
    for st in load.node.body:
        if isinstance(st, ast.If) and isinstance(st.test, ast.Compare) and \
                unparse(st.test.left) == 'version' and isinstance(
                    st.test.ops[0], ast.Lt):
            k = const_eval(repo, ci.module, st.test.comparators[0])
            ks.append((k, st))
    Q.require(len(ks) >= 10, 'upgrade steps not found')
    vals = [k for k, _ in ks]
    ctx.ob(R, 'increasing', vals == sorted(vals), load.node,
           'upgrade steps are not applied in increasing order: {}'.format(
               vals))
    ctx.ob(R, 'contiguous', vals == list(range(vals[0], vals[0] + len(vals))),
           load.node, 'upgrade steps skip a version: {}'.format(vals))
    ctx.ob(R, 'ends-at-current', vals[-1] == cur, load.node,
           'last upgrade step is {} but Environment.version is {}'.format(
               vals[-1], cur))
    # every key read after the chain that is not in the oldest format must be
    # introduced by some step (data[k] = ... / data[k] store)
    stored = set()
    for k, st in ks:
        for n in ast.walk(st):
            if isinstance(n, ast.Subscript) and unparse(n.value) == 'data' \
                    and isinstance(n.ctx, ast.Store):
                if isinstance(n.slice, ast.Constant):
                    stored.add(n.slice.value)
                else:
                    stored.add('*loop*')
    for key in ('extra_args', 'library_mode', 'mopack', 'compdb', 'toolchain',
                'host_platform', 'target_platform', 'bfgdir',
                'backend_version'):
        ctx.ob(R, 'introduced|' + key, key in stored, load.node,
               'field {!r} (added after the first format) is not filled in '
               'by any upgrade step'.format(key))


def mutators(ctx):
    R = 'MUTATORS'
    ctx.rule(R, 'EnvVarDict overrides every mutating method of dict and each '
             'override records the change (writes self.changes[...] or '
             'delegates to an override that does)')
    repo = ctx.repo
    ci = repo.cls(ENV + 'EnvVarDict')
    records = {}
    for name in DICT_MUTATORS:
        fn = ci.methods.get(name)
        if fn is None:
            ctx.ob(R, 'EnvVarDict.' + name + '|overridden', False, ci.node,
                   'dict.{} is inherited unchanged: environ.{} bypasses '
                   'change tracking and the str type check'.format(
                       name, name))
            continue
        ctx.ob(R, 'EnvVarDict.' + name + '|overridden', True, fn, '')
        direct = any(isinstance(n, ast.Subscript) and unparse(n.value) in (
            'self.changes', 'self._changes') and isinstance(n.ctx, ast.Store)
            for n in ast.walk(fn))
        deleg = set()
        for n in ast.walk(fn):
            if isinstance(n, ast.Subscript) and unparse(n.value) == 'self' \
                    and isinstance(n.ctx, ast.Store):
                deleg.add('__setitem__')
            if isinstance(n, ast.Delete):
                for t in n.targets:
                    if isinstance(t, ast.Subscript) and unparse(
                            t.value) == 'self':
                        deleg.add('__delitem__')
            if isinstance(n, ast.Call) and isinstance(
                    n.func, ast.Attribute) and unparse(
                        n.func.value) == 'self' and \
                    n.func.attr in DICT_MUTATORS:
                deleg.add(n.func.attr)
        records[name] = (direct, deleg)
    changed = True
    good = {n for n, (d, _) in records.items() if d}
    while changed:
        changed = False
        for n, (d, dl) in records.items():
            if n not in good and dl & good:
                good.add(n)
                changed = True
    for n in records:
        ctx.ob(R, 'EnvVarDict.' + n + '|records-change', n in good,
               ci.methods[n], 'EnvVarDict.{} mutates the mapping without '
               'recording the change'.format(n))
    # __setitem__ type check
    fn = ci.methods.get('__setitem__')
    if fn is not None:
        ok = any(isinstance(n, ast.If) and 'isinstance(key, str)' in unparse(
            n.test) and 'isinstance(value, str)' in unparse(n.test) and any(
                isinstance(s, ast.Raise) for s in n.body)
            for n in ast.walk(fn))
        ctx.ob(R, 'EnvVarDict.__setitem__|str-check', ok, fn,
               'non-string keys/values are accepted')
    # reset restores the initial mapping
    fn = ci.methods.get('reset')
    Q.require(fn is not None, 'EnvVarDict.reset missing')
    t = unparse(fn)
    ok = 'super().clear()' in t and 'super().update(self.initial)' in t and \
        'self._changes = {}' in t
    ctx.ob(R, 'EnvVarDict.reset|restores-initial', ok, fn,
           'reset() does not restore exactly the initial variables')
    # ... on every path (a from_json'd dict has no _changes attribute yet)
    from ..cfg import EXIT, build as build_cfg
    g = build_cfg(fn)
    for want in ('super().clear()', 'super().update(self.initial)'):
        st = [g.stmt_of(c) for c in Q.calls(fn, nested=False)
              if unparse(c) == want]
        ctx.ob(R, 'EnvVarDict.reset|always|' + want,
               bool(st) and g.must_pass(st, EXIT), fn,
               'reset() can return without {}: variables loaded from the '
               'saved configuration keep the toolchain\'s modifications and '
               'the toolchain file is replayed on top of them'.format(want))
    fn = ci.methods.get('__init__')
    ok = 'self.initial = dict(self)' in unparse(fn)
    ctx.ob(R, 'EnvVarDict.__init__|initial-is-a-copy', ok, fn,
           '`initial` aliases the live mapping')


# --- AMBIENT -----------------------------------------------------------------
AMBIENT_ATTRS = {'os.environ', 'sys.argv'}
AMBIENT_CALLS = {'os.getenv', 'os.getcwd', 'os.getcwdb', 'platform.machine',
                 'platform.system', 'platform.python_version',
                 'platform.uname', 'platform.node', 'platform.platform',
                 'socket.gethostname', 'os.uname', 'os.getlogin',
                 'getpass.getuser', 'os.path.expanduser'}
OUT_OF_SCOPE_MODULES = ('bfg9000.e1m1', 'bfg9000.log', 'bfg9000.depfixer',
                        'bfg9000.rccdep', 'bfg9000.jvmoutput',
                        'bfg9000.setenv')
AMBIENT_ALLOW = {
    # function fq | what  -> reason
    'bfg9000.environment:Environment.__init__|os.environ':
        'THE capture: configure-time snapshot of the environment',
    'bfg9000.driver:environment_from_args|sys.argv':
        'configure-time only: location of the bfg9000 executables, saved as '
        'bfgdir',
    'bfg9000.driver:environment_from_args|default-env:version':
        'configure-time only: backend version probed once and saved',
    'bfg9000.driver:env|os.getenv':
        'display only (`bfg9000 env -u` compares with the ambient '
        'environment by definition)',
    'bfg9000.driver:main|os.environ':
        'shell completion default; display only',
    'bfg9000.driver:main|default-env:init': 'colour of log output only',
    'bfg9000.driver:simple_main|default-env:init':
        'colour of log output only',
    'bfg9000.path:pushd|os.getcwd': 'saved and restored around the block',
    'bfg9000.platforms.basepath:BasePath.abspath|os.getcwd':
        'resolution of command-line path arguments (C13 CLI-ABSPATH)',
    'bfg9000.platforms.basepath:BasePath.__normalize|os.path.expanduser':
        '~ expansion of paths written by the user in scripts/arguments',
    'bfg9000.platforms.core:platform_name|platform.system':
        'host identity; saved as host_platform at configure time',
    'bfg9000.platforms.core:platform_name|platform.machine':
        'host identity (ios vs macos)',
    'bfg9000.platforms.core:_platform_info|platform.machine':
        'host identity; the result is saved as host/target_platform and '
        'restored through platforms.*.from_json',
    'bfg9000.versioning:<module>|platform.python_version':
        'version of the running interpreter (bfg_required_version checks)',
    'bfg9000.environment:Environment.load|platform.machine':
        'upgrade of pre-v14 files that did not record the architecture',
    'bfg9000.environment:Environment.load|default-env:version':
        'upgrade of pre-v6 files that did not record the backend version',
    'bfg9000.backends:list_backends.sort_key|default-env:version':
        'only orders the list of backends offered as default at configure '
        'time',
    'bfg9000.backends.make.writer:executable|param-default':
        'definition of the default (callers are checked)',
    'bfg9000.backends.make.writer:version|param-default': 'definition',
    'bfg9000.backends.ninja.writer:executable|param-default': 'definition',
    'bfg9000.backends.ninja.writer:version|param-default': 'definition',
    'bfg9000.backends.msbuild.writer:executable|param-default': 'definition',
    'bfg9000.backends.msbuild.writer:version|param-default': 'definition',
    'bfg9000.shell:which|param-default': 'definition',
}


def _env_default_functions(repo):
    """Functions with a parameter whose default is os.environ: name -> list
    of (FuncInfo, param name, index)."""
    out = {}
    for fi in repo.functions.values():
        for p in Q.params(fi.node):
            d = Q.param_default(fi.node, p)
            if d is not None and unparse(d) == 'os.environ':
                plist = Q.params(fi.node)
                out.setdefault(fi.node.name, []).append(
                    (fi, p, plist.index(p)))
    return out


def ambient(ctx):
    R = 'AMBIENT'
    ctx.rule(R, 'every read of ambient process state (os.environ, os.getenv, '
             'os.getcwd, sys.argv, platform.*) and every call that relies on '
             'a parameter default bound to os.environ (shell.which, '
             'check_which, <backend>.executable/version) is either the '
             'configure-time capture, passes the saved variables explicitly, '
             'or is on the reasoned allow-list')
    repo = ctx.repo
    n = 0

    def where(node, m):
        fn = repo.enclosing_func(node)
        return (fn.fq if fn else m.name + ':<module>')

    for m in sorted(repo.modules.values(), key=lambda x: x.name):
        if m.name.startswith(OUT_OF_SCOPE_MODULES):
            continue
        for node in ast.walk(m.tree):
            what = None
            if isinstance(node, ast.Attribute) and unparse(node) in \
                    AMBIENT_ATTRS:
                what = unparse(node)
                # default of a parameter?
                p = getattr(node, '_parent', None)
                if isinstance(p, ast.arguments):
                    fnode = p._parent
                    key = '{}:{}|param-default'.format(
                        m.name, fnode._func.qualname)
                    n += 1
                    ctx.ob(R, key, key in AMBIENT_ALLOW, node,
                           'parameter default bound to os.environ')
                    continue
            elif isinstance(node, ast.Call) and unparse(node.func) in \
                    AMBIENT_CALLS:
                what = unparse(node.func)
            if what is None:
                continue
            n += 1
            key = '{}|{}'.format(where(node, m), what)
            if what == 'os.getcwd' and where(node, m).startswith(
                    'bfg9000.platforms.basepath:BasePath.'):
                # any helper of BasePath may ask for the cwd: used only to
                # absolutise command-line paths
                key = 'bfg9000.platforms.basepath:BasePath.abspath|os.getcwd'
            if key in AMBIENT_ALLOW:
                ctx.ob(R, key, True, node, 'allow-listed: ' +
                       AMBIENT_ALLOW[key])
            else:
                ctx.ob(R, key, False, node,
                       'ambient process state ({}) is read outside the '
                       'configure-time capture'.format(what))
    # calls relying on an os.environ default
    defaults = _env_default_functions(repo)
    ctx.stat('functions_with_environ_default', sorted(
        fi.fq for v in defaults.values() for fi, _, _ in v))
    wrappers = {'check_which': 1}     # forwards *args to shell.which: env=1
    for m in sorted(repo.modules.values(), key=lambda x: x.name):
        if m.name.startswith(OUT_OF_SCOPE_MODULES):
            continue
        for c in ast.walk(m.tree):
            if not isinstance(c, ast.Call):
                continue
            name = Q.attr_name(c.func)
            target = None
            if name in defaults:
                # resolve exactly when possible
                r = repo.resolve_expr(m, c.func) if isinstance(
                    c.func, (ast.Name, ast.Attribute)) else None
                if r and r[0] == 'func':
                    cand = [x for x in defaults[name] if x[0] is r[1]]
                    if not cand:
                        continue
                    target = cand[0]
                elif r is None and isinstance(c.func, ast.Attribute):
                    if isinstance(c.func.value, ast.Name) and \
                            c.func.value.id in ('self', 'cls'):
                        continue      # a method of the enclosing class
                    target = defaults[name][0]     # by name (widening)
                else:
                    continue
                fi, pname, idx = target
                passed = Q.arg(c, idx, pname) is not None or any(
                    isinstance(a, ast.Starred) for a in c.args) or any(
                        k.arg is None for k in c.keywords)
            elif name in wrappers and isinstance(c.func, ast.Name):
                idx = wrappers[name]
                passed = len(c.args) > idx or Q.kwarg(c, 'env') is not None
                pname = 'env'
            else:
                continue
            n += 1
            fn = repo.enclosing_func(c)
            key = '{}|default-env:{}'.format(where(c, m), name)
            if passed:
                a = Q.arg(c, idx, pname)
                at = unparse(a) if a is not None else '*args'
                ok = ('variables' in at or at in ('env', '*args') or
                      'environ' in at)
                ctx.ob(R, key + '|' + unparse(c)[:60], ok, c,
                       'environment argument {} is not derived from the '
                       'saved variables'.format(at))
            elif key in AMBIENT_ALLOW:
                ctx.ob(R, key, True, c, 'allow-listed: ' + AMBIENT_ALLOW[key])
            else:
                ctx.ob(R, key + '|' + unparse(c)[:60], False, c,
                       '{}(...) is called without an environment: it '
                       'searches the ambient PATH instead of the saved one'
                       .format(name))
    # the *target* platform defaults to the host: detecting it again later
    # (instead of restoring the saved one) ties a regeneration to the machine
    # it runs on
    TP = 'bfg9000.platforms.target:platform_info'
    tp_allow = {
        'bfg9000.environment:Environment.__init__':
            'the configure-time capture',
        'bfg9000.builtins.toolchain:target_platform':
            'explicit platform/arch given by the toolchain file',
        'bfg9000.driver:add_configure_args':
            'default install directories shown in --help (configure time)',
        'bfg9000.driver:main': 'e1m1 playback tempo',
    }
    if repo.has_func(TP):
        tf = repo.func(TP)
        for m_, c_, exact in Q.find_callers(repo, tf, by_name_ok=False):
            w = where(c_, m_)
            n += 1
            ctx.ob(R, w + '|target.platform_info', w in tp_allow, c_,
                   'the target platform is detected from the running machine '
                   'in {} instead of being restored from the saved '
                   'configuration'.format(w))
    ctx.require_min(R, n, 25, 'ambient-state sites')


def nullable_roundtrip(ctx):
    R = 'NULLABLE-ROUNDTRIP'
    ctx.rule(R, 'a saved attribute that can be None on the constructor side '
             'is saved with a None-preserving expression and loaded with one '
             'that can produce None; str(x)/T(x) applied unconditionally to '
             'a nullable is reported')
    repo = ctx.repo
    save = repo.method(ENV + 'Environment', 'save')
    load = repo.method(ENV + 'Environment', 'load')
    init = repo.method(ENV + 'Environment', '__init__')
    nullable = {}
    # parameters of __init__ fed by callers with may-return-None calls
    for m, c, exact in Q.find_callers(repo, init, by_name_ok=False):
        for kw in c.keywords:
            if kw.arg and _may_be_none(repo, m, kw.value):
                nullable[kw.arg] = unparse(kw.value)
    for n in ast.walk(init.node):
        if isinstance(n, ast.Assign) and isinstance(n.value, ast.Call) and \
                unparse(n.value.func).startswith('try_'):
            for t in n.targets:
                if isinstance(t, ast.Attribute):
                    nullable[t.attr] = unparse(n.value)
    ctx.stat('nullable_environment_fields', nullable)
    data_dict = None
    for n in ast.walk(save.node):
        if isinstance(n, ast.Dict):
            for k, v in zip(n.keys, n.values):
                if isinstance(k, ast.Constant) and k.value == 'data' and \
                        isinstance(v, ast.Dict):
                    data_dict = v
    saved = {k.value: v for k, v in zip(data_dict.keys, data_dict.values)
             if isinstance(k, ast.Constant)}
    for k, v in sorted(saved.items()):
        if k not in nullable:
            continue
        total_conv = isinstance(v, ast.Call) and isinstance(
            v.func, ast.Name) and v.func.id in ('str', 'repr', 'int',
                                               'bool', 'list')
        ctx.ob(R, 'Environment.save|' + k, not total_conv, v,
               '{} can be None ({}) but is saved as {}: None becomes the '
               'string \'None\''.format(k, nullable[k], unparse(v)))
        # load side
        asg = [n for n in ast.walk(load.node) if isinstance(n, ast.Assign)
               and unparse(n.targets[0]) == 'env.' + k]
        if asg:
            val = asg[0].value
            uncond = isinstance(val, ast.Call) and not unparse(
                val.func).startswith('try_') and not isinstance(
                    val, ast.IfExp)
            if isinstance(val, ast.Call) and isinstance(
                    val.func, ast.Attribute) and \
                    val.func.attr == 'as_directory':
                uncond = False    # crashes loudly on None; not silent
            ctx.ob(R, 'Environment.load|' + k,
                   not (uncond and total_conv or
                        (uncond and isinstance(val.func, ast.Name) and
                         val.func.id[:1].isupper())), val,
                   '{} can be None but load applies {} unconditionally: '
                   'None cannot be restored'.format(k, unparse(val)))


def _may_be_none(repo, m, e):
    if isinstance(e, ast.Constant) and e.value is None:
        return True
    if isinstance(e, ast.IfExp):
        return _may_be_none(repo, m, e.body) or _may_be_none(
            repo, m, e.orelse)
    if isinstance(e, ast.Call):
        name = Q.attr_name(e.func)
        r = repo.resolve_expr(m, e.func) if isinstance(
            e.func, (ast.Name, ast.Attribute)) else None
        cands = []
        if r and r[0] == 'func':
            cands = [r[1]]
        elif isinstance(e.func, ast.Attribute):
            cands = [f for f in repo.functions.values()
                     if f.node.name == name and f.cls is None and
                     f.module.name.startswith('bfg9000.backends')]
        for f in cands:
            for r_ in Q.returns(f.node):
                if r_.value is None or (isinstance(
                        r_.value, ast.Constant) and r_.value.value is None):
                    return True
    return False


def ctor_bypass(ctx):
    R = 'CTOR-BYPASS'
    ctx.rule(R, 'a from_json that bypasses __init__ through cls.__new__ '
             'assigns the same attribute set as __init__')
    repo = ctx.repo
    n = 0
    for ci in sorted(repo.classes.values(), key=lambda c: c.fq):
        fj = ci.methods.get('from_json')
        init = ci.methods.get('__init__')
        if fj is None or init is None:
            continue
        news = [c for c in Q.calls(fj) if unparse(c.func) == 'cls.__new__']
        if not news:
            continue
        var = None
        for a in ast.walk(fj):
            if isinstance(a, ast.Assign) and a.value in news:
                var = unparse(a.targets[0])
        if var is None:
            continue
        n += 1
        a1 = {a for a in _self_attrs_assigned(init)}
        a2 = _self_attrs_assigned(fj, var)
        # EnvVarDict: _changes is recomputed lazily by the `changes`
        # property when missing (hasattr test) -- checked here
        lazy = set()
        for pname, p in ci.methods.items():
            for t in ast.walk(p):
                if isinstance(t, ast.Call) and unparse(t.func) == 'hasattr' \
                        and len(t.args) == 2 and isinstance(
                            t.args[1], ast.Constant):
                    lazy.add(t.args[1].value)
        missing = a1 - a2 - lazy
        ctx.ob(R, ci.fq + '|from_json-assigns-all', not missing, fj,
               'from_json bypasses __init__ but does not set {}'.format(
                   sorted(missing)))
    ctx.require_min(R, n, 3, 'constructor-bypassing from_json methods')


def load_only(ctx):
    R = 'LOAD-ONLY'
    ctx.rule(R, 'regenerate/env/run obtain their Environment only from '
             'Environment.load; load_toolchain resets the variables before '
             'replaying the toolchain file when regenerating; the toolchain '
             'path comes from the saved environment; install_dirs is a no-op '
             'when regenerating; project arguments are re-parsed from the '
             'saved extra_args')
    repo = ctx.repo
    D = 'bfg9000.driver:'
    for fn in ('regenerate', 'env', 'run'):
        f = repo.func(D + fn)
        vals = [unparse(v) for v in Q.local_assignments(f.node, 'env')
                if v is not None]
        ok = vals == ['Environment.load(args.builddir.string())']
        ctx.ob(R, fn + '|env-from-load', ok, f.node,
               '{} builds its environment from {}'.format(fn, vals))
        bad = [c for c in Q.calls(f.node) if unparse(c.func) in (
            'Environment', 'environment_from_args', 'finalize_environment')]
        ctx.ob(R, fn + '|no-fresh-environment', not bad, f.node,
               '{} constructs/finalizes a fresh Environment'.format(fn))
    f = repo.func(D + 'regenerate')
    lt = [c for c in Q.calls(f.node) if unparse(c.func) ==
          'build.load_toolchain']
    ok = len(lt) == 1 and [unparse(a) for a in lt[0].args] == [
        'env', 'env.toolchain.path', 'args.regenerating']
    ctx.ob(R, 'regenerate|toolchain-from-saved-env', ok, f.node,
           'regenerate does not replay the saved toolchain file with the '
           'regenerating flag')
    cb = [c for c in Q.calls(f.node) if unparse(c.func) ==
          'build.configure_build']
    ok = len(cb) == 1 and unparse(cb[0].args[0]) == 'env'
    ctx.ob(R, 'regenerate|configure_build(env)', ok, f.node, '')
    ok = 'list_backends()[env.backend]' in unparse(f.node)
    ctx.ob(R, 'regenerate|backend-from-saved-env', ok, f.node,
           'backend is not taken from the saved environment')
    ok = 'env.compdb' in unparse(f.node)
    ctx.ob(R, 'regenerate|compdb-from-saved-env', ok, f.node,
           'compdb switch is not taken from the saved environment')
    # extra args on the regenerate command line are rejected
    ok = any(isinstance(n, ast.If) and unparse(n.test) == 'extra' and any(
        'subparser.error' in unparse(s) for s in n.body)
        for n in walk_no_nested(f.node))
    ctx.ob(R, 'regenerate|rejects-extra-args', ok, f.node,
           'command-line arguments of a later invocation are accepted')
    lt = repo.func('bfg9000.build:load_toolchain')
    branch = [n for n in walk_no_nested(lt.node) if isinstance(n, ast.If) and
              unparse(n.test) == 'regenerating']
    ok = len(branch) == 1 and any(unparse(s) == 'env.reload()'
                                  for s in branch[0].body) and any(
        unparse(s) == 'env.toolchain.path = path' for s in branch[0].orelse)
    ctx.ob(R, 'load_toolchain|reload-when-regenerating', ok, lt.node,
           'variables are not reset to their initial values before the '
           'toolchain file is replayed')
    if branch:
        ex = [c for c in Q.calls(lt.node) if unparse(c.func) ==
              'execute_file']
        ok = bool(ex) and ex[0].lineno > branch[0].lineno
        ctx.ob(R, 'load_toolchain|reload-before-execute', ok, lt.node,
               'toolchain file is executed before the reset')
    rl = repo.method(ENV + 'Environment', 'reload')
    ok = any(unparse(c) == 'self.variables.reset()' for c in Q.calls(rl.node))
    ctx.ob(R, 'Environment.reload|resets-variables', ok, rl.node, '')
    idf = repo.func('bfg9000.builtins.toolchain:install_dirs')
    first = idf.node.body[0]
    ok = isinstance(first, ast.If) and unparse(first.test) == \
        'context.regenerating' and isinstance(first.body[0], ast.Return)
    ctx.ob(R, 'toolchain.install_dirs|noop-when-regenerating', ok, idf.node,
           'install_dirs of the toolchain file overrides the saved (possibly '
           'command-line) install directories on regeneration')
    cb = repo.func('bfg9000.build:configure_build')
    ok = any(unparse(c) == 'parser.parse_args(env.extra_args)'
             for c in Q.calls(cb.node))
    ctx.ob(R, 'configure_build|parse_args(env.extra_args)', ok, cb.node,
           'project arguments are not re-parsed from the saved extra_args')
    conf = repo.func(D + 'configure')
    ok = any(unparse(c) == 'finalize_environment(env, args, extra)'
             for c in Q.calls(conf.node))
    fe = repo.func(D + 'finalize_environment')
    ok = ok and 'extra_args=extra_args' in unparse(fe.node)
    ctx.ob(R, 'configure|extra-args-saved', ok, conf.node,
           'project arguments given at configure time are not saved')
    # run uses saved variables
    f = repo.func(D + 'run')
    ok = any('env=variables' in unparse(c) for c in Q.calls(f.node)) and \
        'env.variables.initial if args.initial else env.variables' in \
        unparse(f.node)
    ctx.ob(R, 'run|saved-variables', ok, f.node,
           '`bfg9000 run` does not run the command with the saved variables')
    # execute() defaults to the saved variables
    ex = repo.method(ENV + 'Environment', 'execute')
    ok = any(isinstance(n, ast.If) and unparse(n.test) == 'env is None' and
             any(unparse(s) == 'env = self.variables' for s in n.body)
             for n in walk_no_nested(ex.node))
    ctx.ob(R, 'Environment.execute|default-env-is-saved', ok, ex.node,
           'tools are run with the ambient environment')


def check(ctx):
    ctx.not_decided += [
        'equality of the configuration objects before save / after load over '
        'all values (paths, variable names, option combinations)']
    env_fields(ctx)
    upgrade_chain(ctx)
    mutators(ctx)
    ambient(ctx)
    nullable_roundtrip(ctx)
    ctor_bypass(ctx)
    load_only(ctx)
