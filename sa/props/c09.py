"""C09 -- Saved configuration is the only input of later regenerations.

Decided: ENV-FIELDS, UPGRADE-CHAIN, MUTATORS, AMBIENT, NULLABLE-ROUNDTRIP,
LOAD-ONLY, CTOR-BYPASS (from_json via __new__ assigns the same attributes as
__init__). Writer/reader agreement is decided on *record shapes* computed by
the flow engine (the dict handed to json.dump, however it is built; the keys
the loader reads from the parsed file, through whatever local aliases), not
on the text of save()/load().
Not decided: equality of objects before save / after load over all values.
"""
import ast
import re

from ..consteval import UNKNOWN, const_eval
from ..facts import (Facts, direct, has, has_call, has_const, param_of,
                     paths)
from ..index import AnalysisError, unparse, walk_no_nested
from .. import query as Q

ENV = 'bfg9000.environment:'
DICT_MUTATORS = ['__setitem__', '__delitem__', 'clear', 'pop', 'popitem',
                 'setdefault', 'update', '__ior__']


def _regen_members(ctx):
    """Regenerating member -> truth value (its __bool__ is bool(value))."""
    ci = ctx.repo.cls('bfg9000.build_inputs:Regenerating')
    out = {}
    for st in ci.node.body:
        if isinstance(st, ast.Assign) and len(st.targets) == 1 and \
                isinstance(st.targets[0], ast.Name) and isinstance(
                    st.value, ast.Constant):
            out[st.targets[0].id] = bool(st.value.value)
    Q.require(len(out) >= 3, 'Regenerating members not found')
    return out


def _eval_regen(t, name, m, members):
    """Value of test `t` when parameter `name` is Regenerating.<m>; None if
    the test is not a function of that parameter alone."""
    def member(x):
        if isinstance(x, ast.Attribute) and x.attr in members and \
                unparse(x.value).endswith('Regenerating'):
            return x.attr
        return None

    def is_p(x):
        return (isinstance(x, ast.Name) and x.id == name) or (
            isinstance(x, ast.Attribute) and x.attr == name)
    if is_p(t):
        return members[m]
    if isinstance(t, ast.UnaryOp) and isinstance(t.op, ast.Not):
        v = _eval_regen(t.operand, name, m, members)
        return None if v is None else not v
    if isinstance(t, ast.BoolOp):
        vs = [_eval_regen(v, name, m, members) for v in t.values]
        if isinstance(t.op, ast.And):
            if any(v is False for v in vs):
                return False
            return None if any(v is None for v in vs) else True
        if any(v is True for v in vs):
            return True
        return None if any(v is None for v in vs) else False
    if isinstance(t, ast.Compare) and len(t.ops) == 1:
        l, r, op = t.left, t.comparators[0], t.ops[0]
        if is_p(r) and member(l):
            l, r = r, l
        if is_p(l):
            if isinstance(op, (ast.Is, ast.Eq)) and member(r):
                return member(r) == m
            if isinstance(op, (ast.IsNot, ast.NotEq)) and member(r):
                return member(r) != m
            if isinstance(op, (ast.In, ast.NotIn)) and isinstance(
                    r, (ast.Tuple, ast.List, ast.Set)) and all(
                        member(x) for x in r.elts):
                v = m in [member(x) for x in r.elts]
                return v if isinstance(op, ast.In) else not v
    return None


def _reached(F, node, fn, name, m, members):
    """Can `node` execute when parameter `name` is Regenerating.<m>?
    (guards that are not functions of the parameter count as possible)"""
    for t, pos in F.guards_pol(node, fn):
        v = _eval_regen(t, name, m, members)
        if v is not None and v != pos:
            return False
    return True


def _facts(ctx):
    f = getattr(ctx, '_facts', None)
    if f is None:
        f = ctx._facts = Facts(ctx.repo)
    return f


def _attrs_stored(F, fn, on):
    """Attribute names stored (assignment / setattr) on the object selected
    by `on(target atom)` -> {attr: value atoms}."""
    out = {}
    for g, b in F.frames(fn, 1):
        if g.cls is not fn.cls:
            continue
        for t, v, n in F.stores(g, b):
            for a in t:
                if a.startswith(('via:', 'const:', 'key:', 'alloc:')):
                    continue
                m = re.match(r'^(.*)\.([A-Za-z_][A-Za-z_0-9]*)(\[.*\])?$',
                             a)
                if m and on(m.group(1)):
                    out.setdefault(m.group(2), set()).update(v)
    return out


def _dumped_record(F, fn):
    """Record handed to json.dump in fn (or helpers): {key: ...}."""
    for e in F.effects(fn, lambda e: e.name == 'dump', depth=1):
        rec = F.flow.record(e.call.args[0], e.fn, e.bind) if e.call.args \
            else None
        if rec is not None:
            return rec
    return None


def _keys_read(F, fn, under):
    """Constant keys k read as X[k] where X's access paths satisfy
    under(atoms of X)."""
    out = set()
    for g, b in F.frames(fn, 1):
        if g.module is not fn.module:
            continue
        for n in ast.walk(g.node):
            if isinstance(n, ast.Subscript) and isinstance(n.ctx, ast.Load):
                ks = F.flow.const_keys(n.slice, g, b)
                if ks is None:
                    continue
                if under(F.atoms(n.value, g, b)):
                    out |= {k for k in ks if isinstance(k, (str, int))}
    return out


def env_fields(ctx):
    R = 'ENV-FIELDS'
    ctx.rule(R, 'the keys of the record Environment.save dumps = the keys '
             'Environment.load restores into attributes of the same name = '
             'the attributes assigned by __init__ and finalize; each saved '
             'value derives from the attribute of its name; same writer/'
             'reader agreement for Toolchain, EnvVarDict, RegenerateFiles, '
             'FileFilter, FindCacheFile, BasePath')
    repo = ctx.repo
    F = _facts(ctx)
    fl = F.flow
    save = F.fn(ENV + 'Environment.save')
    load = F.fn(ENV + 'Environment.load')
    init = F.fn(ENV + 'Environment.__init__')
    fin = F.fn(ENV + 'Environment.finalize')
    top = _dumped_record(F, save)
    Q.require(top is not None, 'Environment.save: dumped record not found')
    saved = fl.subrecord(top, 'data')
    Q.require(saved is not None, 'Environment.save: data record not found')
    saved.pop('*', None)
    restored = {k: v for k, v in _attrs_stored(
        F, load, lambda base: '__new__(' in base).items()
        if not k.startswith('_')}
    keys_of = {}
    for attr, v in restored.items():
        keys_of[attr] = set(re.findall(
            r"\['data'\]\['([A-Za-z_0-9]+)'\]", ' '.join(v)))
    attrs = set(_attrs_stored(F, init, lambda b: b == 'self')) | set(
        _attrs_stored(F, fin, lambda b: b == 'self'))
    attrs = {a for a in attrs if not a.startswith('_')}
    ctx.ob(R, 'Environment|enough-fields', len(saved) >= 8, save.node,
           'only {} saved fields were recognised'.format(len(saved)))
    ctx.stat('environment_fields', sorted(saved))
    for k in sorted(set(saved) | set(restored) | attrs):
        ctx.ob(R, 'Environment|' + k,
               k in saved and k in restored and k in keys_of.get(k, ()) and
               k in attrs, save.node,
               'field {!r}: saved={} restored={} (from keys {}) '
               'constructed={} -- a configuration choice is lost or '
               'invented across save/load'.format(
                   k, k in saved, k in restored,
                   sorted(keys_of.get(k, ())), k in attrs))
    for k in sorted(saved):
        ctx.ob(R, 'Environment.save|{}<-self.{}'.format(k, k),
               has(fl.rec_atoms(saved, k), 'self', k), save.node,
               'saved field {!r} is not computed from self.{}'.format(k, k))
    ctx.ob(R, 'Environment.save|version',
           has(fl.rec_atoms(top, 'version'), 'self', 'version'), save.node,
           'format version is not saved')
    ok = False
    for n in walk_no_nested(load.node):
        if isinstance(n, ast.Raise):
            for op, l, r in F.guard_compares(n, load):
                if op == 'Gt' and has(l, "['version']") and has(
                        r, 'version') or op == 'Lt' and has(
                            r, "['version']") and has(l, 'version'):
                    ok = True
    ctx.ob(R, 'Environment.load|future-version-rejected', ok, load.node,
           'a file written by a newer format version is not rejected')
    ok = any(has(e.all_args(), 'envfile') for e in F.effects(
        save, lambda e: e.name == 'open', depth=1)) and any(
        has(e.all_args(), 'envfile') for e in F.effects(
            load, lambda e: e.name == 'open', depth=1))
    ctx.ob(R, 'Environment|same-file', ok, save.node,
           'save and load use different file names')

    # Toolchain / EnvVarDict / RegenerateFiles / FileFilter
    for cls_fq in (ENV + 'Toolchain', ENV + 'EnvVarDict',
                   'bfg9000.builtins.regenerate:RegenerateFiles',
                   'bfg9000.builtins.find:FileFilter'):
        tj = F.fn(cls_fq + '.to_json')
        fj = F.fn(cls_fq + '.from_json')
        wk = set()
        found = False
        for r in fl._returns(tj):
            rec = fl.record(r, tj)
            if rec is not None:
                found = True
                wk |= {k for k in rec if k != '*'}
        Q.require(found, cls_fq + '.to_json: returned record not found')
        rk = _keys_read(F, fj, lambda a: param_of(direct(a), 'data'))
        ctx.ob(R, cls_fq.split(':')[1] + '|to_json-keys=from_json-keys',
               wk == rk, tj.node, 'written {} vs read {}'.format(
                   sorted(wk), sorted(rk)))
    # BasePath: 3 elements, indices 0..2
    tj = F.fn('bfg9000.platforms.basepath:BasePath.to_json')
    fj = F.fn('bfg9000.platforms.basepath:BasePath.from_json')
    lens = set()
    for r in fl._returns(tj):
        q = fl.sequence(r, tj)
        lens.add(len(q) if q is not None else -1)
    idx = {k for k in _keys_read(F, fj, lambda a: param_of(direct(a),
                                                           'data'))
           if isinstance(k, int)}
    ctx.ob(R, 'BasePath|to_json-arity=from_json-indices',
           lens == {3} and idx == {0, 1, 2}, tj.node,
           'to_json writes {} elements, from_json reads indices {}'.format(
               sorted(lens), sorted(idx)))
    # FindCacheFile
    FD = 'bfg9000.builtins.find:'
    sv = F.fn(FD + 'FindCacheFile.save')
    ld = F.fn(FD + 'FindCacheFile.load')
    top = _dumped_record(F, sv)
    wk = set(fl.subrecord(top, 'data') or {}) - {'*'} if top else set()
    rk = {k for k in _keys_read(F, ld, lambda a: has(a, "['data']"))
          if isinstance(k, str)}
    ctx.ob(R, 'FindCacheFile|save-keys=load-keys', wk == rk and bool(wk),
           sv.node, 'written {} vs read {}'.format(sorted(wk), sorted(rk)))


def upgrade_chain(ctx):
    R = 'UPGRADE-CHAIN'
    ctx.rule(R, 'the `version < k` upgrade steps of Environment.load are in '
             'increasing order, contiguous, and end at Environment.version; '
             'fields added after the first format are filled in by a step')
    repo = ctx.repo
    F = _facts(ctx)
    load = F.fn(ENV + 'Environment.load')
    ci = repo.cls(ENV + 'Environment')
    cur = const_eval(repo, ci.module, ci.attrs['version'])
    ks = []
    for g, b in F.frames(load, 1):
        for st in walk_no_nested(g.node):
            if isinstance(st, ast.If) and isinstance(
                    st.test, ast.Compare) and len(
                        st.test.ops) == 1 and isinstance(
                    st.test.ops[0], ast.Lt) and has(
                        F.atoms(st.test.left, g, b), "['version']"):
                k = const_eval(repo, g.module, st.test.comparators[0])
                if isinstance(k, int):
                    ks.append((k, st, g, b))
    Q.require(len(ks) >= 10, 'upgrade steps not found')
    Q.require(len({g.fq for _, _, g, _ in ks}) == 1,
              'upgrade steps spread over several functions')
    # execution order = pre-order position in the function body (statements
    # generated from one table-driven loop share a line number)
    order = {}

    def number(n):
        order[id(n)] = len(order)
        for c in ast.iter_child_nodes(n):
            number(c)
    number(ks[0][2].node)
    ks.sort(key=lambda x: order.get(id(x[1]), 0))
    vals = [k for k, _, _, _ in ks]
    ctx.ob(R, 'increasing', vals == sorted(vals), load.node,
           'upgrade steps are not applied in increasing order: {}'.format(
               vals))
    ctx.ob(R, 'contiguous', vals == list(range(vals[0], vals[0] + len(vals))),
           load.node, 'upgrade steps skip a version: {}'.format(vals))
    ctx.ob(R, 'ends-at-current', vals[-1] == cur, load.node,
           'last upgrade step is {} but Environment.version is {}'.format(
               vals[-1], cur))
    stored = set()
    for k, st, g, b in ks:
        scopes = [(st, g, b)]
        # a step may be a function applied to the data (`upgrade(data)`)
        for c in ast.walk(st):
            if isinstance(c, ast.Call):
                callee = F.flow.resolve_call(c, g)
                if callee is not None and callee.module is g.module:
                    scopes.append((callee.node, callee, F.flow._bind_args(
                        c, callee, g, b, 0, set())))
        for root, g_, b_ in scopes:
            for n in ast.walk(root):
                if isinstance(n, ast.Subscript) and isinstance(
                        n.ctx, ast.Store) and has(
                            F.atoms(n.value, g_, b_), "['data']"):
                    kk = F.flow.const_keys(n.slice, g_, b_)
                    stored |= set(kk or ['*loop*'])
    for key in ('extra_args', 'library_mode', 'mopack', 'compdb', 'toolchain',
                'host_platform', 'target_platform', 'bfgdir',
                'backend_version'):
        ctx.ob(R, 'introduced|' + key, key in stored, load.node,
               'field {!r} (added after the first format) is not filled in '
               'by any upgrade step'.format(key))


def mutators(ctx):
    R = 'MUTATORS'
    ctx.rule(R, 'EnvVarDict overrides every mutating method of dict and each '
             'override records the change (writes self.changes[...] or '
             'delegates to an override that does); reset() always restores '
             'the initial mapping')
    repo = ctx.repo
    F = _facts(ctx)
    ci = repo.cls(ENV + 'EnvVarDict')
    records = {}
    for name in DICT_MUTATORS:
        fn = ci.methods.get(name)
        if fn is None:
            ctx.ob(R, 'EnvVarDict.' + name + '|overridden', False, ci.node,
                   'dict.{} is inherited unchanged: environ.{} bypasses '
                   'change tracking and the str type check'.format(
                       name, name))
            continue
        ctx.ob(R, 'EnvVarDict.' + name + '|overridden', True, fn, '')
        fi = fn._func
        # in the method itself or in a helper method of the class it calls
        direct_ = any(has(t, 'self', '_changes') or has(t, 'self', 'changes')
                      for g, b in F.frames(fi, 1)
                      if g.cls is ci and g.node.name not in DICT_MUTATORS
                      or g is fi
                      for t, v, n in F.stores(g, b)) or any(
            has(e.recv(), 'self', 'changes') or has(e.recv(), 'self',
                                                    '_changes')
            for e in F.effects(fi, lambda e: e.name in (
                'update', 'setdefault', '__setitem__') and
                e.fn.cls is ci, depth=1))
        deleg = set()
        for g in F.reach(fi, 1):
            if g.cls is not ci and g is not fi:
                continue
            for n in ast.walk(g.node):
                if isinstance(n, ast.Subscript) and isinstance(
                        n.value, ast.Name) and n.value.id == 'self' and \
                        isinstance(n.ctx, ast.Store):
                    deleg.add('__setitem__')
                if isinstance(n, ast.Subscript) and isinstance(
                        n.value, ast.Name) and n.value.id == 'self' and \
                        isinstance(n.ctx, ast.Del):
                    deleg.add('__delitem__')
                if isinstance(n, ast.Call) and isinstance(
                        n.func, ast.Attribute) and isinstance(
                            n.func.value, ast.Name) and \
                        n.func.value.id == 'self' and \
                        n.func.attr in DICT_MUTATORS:
                    deleg.add(n.func.attr)
        deleg.discard(name)
        records[name] = (direct_, deleg)
    changed = True
    good = {n for n, (d, _) in records.items() if d}
    while changed:
        changed = False
        for n, (d, dl) in records.items():
            if n not in good and dl & good:
                good.add(n)
                changed = True
    for n in records:
        ctx.ob(R, 'EnvVarDict.' + n + '|records-change', n in good,
               ci.methods[n], 'EnvVarDict.{} mutates the mapping without '
               'recording the change'.format(n))
    fn = ci.methods.get('__setitem__')
    if fn is not None:
        fi = fn._func
        ok = False
        for n in walk_no_nested(fn):
            if isinstance(n, ast.Raise):
                c = F.control(n, fi)
                if param_of(c, Q.params(fn)[1]) and param_of(
                        c, Q.params(fn)[2]) and has_call(c, 'isinstance'):
                    ok = True
        ctx.ob(R, 'EnvVarDict.__setitem__|str-check', ok, fn,
               'non-string keys/values are accepted')
        recs = []
        for g, b, path in F.frames_p(fi, 1):
            if g.cls is not ci or (g is not fi and
                                   g.node.name in DICT_MUTATORS):
                continue
            for t, v, n in F.stores(g, b):
                if has(t, 'self', 'changes') or has(t, 'self', '_changes'):
                    recs.append(path + ((g, n),))
        ok = bool(recs) and all(
            all(has_call(F.atoms(t, f_), 'isinstance')
                for f_, n_ in pth for t in F.guards(n_, f_))
            for pth in recs)
        ctx.ob(R, 'EnvVarDict.__setitem__|records-every-assignment', ok, fn,
               'an assignment is recorded in `changes` only under a '
               'condition: the variables a toolchain file or script sets '
               'are not all forwarded/saved')
    fn = ci.methods.get('reset')
    Q.require(fn is not None, 'EnvVarDict.reset missing')
    fi = fn._func

    def sup(name, argpat=None):
        def pred(e):
            return e.name == name and any('super()' in h
                                          for h in e.heads()) and (
                argpat is None or has(e.all_args(), *argpat))
        return pred
    cleared = F.effects(fi, sup('clear'), depth=1)
    updated = F.effects(fi, sup('update', ('self', 'initial')), depth=1)
    ch = any(has(t, 'self', '_changes') and any(
        a.startswith('alloc:') for a in v) for t, v, n in F.stores(fi))
    ctx.ob(R, 'EnvVarDict.reset|restores-initial',
           bool(cleared) and bool(updated) and ch, fn,
           'reset() does not restore exactly the initial variables')
    for want, pred in (('super().clear()', sup('clear')),
                       ('super().update(self.initial)',
                        sup('update', ('self', 'initial')))):
        ctx.ob(R, 'EnvVarDict.reset|always|' + want, F.must(fi, pred), fn,
               'reset() can return without {}: variables loaded from the '
               'saved configuration keep the toolchain\'s modifications and '
               'the toolchain file is replayed on top of them'.format(want))
    fn = ci.methods.get('__init__')
    ok = any(has(t, 'self', 'initial') and isinstance(n, ast.Assign) and
             isinstance(n.value, ast.Call) for t, v, n in F.stores(fn._func))
    ctx.ob(R, 'EnvVarDict.__init__|initial-is-a-copy', ok, fn,
           '`initial` aliases the live mapping')


# --- AMBIENT -----------------------------------------------------------------
AMBIENT_ATTRS = {'os.environ', 'sys.argv'}
AMBIENT_CALLS = {'os.getenv', 'os.getcwd', 'os.getcwdb', 'platform.machine',
                 'platform.system', 'platform.python_version',
                 'platform.uname', 'platform.node', 'platform.platform',
                 'socket.gethostname', 'os.uname', 'os.getlogin',
                 'getpass.getuser', 'os.path.expanduser'}
OUT_OF_SCOPE_MODULES = ('bfg9000.e1m1', 'bfg9000.log', 'bfg9000.depfixer',
                        'bfg9000.rccdep', 'bfg9000.jvmoutput',
                        'bfg9000.setenv')
AMBIENT_ALLOW = {
    # function fq | what  -> reason
    'bfg9000.environment:Environment.__init__|os.environ':
        'THE capture: configure-time snapshot of the environment',
    'bfg9000.driver:environment_from_args|sys.argv':
        'configure-time only: location of the bfg9000 executables, saved as '
        'bfgdir',
    'bfg9000.driver:environment_from_args|default-env:version':
        'configure-time only: backend version probed once and saved',
    'bfg9000.driver:env|os.getenv':
        'display only (`bfg9000 env -u` compares with the ambient '
        'environment by definition)',
    'bfg9000.driver:main|os.environ':
        'shell completion default; display only',
    'bfg9000.driver:main|default-env:init': 'colour of log output only',
    'bfg9000.driver:simple_main|default-env:init':
        'colour of log output only',
    'bfg9000.path:pushd|os.getcwd': 'saved and restored around the block',
    'bfg9000.platforms.basepath:BasePath.abspath|os.getcwd':
        'resolution of command-line path arguments (C13 CLI-ABSPATH)',
    'bfg9000.platforms.basepath:BasePath.__normalize|os.path.expanduser':
        '~ expansion of paths written by the user in scripts/arguments',
    'bfg9000.platforms.core:platform_name|platform.system':
        'host identity; saved as host_platform at configure time',
    'bfg9000.platforms.core:platform_name|platform.machine':
        'host identity (ios vs macos)',
    'bfg9000.platforms.core:_platform_info|platform.machine':
        'host identity; the result is saved as host/target_platform and '
        'restored through platforms.*.from_json',
    'bfg9000.versioning:<module>|platform.python_version':
        'version of the running interpreter (bfg_required_version checks)',
    'bfg9000.environment:Environment.load|platform.machine':
        'upgrade of pre-v14 files that did not record the architecture',
    'bfg9000.environment:Environment.load|default-env:version':
        'upgrade of pre-v6 files that did not record the backend version',
    'bfg9000.backends:list_backends.sort_key|default-env:version':
        'only orders the list of backends offered as default at configure '
        'time',
    'bfg9000.backends.make.writer:executable|param-default':
        'definition of the default (callers are checked)',
    'bfg9000.backends.make.writer:version|param-default': 'definition',
    'bfg9000.backends.ninja.writer:executable|param-default': 'definition',
    'bfg9000.backends.ninja.writer:version|param-default': 'definition',
    'bfg9000.backends.msbuild.writer:executable|param-default': 'definition',
    'bfg9000.backends.msbuild.writer:version|param-default': 'definition',
    'bfg9000.shell:which|param-default': 'definition',
}


def _env_default_functions(repo):
    """Functions with a parameter whose default is os.environ: name -> list
    of (FuncInfo, param name, index)."""
    out = {}
    for fi in repo.functions.values():
        for p in Q.params(fi.node):
            d = Q.param_default(fi.node, p)
            if d is not None and unparse(d) == 'os.environ':
                plist = Q.params(fi.node)
                out.setdefault(fi.node.name, []).append(
                    (fi, p, plist.index(p)))
    return out


def _allowed_via_callers(repo, fn, what, _depth=0):
    """A read inside a *private* helper is covered by the allow-list entry
    of its callers when every caller (transitively through private
    helpers) has one for the same kind of read. Returns the covering key."""
    if fn is None or _depth > 3:
        return None
    name = fn.node.name
    if not name.startswith('_') or name.startswith('__') and \
            name.endswith('__'):
        return None
    callers = Q.find_callers(repo, fn, by_name_ok=False)
    if not callers:
        return None
    first = None
    for m, c, exact in callers:
        cf = repo.enclosing_func(c)
        if cf is None:
            return None
        key = '{}|{}'.format(cf.fq, what)
        if key in AMBIENT_ALLOW:
            first = first or key
            continue
        sub = _allowed_via_callers(repo, cf, what, _depth + 1)
        if not sub:
            return None
        first = first or sub
    return first


def ambient(ctx):
    R = 'AMBIENT'
    ctx.rule(R, 'every read of ambient process state (os.environ, os.getenv, '
             'os.getcwd, sys.argv, platform.*) and every call that relies on '
             'a parameter default bound to os.environ (shell.which, '
             'check_which, <backend>.executable/version) is either the '
             'configure-time capture, passes the saved variables explicitly, '
             'or is on the reasoned allow-list')
    repo = ctx.repo
    n = 0

    def where(node, m):
        fn = repo.enclosing_func(node)
        return (fn.fq if fn else m.name + ':<module>')

    for m in sorted(repo.modules.values(), key=lambda x: x.name):
        if m.name.startswith(OUT_OF_SCOPE_MODULES):
            continue
        for node in ast.walk(m.tree):
            what = None
            if isinstance(node, ast.Attribute) and unparse(node) in \
                    AMBIENT_ATTRS:
                what = unparse(node)
                # default of a parameter?
                p = getattr(node, '_parent', None)
                if isinstance(p, ast.arguments):
                    fnode = p._parent
                    key = '{}:{}|param-default'.format(
                        m.name, fnode._func.qualname)
                    n += 1
                    ctx.ob(R, key, key in AMBIENT_ALLOW, node,
                           'parameter default bound to os.environ')
                    continue
            elif isinstance(node, ast.Call) and unparse(node.func) in \
                    AMBIENT_CALLS:
                what = unparse(node.func)
            if what is None:
                continue
            n += 1
            key = '{}|{}'.format(where(node, m), what)
            if what == 'os.getcwd' and where(node, m).startswith(
                    'bfg9000.platforms.basepath:BasePath.'):
                # any helper of BasePath may ask for the cwd: used only to
                # absolutise command-line paths
                key = 'bfg9000.platforms.basepath:BasePath.abspath|os.getcwd'
            via = _allowed_via_callers(repo, repo.enclosing_func(node),
                                       what)
            if key in AMBIENT_ALLOW:
                ctx.ob(R, key, True, node, 'allow-listed: ' +
                       AMBIENT_ALLOW[key])
            elif via:
                ctx.ob(R, via, True, node, 'allow-listed: private helper '
                       'called only from ' + via)
            else:
                ctx.ob(R, key, False, node,
                       'ambient process state ({}) is read outside the '
                       'configure-time capture'.format(what))
    # calls relying on an os.environ default
    defaults = _env_default_functions(repo)
    ctx.stat('functions_with_environ_default', sorted(
        fi.fq for v in defaults.values() for fi, _, _ in v))
    wrappers = {'check_which': 1}     # forwards *args to shell.which: env=1
    for m in sorted(repo.modules.values(), key=lambda x: x.name):
        if m.name.startswith(OUT_OF_SCOPE_MODULES):
            continue
        for c in ast.walk(m.tree):
            if not isinstance(c, ast.Call):
                continue
            name = Q.attr_name(c.func)
            target = None
            if name in defaults:
                # resolve exactly when possible
                r = repo.resolve_expr(m, c.func) if isinstance(
                    c.func, (ast.Name, ast.Attribute)) else None
                if r and r[0] == 'func':
                    cand = [x for x in defaults[name] if x[0] is r[1]]
                    if not cand:
                        continue
                    target = cand[0]
                elif r is None and isinstance(c.func, ast.Attribute):
                    if isinstance(c.func.value, ast.Name) and \
                            c.func.value.id in ('self', 'cls'):
                        continue      # a method of the enclosing class
                    target = defaults[name][0]     # by name (widening)
                else:
                    continue
                fi, pname, idx = target
                passed = Q.arg(c, idx, pname) is not None or any(
                    isinstance(a, ast.Starred) for a in c.args) or any(
                        k.arg is None for k in c.keywords)
            elif name in wrappers and isinstance(c.func, ast.Name):
                idx = wrappers[name]
                passed = len(c.args) > idx or Q.kwarg(c, 'env') is not None
                pname = 'env'
            else:
                continue
            n += 1
            fn = repo.enclosing_func(c)
            key = '{}|default-env:{}'.format(where(c, m), name)
            if passed:
                a = Q.arg(c, idx, pname)
                ok = a is None
                if a is not None and fn is not None:
                    at = _facts(ctx).atoms(a, fn)
                    ok = has(at, 'variables') or has(at, 'environ') or \
                        any(x.startswith(('param:', 'via:param:'))
                            for x in at) or has(at, 'initial')
                ctx.ob(R, key + '|passes-saved-variables', ok, c,
                       'the environment argument is not derived from the '
                       'saved variables')
            elif key in AMBIENT_ALLOW:
                ctx.ob(R, key, True, c, 'allow-listed: ' + AMBIENT_ALLOW[key])
            elif _allowed_via_callers(repo, fn, 'default-env:' + name):
                ctx.ob(R, _allowed_via_callers(
                    repo, fn, 'default-env:' + name), True, c,
                    'allow-listed: private helper of an allow-listed caller')
            else:
                ctx.ob(R, key + '|relies-on-ambient-default', False, c,
                       '{}(...) is called without an environment: it '
                       'searches the ambient PATH instead of the saved one'
                       .format(name))
    # the *target* platform defaults to the host: detecting it again later
    # (instead of restoring the saved one) ties a regeneration to the machine
    # it runs on
    TP = 'bfg9000.platforms.target:platform_info'
    tp_allow = {
        'bfg9000.environment:Environment.__init__':
            'the configure-time capture',
        'bfg9000.builtins.toolchain:target_platform':
            'explicit platform/arch given by the toolchain file',
        'bfg9000.driver:add_configure_args':
            'default install directories shown in --help (configure time)',
        'bfg9000.driver:main': 'e1m1 playback tempo',
    }
    if repo.has_func(TP):
        tf = repo.func(TP)
        for m_, c_, exact in Q.find_callers(repo, tf, by_name_ok=False):
            w = where(c_, m_)
            n += 1
            ctx.ob(R, w + '|target.platform_info', w in tp_allow, c_,
                   'the target platform is detected from the running machine '
                   'in {} instead of being restored from the saved '
                   'configuration'.format(w))
    ctx.require_min(R, n, 25, 'ambient-state sites')


def nullable_roundtrip(ctx):
    R = 'NULLABLE-ROUNDTRIP'
    ctx.rule(R, 'a saved attribute that can be None on the constructor side '
             'is saved with a None-preserving expression and loaded with one '
             'that can produce None; str(x)/T(x) applied unconditionally to '
             'a nullable is reported')
    repo = ctx.repo
    F = _facts(ctx)
    fl = F.flow
    save = F.fn(ENV + 'Environment.save')
    load = F.fn(ENV + 'Environment.load')
    init = F.fn(ENV + 'Environment.__init__')
    nullable = {}
    for m, c, exact in Q.find_callers(repo, init, by_name_ok=False):
        for kw in c.keywords:
            if kw.arg and _may_be_none(repo, m, kw.value):
                nullable[kw.arg] = unparse(kw.value)
    for attr, v in _attrs_stored(F, init, lambda b: b == 'self').items():
        if any(a.startswith('try_') for a in direct(v)) or \
                'const:None' in v and attr in Q.params(init.node):
            nullable.setdefault(attr, 'may be None in __init__')
    ctx.stat('nullable_environment_fields', nullable)
    top = _dumped_record(F, save)
    saved = fl.subrecord(top, 'data') if top else None
    Q.require(saved is not None, 'Environment.save: data record not found')
    restored = {k: v for k, v in _attrs_stored(
        F, load, lambda base: '__new__(' in base).items()
        if not k.startswith('_')}
    TOTAL = ('str(', 'repr(', 'int(', 'bool(', 'list(')
    for k in sorted(saved):
        if k not in nullable:
            continue
        d = direct(fl.rec_atoms(saved, k))
        total_conv = any(a.startswith(TOTAL) for a in d) and \
            'const:None' not in d
        ctx.ob(R, 'Environment.save|' + k, not total_conv, save.node,
               '{} can be None ({}) but is saved through a total '
               'conversion: None becomes the string \'None\''.format(
                   k, nullable[k]))
        if k in restored:
            d = direct(restored[k])
            ctor = [a for a in d if re.match(r'^[A-Z][A-Za-z]*\(', a)]
            ok = not ctor or 'const:None' in restored[k]
            ctx.ob(R, 'Environment.load|' + k, ok, load.node,
                   '{} can be None but load applies {} unconditionally: '
                   'None cannot be restored'.format(k, ctor))


def _may_be_none(repo, m, e):
    if isinstance(e, ast.Constant) and e.value is None:
        return True
    if isinstance(e, ast.IfExp):
        return _may_be_none(repo, m, e.body) or _may_be_none(
            repo, m, e.orelse)
    if isinstance(e, ast.Call):
        name = Q.attr_name(e.func)
        r = repo.resolve_expr(m, e.func) if isinstance(
            e.func, (ast.Name, ast.Attribute)) else None
        cands = []
        if r and r[0] == 'func':
            cands = [r[1]]
        elif isinstance(e.func, ast.Attribute):
            cands = [f for f in repo.functions.values()
                     if f.node.name == name and f.cls is None and
                     f.module.name.startswith('bfg9000.backends')]
        for f in cands:
            for r_ in Q.returns(f.node):
                if r_.value is None or (isinstance(
                        r_.value, ast.Constant) and r_.value.value is None):
                    return True
    return False


def ctor_bypass(ctx):
    R = 'CTOR-BYPASS'
    ctx.rule(R, 'a from_json that bypasses __init__ through cls.__new__ '
             'assigns the same attribute set as __init__')
    repo = ctx.repo
    F = _facts(ctx)
    n = 0
    for ci in sorted(repo.classes.values(), key=lambda c: c.fq):
        fj = ci.methods.get('from_json')
        init = ci.methods.get('__init__')
        if fj is None or init is None:
            continue
        if not any(isinstance(c.func, ast.Attribute) and
                   c.func.attr == '__new__' for c in Q.calls(fj)):
            continue
        n += 1
        a1 = set(_attrs_stored(F, init._func, lambda b: b == 'self'))
        a2 = set(_attrs_stored(F, fj._func, lambda b: '__new__(' in b))
        lazy = set()
        for pname, p in ci.methods.items():
            for t in ast.walk(p):
                if isinstance(t, ast.Call) and unparse(t.func) == 'hasattr' \
                        and len(t.args) == 2 and isinstance(
                            t.args[1], ast.Constant):
                    lazy.add(t.args[1].value)
                # self.X read inside try/except AttributeError: the same
                # "may be absent" protocol
                if isinstance(t, ast.Try) and any(
                        h.type is not None and 'AttributeError' in
                        unparse(h.type) for h in t.handlers):
                    for st in t.body:
                        for x in ast.walk(st):
                            if isinstance(x, ast.Attribute) and isinstance(
                                    x.value, ast.Name) and \
                                    x.value.id == 'self':
                                lazy.add(x.attr)
        missing = a1 - a2 - lazy
        ctx.ob(R, ci.fq + '|from_json-assigns-all', not missing, fj,
               'from_json bypasses __init__ but does not set {}'.format(
                   sorted(missing)))
    ctx.ob(R, 'ctor-bypassing-from_json|found', n >= 3, None,
           'only {} constructor-bypassing from_json methods found'.format(n))


def load_only(ctx):
    R = 'LOAD-ONLY'
    ctx.rule(R, 'regenerate/env/run obtain their Environment only from '
             'Environment.load; load_toolchain resets the variables before '
             'replaying the toolchain file for every true member of '
             'Regenerating (finite-domain evaluation of the guards); the toolchain '
             'path comes from the saved environment; install_dirs is a no-op '
             'when regenerating; project arguments are re-parsed from the '
             'saved extra_args')
    repo = ctx.repo
    F = _facts(ctx)
    D = 'bfg9000.driver:'
    LOADED = ('Environment', 'load()')
    for name in ('regenerate', 'env', 'run'):
        f = F.fn(D + name)
        loads = [e for e in F.effects(f, lambda e: e.name == 'load',
                                      depth=1)
                 if any(h.endswith('Environment.load') for h in e.heads())]
        ctx.ob(R, name + '|env-from-load', bool(loads), f.node,
               '{} does not load the saved environment'.format(name))
        bad = F.effects(f, lambda e: e.name in (
            'Environment', 'environment_from_args', 'finalize_environment',
            'finalize'), depth=2)
        ctx.ob(R, name + '|no-fresh-environment', not bad, f.node,
               '{} constructs/finalizes a fresh Environment'.format(name))
        errs = [e for e in F.effects(f, lambda e: e.name == 'error',
                                     depth=1)
                if param_of(e.control(), 'extra')]
        ctx.ob(R, name + '|rejects-extra-args', bool(errs), f.node,
               'command-line arguments of a later invocation are accepted')
    f = F.fn(D + 'regenerate')
    lt = F.calls_to(f, 'load_toolchain', depth=1)
    ok = bool(lt) and all(
        has(e.arg(0), *LOADED) and has(e.arg(1), 'Environment', 'load()',
                                       'toolchain', 'path') and
        has(e.arg(2, kw='regenerating'), 'regenerating') for e in lt)
    ctx.ob(R, 'regenerate|toolchain-from-saved-env', ok, f.node,
           'regenerate does not replay the saved toolchain file with the '
           'regenerating flag')
    cb = F.calls_to(f, 'configure_build', depth=1)
    ok = bool(cb) and all(has(e.arg(0), *LOADED) and has(
        e.arg(1, kw='regenerating'), 'regenerating') for e in cb)
    ctx.ob(R, 'regenerate|configure_build(env)', ok, f.node,
           'the build is not configured from the saved environment')
    allat = set()
    for e in F.effects(f, lambda e: e.fn.module is f.module, depth=1):
        allat |= e.all_args() | e.heads() | e.control() | e.recv()
    ctx.ob(R, 'regenerate|backend-from-saved-env',
           has(allat, 'Environment', 'load()', 'backend'), f.node,
           'backend is not taken from the saved environment')
    ctx.ob(R, 'regenerate|compdb-from-saved-env',
           has(allat, 'Environment', 'load()', 'compdb'), f.node,
           'compdb switch is not taken from the saved environment')
    lt = F.fn('bfg9000.build:load_toolchain')
    rl = F.calls_to(lt, 'reload', depth=0)
    ex = F.calls_to(lt, 'execute_file', depth=0)
    ok = bool(rl) and all(
        param_of(e.recv(), 'env') and any(
            pos and param_of(F.atoms(t, f_, b_), 'regenerating')
            for t, pos, f_, b_ in F.guard_leaves(e.call, e.fn, e.bind))
        for e in rl)
    setp = [n for t, v, n in F.stores(lt)
            if has(t, 'toolchain', 'path') and param_of(v, 'path')]
    ok = ok and bool(setp) and all(any(
        not pos and param_of(F.atoms(t, f_, b_), 'regenerating')
        for t, pos, f_, b_ in F.guard_leaves(n, lt)) for n in setp)
    ctx.ob(R, 'load_toolchain|reload-when-regenerating', ok, lt.node,
           'variables are not reset to their initial values before the '
           'toolchain file is replayed (or the saved toolchain path is '
           'overwritten)')
    # finite-domain evaluation over the members of Regenerating: the reset
    # happens for every member that is true (a lazy regeneration replays
    # the toolchain file as well), the path store only for the false one
    members = _regen_members(ctx)
    bad = []
    for m, truthy in sorted(members.items()):
        hit = any(_reached(F, e.call, e.fn, 'regenerating', m, members)
                  for e in rl if e.fn is lt)
        if any(e.fn is not lt for e in rl):
            hit = hit or truthy     # reset moved into a helper: not evaluated
        if truthy and not hit:
            bad.append('no reset for Regenerating.' + m)
        if not truthy and hit:
            bad.append('reset on a fresh configure')
        st = any(_reached(F, n, lt, 'regenerating', m, members)
                 for n in setp)
        if truthy and st:
            bad.append('saved toolchain path overwritten for Regenerating.'
                       + m)
    ctx.ob(R, 'load_toolchain|reload-for-every-regenerating-member',
           not bad, lt.node, '; '.join(bad))
    g = F.cfg(lt)
    ok = bool(rl) and bool(ex) and not any(
        g.reaches(g.stmt_of(x.call), g.stmt_of(r.call))
        for x in ex for r in rl)
    ctx.ob(R, 'load_toolchain|reload-before-execute', ok, lt.node,
           'toolchain file is executed before the reset')
    rlm = F.fn(ENV + 'Environment.reload')
    ok = any(has(e.recv(), 'self', 'variables')
             for e in F.calls_to(rlm, 'reset', depth=1))
    ctx.ob(R, 'Environment.reload|resets-variables', ok, rlm.node,
           'reload() does not reset the variables')
    idf = F.fn('bfg9000.builtins.toolchain:install_dirs')
    muts = [n for t, v, n in F.stores(idf) if has(t, 'install_dirs')]

    def any_regeneration(t):
        # truthiness of the flag itself (or a comparison with `false`), not
        # a test for one particular kind of regeneration
        for c in ast.walk(t):
            if isinstance(c, ast.Compare):
                a = set()
                for x in [c.left] + c.comparators:
                    a |= F.atoms(x, idf)
                if has(a, 'Regenerating') and not has(a, 'Regenerating',
                                                      'false'):
                    return False
        return True
    ok = bool(muts) and all(any(
        not pos and has(F.atoms(t, f_, b_), 'regenerating') and
        any_regeneration(t)
        for t, pos, f_, b_ in F.guard_leaves(n, idf)) for n in muts)
    ctx.ob(R, 'toolchain.install_dirs|noop-when-regenerating', ok, idf.node,
           'install_dirs of the toolchain file overrides the saved (possibly '
           'command-line) install directories on regeneration')
    cb = F.fn('bfg9000.build:configure_build')
    ok = any(has(e.arg(0), 'extra_args')
             for e in F.calls_to(cb, 'parse_args', depth=1))
    ctx.ob(R, 'configure_build|parse_args(env.extra_args)', ok, cb.node,
           'project arguments are not re-parsed from the saved extra_args')
    conf = F.fn(D + 'configure')
    fe = F.fn(D + 'finalize_environment')
    ok = any(param_of(e.all_args(), 'extra')
             for e in F.calls_to(conf, 'finalize_environment', depth=0)) \
        and any(param_of(e.arg(kw='extra_args'), 'extra_args')
                for e in F.calls_to(fe, 'finalize', depth=0))
    ctx.ob(R, 'configure|extra-args-saved', ok, conf.node,
           'project arguments given at configure time are not saved')
    f = F.fn(D + 'run')
    runs = F.effects(f, lambda e: Q.kwarg(e.call, 'env') is not None,
                     depth=1)
    ok = bool(runs) and all(
        has(e.arg(kw='env'), 'Environment', 'load()', 'variables') and
        has(e.arg(kw='env'), 'Environment', 'load()', 'variables',
            'initial')
        and not has(e.arg(kw='env'), 'environ') for e in runs)
    ctx.ob(R, 'run|saved-variables', ok, f.node,
           '`bfg9000 run` does not run the command with the saved variables')
    ex = F.fn(ENV + 'Environment.execute')
    fwd = F.effects(ex, lambda e: Q.kwarg(e.call, 'env') is not None,
                    depth=0)
    ok = bool(fwd) and all(has(e.arg(kw='env'), 'self', 'variables')
                           for e in fwd)
    ctx.ob(R, 'Environment.execute|default-env-is-saved', ok, ex.node,
           'tools are run with the ambient environment')


def check(ctx):
    ctx.not_decided += [
        'equality of the configuration objects before save / after load over '
        'all values (paths, variable names, option combinations)']
    env_fields(ctx)
    upgrade_chain(ctx)
    mutators(ctx)
    ambient(ctx)
    nullable_roundtrip(ctx)
    ctor_bypass(ctx)
    load_only(ctx)
