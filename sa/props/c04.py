"""C04 -- File names with special characters denote the same file in the
build tool.

Decided: the path rows of ESC-MAKE / ESC-NINJA (targets, prerequisites,
order-only directories, include operands, depfile entries, ninja build-line
paths, the Syntax.clean path variables), SYNTAX-POSITION for path positions,
the path obligations of WRITE-FLOW (paths quoted as one unit), and that clean
passes Path objects. Not decided: what compilers write into .d files and
whether depfixer agrees with them; whether the tool then finds the file.
"""
import ast

from ..index import unparse
from .. import query as Q
from ..rules import escape as E
from . import c01, c02


def clean_paths(ctx):
    R = 'CLEAN-PATHS'
    ctx.rule(R, 'the clean rule hands Path objects (escaped per context by '
             'the writer), not pre-rendered strings, to rm; it covers '
             'build_inputs.targets()')
    repo = ctx.repo
    f = repo.func('bfg9000.builtins.clean:make_clean_rule')
    rm = [c for c in Q.calls(f.node) if unparse(c.func) == 'rm']
    Q.require(len(rm) == 1, 'make_clean_rule: rm(...) call not found')
    a = rm[0].args[0] if rm[0].args else None
    ok = a is not None and isinstance(a, (ast.GeneratorExp, ast.ListComp)) \
        and unparse(a.elt) == 'i.path' and \
        unparse(a.generators[0].iter) == 'build_inputs.targets()' and \
        not a.generators[0].ifs
    ctx.ob(R, f.fq + '|rm(i.path for i in targets())', ok, rm[0],
           'clean does not pass the path objects of all targets to rm')
    # directory sentinels are Paths appended to the parent directory
    f = repo.func('bfg9000.backends.make.writer:directory_deps')
    rets = Q.returns(f.node)
    ok = len(rets) == 1 and 'i.append(dir_sentinel)' in unparse(
        rets[0].value)
    ctx.ob(R, f.fq + '|sentinel-is-path', ok, f.node,
           'directory sentinel is not a Path below the output directory')


def check(ctx):
    ctx.rule('ESC-MAKE', 'every Make path position (target, prerequisite, '
             'order-only, include operand, depfile entry, path variable) is '
             'written with a Syntax member that escapes every GNU Make '
             'metacharacter of that position')
    ctx.rule('ESC-NINJA', 'every Ninja path position (outputs, inputs, '
             'implicit, order-only, default) escapes $, space and colon')
    ctx.rule('SYNTAX-POSITION', 'left of a colon: Syntax.target/output; '
             'right of it: Syntax.dependency/input')
    ctx.not_decided += [
        'what compilers write into .d files and whether depfixer.tokenize '
        'agrees with them (external writer)',
        'whether the backend tool then resolves the escaped name to the file '
        '(reader behaviour is taken from sa/tables.py)']
    table, members, sites = c01.make_sites(ctx)
    path_ctx = {'MK_TARGET', 'MK_PREREQ'}
    E.esc_rule(ctx, 'ESC-MAKE', sites, table, only_contexts=path_ctx)
    E.esc_rule(ctx, 'ESC-MAKE', sites, table,
               only_contexts={'MK_VARVALUE'}, only_members={'clean'})
    c01.esc_make_extra(ctx, table)
    E.position_rule(ctx, 'SYNTAX-POSITION',
                    [s for s in sites if any(c in path_ctx for c in s[2])])
    ntable, nmembers, nsites = c02.ninja_sites(ctx)
    E.esc_rule(ctx, 'ESC-NINJA', nsites, ntable, only_contexts={'NJ_PATH'})
    E.position_rule(ctx, 'SYNTAX-POSITION',
                    [s for s in nsites if 'NJ_PATH' in s[2]])
    E.write_flow(ctx, E.MAKE_SYN, {'function', 'shell'})
    E.write_flow(ctx, E.NINJA_SYN, {'shell'})
    clean_paths(ctx)
    # depfile post-processing keeps escaped characters of dependency names
    from . import c07
    c07.depfix_table(ctx)
