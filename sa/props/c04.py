"""C04 -- File names with special characters denote the same file in the
build tool.

Decided: the path rows of ESC-MAKE / ESC-NINJA (targets, prerequisites,
order-only directories, include operands, depfile entries, ninja build-line
paths, the Syntax.clean path variables), SYNTAX-POSITION for path positions,
the path obligations of WRITE-FLOW (paths quoted as one unit), and that clean
passes Path objects. Not decided: what compilers write into .d files and
whether depfixer agrees with them; whether the tool then finds the file.
"""
import ast
import re

from ..index import unparse
from .. import query as Q
from ..rules import escape as E
from ..rules import escape2 as E2
from . import c01, c02


def clean_paths(ctx):
    R = 'CLEAN-PATHS'
    ctx.rule(R, 'the clean rule hands Path objects (escaped per context by '
             'the writer), not pre-rendered strings, to rm; it covers '
             'build_inputs.targets()')
    from ..facts import Facts, direct, has, has_call
    F = getattr(ctx, '_facts', None)
    if F is None:
        F = ctx._facts = Facts(ctx.repo)
    f = F.fn('bfg9000.builtins.clean:make_clean_rule')
    rm = [e for e in F.effects(f, lambda e: e.callee_is("tool('rm')"),
                               depth=1)]
    ok = bool(rm) and all(
        has(e.all_args(), 'targets()', 'path') and not has_call(
            e.all_args(), 'if') and not has(direct(e.all_args()),
                                            'string()') for e in rm)
    ctx.ob(R, f.fq + '|rm(i.path for i in targets())', ok, f.node,
           'clean does not pass the path objects of all targets to rm')
    f = F.fn('bfg9000.backends.make.writer:directory_deps')
    r = F.returns(f)
    ok = any('append(' in a for a in r) and has(r, 'dir_sentinel')
    ctx.ob(R, f.fq + '|sentinel-is-path', ok, f.node,
           'directory sentinel is not a Path below the output directory')


WORDWISE = re.compile(r'\$\([@<^?*%+|][DF]\)|\$\{[@<^?*%+|][DF]\}|'
                      r'\$\((dir|notdir|basename|suffix|abspath|realpath|'
                      r'firstword|lastword)\s')


def wordwise_functions(ctx):
    """GNU Make's directory/file variants of the automatic variables
    (`$(@D)`, `$(<F)`, ...) and its file-name functions (`$(dir ..)`,
    `$(notdir ..)`, ...) treat their operand as a *list of words*: applied
    to `$@` they cut a file name that contains a space into pieces
    (reader-side fact, GNU Make manual 'Automatic Variables' / 'Functions
    for File Names'). No text of a generated Makefile may use them on file
    names: every string constant of the Make backend and of the builtins
    that write recipes is scanned."""
    R = 'MK-WORDWISE'
    ctx.rule(R, 'no generated Make text applies a word-wise file-name '
             'function or a D/F automatic-variable variant to a file name '
             '(they split names containing spaces)')
    n = 0
    for m in ctx.repo.modules.values():
        if not (m.name.startswith('bfg9000.backends.make') or
                m.name.startswith('bfg9000.builtins')):
            continue
        for c in ast.walk(m.tree):
            if isinstance(c, ast.Constant) and isinstance(c.value, str):
                n += 1
                hit = WORDWISE.search(c.value) or re.fullmatch(
                    r'[@<^?*%+|][DF]', c.value)   # var('@D') / qvar('<F')
                par = getattr(c, '_parent', None)
                if hit is None and isinstance(par, ast.Call) and unparse(
                        par.func).split('.')[-1] == 'Function' and \
                        par.args and par.args[0] is c and c.value in (
                            'dir', 'notdir', 'basename', 'suffix', 'abspath',
                            'realpath', 'firstword', 'lastword'):
                    hit = re.match(r'.+', c.value)   # Function('dir', ..)
                if hit:
                    ctx.ob(R, '{}|{}'.format(m.name, hit.group(0).strip()),
                           False, c, 'Make text {!r} uses {}: the operand is '
                           'split at spaces, so a file name with a space is '
                           'cut into words'.format(c.value[:60],
                                                   hit.group(0).strip()))
    ctx.ob(R, 'constants-scanned', n >= 500, None,
           'only {} string constants scanned'.format(n))
    # the scanner itself (expected count on the tree is zero): a positive
    # example must match on every run
    ctx.ob(R, 'scanner-self-check', bool(WORDWISE.search("mkdir -p '$(@D)'"))
           and bool(WORDWISE.search('$(dir $@)')) and not WORDWISE.search(
               "'$(patsubst %/.dir,%,$@)'"), None,
           'the word-wise pattern no longer recognises its examples')


def check(ctx):
    wordwise_functions(ctx)
    ctx.rule('ESC-MAKE', 'Syntax.target / Syntax.dependency / Syntax.clean '
             'escape every GNU Make metacharacter of the path positions they '
             'are designed for (targets and include operands; '
             'prerequisites; path variables) and escape nothing the reader '
             'leaves alone; every producer of run-time data for a Make '
             'variable value is an instance of the unescaped `#`; keys are '
             'context|member|character')
    ctx.rule('ESC-NINJA', 'Syntax.output / Syntax.input escape $, space and '
             'colon (Ninja build-line paths)')
    ctx.rule('SYNTAX-POSITION', 'value flow from Makefile.write / '
             'NinjaFile.write / write_depfile through their helpers: rule '
             'targets and include operands are written with Syntax.target, '
             'prerequisites and order-only directories with '
             'Syntax.dependency (targets only on the .PHONY line), build '
             'outputs with Syntax.output, inputs/implicit/order-only/'
             'defaults with Syntax.input')
    ctx.not_decided += [
        'what compilers write into .d files and whether depfixer.tokenize '
        'agrees with them (external writer)',
        'whether the backend tool then resolves the escaped name to the file '
        '(reader behaviour is taken from sa/tables.py)']
    table, members, sites = c01.make_sites(ctx)
    path_ctx = {'MK_TARGET', 'MK_PREREQ'}
    E2.esc_members(ctx, 'ESC-MAKE', E.MAKE_SYN, table, path_ctx)
    E2.esc_members(ctx, 'ESC-MAKE', E.MAKE_SYN, table, {'MK_VARVALUE'},
                   only_members={'clean'})
    c01.esc_make_extra(ctx, table)
    c01.var_producers(ctx, table)
    path_roles = [r for r in E2.MAKE_ROLES + E2.DEPFILE_ROLES
                  if set(r[1]) & {'target', 'dependency'}]
    E2.position_rule(ctx, 'SYNTAX-POSITION', sites, path_roles, 'make')
    E2.phony_targets_as_prereqs(ctx, 'SYNTAX-POSITION', sites)
    ntable, nmembers, nsites = c02.ninja_sites(ctx)
    E2.esc_members(ctx, 'ESC-NINJA', E.NINJA_SYN, ntable, {'NJ_PATH'})
    E2.position_rule(ctx, 'SYNTAX-POSITION', nsites, [
        r for r in E2.NINJA_ROLES if set(r[1]) & {'output', 'input'}],
        'ninja')
    E2.write_flow(ctx, E.MAKE_SYN, {'function', 'shell'})
    E2.write_flow(ctx, E.NINJA_SYN, {'shell'})
    clean_paths(ctx)
    # depfile post-processing keeps escaped characters of dependency names
    from . import c07
    c07.depfix_table(ctx)
