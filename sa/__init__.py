"""Static-analysis machinery for the bfg9000 properties C01-C20.

Nothing under /repo is imported or executed by this package: every check parses
the working tree with `ast` and decides rules about the shape of the code.
"""
